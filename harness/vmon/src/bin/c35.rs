//! C35 — results do not depend on stream chunking, and I/O errors are never hidden.
//!
//! Part (a) chunking: every operation is run once over plain in-memory cursors (the reference) and
//! then with the caller-side streams wrapped in a shim that moves 1..=n bytes per read/write call
//! (n ∈ {1,2,3,7,4095,seeded}); the result summary must be equal.  A variant that additionally
//! injects `ErrorKind::Interrupted` is judged leniently (equal, or an I/O error: logged unjudged).
//!
//! Part (b) faults: a probe run counts the read/write/seek/flush calls the operation makes on each
//! caller-side stream; then for every k (capped / sampled beyond the cap) the k-th call of that kind
//! fails (one-shot and sticky).  Verdict per run, from the statement only:
//!   * a panic is a violation;
//!   * an `Err` is always fine;
//!   * an `Ok` whose summary equals the fault-free summary is fine (the failed call was not needed or
//!     was legitimately retried) — counted as `tolerated`;
//!   * any other `Ok` (in particular Valid/Trusted for data that could not be read, or a signed output
//!     that does not read back exactly like the fault-free one) is a violation.
//!
//! Result summaries: reads → (state, normalised report, codes) or error kind; sign → output length +
//! read-back outcome of the output; ingredient → normalised Ingredient JSON; placeholder flow →
//! read-back outcome of the patched asset; archive write/read → normalised builder definition.
use c2pa::{Builder, BuilderIntent, Context, HashRange, Reader};
use serde_json::{json, Value};
use std::io::Cursor;
use vmon::iokit::{self, Mode, Op, Shim, ShimLog};
use vmon::{assets::Asset, embedkit, par, report, signers, Rng, Run};

#[derive(Clone, Copy, Debug, PartialEq, Eq, PartialOrd, Ord)]
enum OpKind {
    ReadSigned,
    ReadClean,
    Sign,
    Ingredient,
    Placeholder,
    ArchiveWrite,
    ArchiveRead,
}

impl OpKind {
    fn name(&self) -> &'static str {
        match self {
            OpKind::ReadSigned => "read-signed",
            OpKind::ReadClean => "read-unsigned",
            OpKind::Sign => "sign",
            OpKind::Ingredient => "add-ingredient",
            OpKind::Placeholder => "placeholder-flow",
            OpKind::ArchiveWrite => "archive-write",
            OpKind::ArchiveRead => "archive-read",
        }
    }
    /// caller-side streams the operation uses: "src" and/or "dst"
    fn streams(&self) -> &'static [&'static str] {
        match self {
            OpKind::Sign => &["src", "dst"],
            OpKind::ArchiveWrite => &["dst"],
            _ => &["src"],
        }
    }
}

fn settings() -> String {
    json!({
        "verify": {"verify_trust": true, "remote_manifest_fetch": false, "ocsp_fetch": false},
        "trust": {"trust_anchors": signers::trust_anchors_pem()},
        "builder": {"thumbnail": {"enabled": false}}
    })
    .to_string()
}
fn ctx() -> Context {
    Context::new().with_settings(settings().as_str()).expect("settings")
}
fn builder() -> Builder {
    let mut b = Builder::from_context(ctx())
        .with_definition(json!({"title": "c35", "assertions": [{"label": "org.verif.test", "data": {"k": 35}}]}))
        .expect("definition");
    b.set_intent(BuilderIntent::Edit);
    b
}

#[derive(Clone, Debug, PartialEq)]
struct Res {
    ok: Option<Value>,
    err: Option<String>,
    panic: Option<String>,
}
impl Res {
    fn class(&self) -> String {
        if self.panic.is_some() {
            "panic".into()
        } else if let Some(e) = &self.err {
            format!("err:{e}")
        } else {
            format!("ok:{}", self.ok.as_ref().and_then(|v| v.get("state")).and_then(|s| s.as_str()).unwrap_or("done"))
        }
    }
}

fn outcome_value(o: &report::Outcome) -> Res {
    match o.state.as_str() {
        "Panic" => Res { ok: None, err: None, panic: o.error.clone() },
        "Err" => Res { ok: None, err: o.error.clone(), panic: None },
        _ => Res { ok: Some(json!({"state": o.state, "report": o.report, "codes": o.codes})), err: None, panic: None },
    }
}

/// Blanks every value stored under a key named "hash": assertion hashes cover random instance ids and
/// differ between two otherwise identical signing runs.
fn mask_hashes(v: &Value) -> Value {
    match v {
        Value::Object(m) => Value::Object(m.iter().map(|(k, x)| (k.clone(), if k == "hash" { json!("H") } else { mask_hashes(x) })).collect()),
        Value::Array(a) => Value::Array(a.iter().map(mask_hashes).collect()),
        o => o.clone(),
    }
}

/// Read-back summary of a produced asset: hashes are masked *before* normalisation so that manifest
/// fingerprints do not depend on them.
fn readback(fmt: &str, out: &[u8]) -> Value {
    let bytes = out.to_vec();
    match report::catch_sdk(|| Reader::from_context(ctx()).with_stream(fmt, Cursor::new(bytes))) {
        Ok(Ok(r)) => {
            let raw: Value = serde_json::from_str(&r.json()).unwrap_or(Value::Null);
            json!({"state": format!("{:?}", r.validation_state()), "len": out.len(), "readback": {"report": report::norm_report_value(&mask_hashes(&iokit::canon(&raw))), "codes": report::codes_of(&r)}})
        }
        Ok(Err(e)) => json!({"state": "unreadable", "len": out.len(), "readback": {"error": report::err_kind(&e)}}),
        Err(p) => json!({"state": "readback-panic", "len": out.len(), "readback": {"error": p}}),
    }
}

/// failure codes inside a result summary (reads and read-backs)
fn failures(v: &Value) -> Vec<String> {
    let codes = v.get("codes").or_else(|| v.get("readback").and_then(|r| r.get("codes")));
    let mut out = Vec::new();
    if let Some(Value::Array(a)) = codes {
        for c in a {
            if c.get(1).and_then(|k| k.as_str()) == Some("failure") {
                out.push(c.get(2).and_then(|k| k.as_str()).unwrap_or("").to_string());
            }
        }
    }
    if let Some(vr) = v.get("ingredient").and_then(|i| i.get("validation_results")) {
        let mut walk = vec![vr];
        while let Some(x) = walk.pop() {
            match x {
                Value::Object(m) => {
                    if let Some(Value::Array(f)) = m.get("failure") {
                        for e in f {
                            out.push(e.get("code").and_then(|c| c.as_str()).unwrap_or("").to_string());
                        }
                    }
                    walk.extend(m.values());
                }
                Value::Array(a) => walk.extend(a.iter()),
                _ => {}
            }
        }
    }
    out.sort();
    out.dedup();
    out
}

fn from_sdk<T>(r: Result<c2pa::Result<T>, String>, f: impl FnOnce(T) -> Value) -> Res {
    match r {
        Err(p) => Res { ok: None, err: None, panic: Some(p) },
        Ok(Err(e)) => Res { ok: None, err: Some(report::err_kind(&e)), panic: None },
        Ok(Ok(t)) => Res { ok: Some(f(t)), err: None, panic: None },
    }
}

struct Subject {
    asset: Asset,
    signed: Option<Vec<u8>>,
    archive: Option<Vec<u8>>,
    /// byte range of the manifest store inside `signed` (contiguous embeddings only)
    store_range: Option<(usize, usize)>,
}

struct RunOut {
    res: Res,
    src: ShimLog,
    dst: ShimLog,
    dst_len: usize,
}

fn find(h: &[u8], n: &[u8]) -> Option<usize> {
    if n.is_empty() || n.len() > h.len() {
        return None;
    }
    h.windows(n.len()).position(|w| w == n)
}

/// Where to put a composed placeholder for the formats the placeholder flow is exercised on.
fn placeholder_offset(fmt: &str, bytes: &[u8]) -> Option<usize> {
    match fmt {
        "jpg" => Some(2),
        "mp4" | "heic" => {
            let n = u32::from_be_bytes(bytes.get(0..4)?.try_into().ok()?) as usize;
            (n >= 8 && n <= bytes.len()).then_some(n)
        }
        _ => None,
    }
}

/// Runs `op` on `s` with the given modes on the caller-side streams.
fn run_op(op: OpKind, s: &Subject, src_mode: Mode, dst_mode: Mode, seed: u64) -> RunOut {
    let fmt = s.asset.format;
    let empty = ShimLog::default();
    match op {
        OpKind::ReadSigned | OpKind::ReadClean => {
            let bytes = if op == OpKind::ReadSigned { s.signed.clone().unwrap_or_default() } else { s.asset.bytes.clone() };
            let mut shim = Shim::new(Cursor::new(bytes), src_mode, seed);
            let o = iokit::read_stream(ctx(), fmt, &mut shim);
            RunOut { res: outcome_value(&o), src: shim.log.clone(), dst: empty, dst_len: 0 }
        }
        OpKind::Sign => {
            let mut src = Shim::new(Cursor::new(s.asset.bytes.clone()), src_mode, seed);
            let mut dst = Shim::new(Cursor::new(Vec::new()), dst_mode, seed ^ 0x5a5a);
            let signer = signers::test_signer("ed25519");
            let r = report::catch_sdk(|| {
                let mut b = builder();
                b.sign(signer.as_ref(), fmt, &mut src, &mut dst)
            });
            let out = dst.inner.get_ref().clone();
            let res = from_sdk(r, |_store| readback(fmt, &out));
            RunOut { res, src: src.log.clone(), dst: dst.log.clone(), dst_len: out.len() }
        }
        OpKind::Ingredient => {
            let bytes = s.signed.clone().unwrap_or_else(|| s.asset.bytes.clone());
            let mut shim = Shim::new(Cursor::new(bytes), src_mode, seed);
            let r = report::catch_sdk(|| {
                let mut b = builder();
                let ing = b.add_ingredient_from_stream(json!({"title": "parent", "relationship": "parentOf"}).to_string(), fmt, &mut shim)?;
                serde_json::to_value(&*ing).map_err(c2pa::Error::JsonError)
            });
            let res = from_sdk(r, |v| {
                let st = v.get("validation_results").map(|_| "with-validation").unwrap_or("plain");
                json!({"state": st, "ingredient": report::norm_report_value(&iokit::canon(&v))})
            });
            RunOut { res, src: shim.log.clone(), dst: empty, dst_len: 0 }
        }
        OpKind::Placeholder => {
            let Some(off) = placeholder_offset(fmt, &s.asset.bytes) else {
                return RunOut { res: Res { ok: None, err: Some("harness:no-placeholder-offset".into()), panic: None }, src: empty.clone(), dst: empty, dst_len: 0 };
            };
            let mut log = ShimLog::default();
            let r = report::catch_sdk(|| -> c2pa::Result<Vec<u8>> {
                let mut b = builder();
                let ph = b.placeholder(fmt)?;
                let mut asset = s.asset.bytes.clone();
                asset.splice(off..off, ph.iter().copied());
                if fmt == "jpg" {
                    b.set_data_hash_exclusions(vec![HashRange::new(off as u64, ph.len() as u64)])?;
                }
                let mut shim = Shim::new(Cursor::new(asset.clone()), src_mode, seed);
                let hr = b.update_hash_from_stream(fmt, &mut shim).map(|_| ());
                log = shim.log.clone();
                hr?;
                let signed = b.sign_embeddable(fmt)?;
                if signed.len() != ph.len() {
                    return Err(c2pa::Error::BadParam(format!("harness: signed {} != placeholder {}", signed.len(), ph.len())));
                }
                asset[off..off + signed.len()].copy_from_slice(&signed);
                Ok(asset)
            });
            let res = from_sdk(r, |asset| readback(fmt, &asset));
            RunOut { res, src: log, dst: empty, dst_len: 0 }
        }
        OpKind::ArchiveWrite => {
            let mut dst = Shim::new(Cursor::new(Vec::new()), dst_mode, seed);
            let r = report::catch_sdk(|| {
                let b = builder();
                b.to_archive(&mut dst)
            });
            let out = dst.inner.get_ref().clone();
            let res = from_sdk(r, |_| match report::catch_sdk(|| Builder::from_context(ctx()).with_archive(Cursor::new(out.clone()))) {
                Ok(Ok(b)) => json!({"state": "restored", "definition": report::norm_report_value(&iokit::canon(&serde_json::to_value(&b.definition).unwrap_or(Value::Null)))}),
                Ok(Err(e)) => json!({"state": "unrestorable", "error": report::err_kind(&e)}),
                Err(p) => json!({"state": "restore-panic", "error": p}),
            });
            RunOut { res, src: empty, dst: dst.log.clone(), dst_len: out.len() }
        }
        OpKind::ArchiveRead => {
            let bytes = s.archive.clone().unwrap_or_default();
            let mut shim = Shim::new(Cursor::new(bytes), src_mode, seed);
            let r = report::catch_sdk(|| Builder::from_context(ctx()).with_archive(&mut shim));
            let res = from_sdk(r, |b| json!({"state": "restored", "definition": report::norm_report_value(&iokit::canon(&serde_json::to_value(&b.definition).unwrap_or(Value::Null)))}));
            RunOut { res, src: shim.log.clone(), dst: empty, dst_len: 0 }
        }
    }
}

#[derive(Clone, Debug)]
struct Case {
    subject: usize,
    op: OpKind,
    /// "chunk" | "chunk+eintr" | "fault"
    kind: &'static str,
    stream: &'static str,
    mode: Mode,
}

fn region(pos: Option<u64>, len: usize, store: Option<(usize, usize)>) -> &'static str {
    let Some(p) = pos else { return "none" };
    let p = p as usize;
    if let Some((a, b)) = store {
        if p >= a && p < b {
            return "manifest";
        }
    }
    if p < 64.min(len / 4 + 1) {
        "header"
    } else if p + 32 >= len {
        "tail"
    } else {
        "body"
    }
}

struct CaseOut {
    class: String,
    verdict: &'static str,
    sig: Option<String>,
    what: String,
    fired: bool,
}

fn main() {
    let mut run = Run::from_args("C35", "fault_enumeration");
    report::quiet_panics();
    run.rule = "subjects = tiny synthetic assets of every format; operations = read signed / read unsigned / Builder::sign (source and destination stream) / add_ingredient_from_stream / placeholder flow (update_hash_from_stream) / archive write / archive read. (a) every (subject, op) under short reads+writes with max chunk 1,2,3,7,4095,seeded and with EINTR injection; (b) a counting probe, then a fault at the k-th read/write/seek/flush of each caller-side stream for every k up to the cap (sampled beyond), one-shot and sticky. Non-trivial = a run whose shim actually shortened a transfer or fired its fault; distinct = (op, format, stream, io kind, mode, region of the fault, outcome).".into();
    run.assumptions = vec![
        "reference = the same operation over plain in-memory cursors, run twice; a (subject, op) whose two reference runs disagree is reported inconclusive and not judged".into(),
        "signed outputs are compared by length and by the normalised read-back report (random UUIDs differ between runs)".into(),
        "an Ok result identical to the fault-free one after a fired fault is accepted (retry / call not needed), as is any Err; an in-memory destination cannot lose data on a failed flush, so a tolerated flush fault is not judged further".into(),
        "ErrorKind::Interrupted injections: std's read_exact/write_all retry them; a plain I/O error returned by the SDK in that variant is logged (unjudged:eintr-not-retried), not judged".into(),
        "sticky = every later call of the same kind on that stream fails as well".into(),
    ];
    let mut rng = Rng::new(run.seed, "c35");

    // ---------------- subjects
    let pool: Vec<Asset> = embedkit::extended_tiny_assets().into_iter().filter(|a| a.format != "c2pa").collect();
    let signer_ok = report::catch_sdk(|| signers::test_signer("ed25519")).is_ok();
    if !signer_ok {
        run.inconclusive("fixture signer unavailable");
        run.finish(1);
    }
    let archive: Option<Vec<u8>> = {
        let mut out = Cursor::new(Vec::new());
        match report::catch_sdk(|| builder().to_archive(&mut out)) {
            Ok(Ok(())) => Some(out.into_inner()),
            _ => None,
        }
    };
    let subjects: Vec<Subject> = par::par_map(pool.len(), |i| {
        let a = pool[i].clone();
        let signer = signers::test_signer("ed25519");
        let mut src = Cursor::new(a.bytes.clone());
        let mut dst = Cursor::new(Vec::new());
        let r = report::catch_sdk(|| builder().sign(signer.as_ref(), a.format, &mut src, &mut dst));
        let (signed, store_range) = match r {
            Ok(Ok(store)) => {
                let out = dst.into_inner();
                let range = find(&out, &store).map(|p| (p, p + store.len()));
                (Some(out), range)
            }
            _ => (None, None),
        };
        Subject { asset: a, signed, archive: archive.clone(), store_range }
    });
    run.set("subjects", json!(subjects.iter().map(|s| json!({"name": s.asset.name, "fmt": s.asset.format, "len": s.asset.bytes.len(), "signed_len": s.signed.as_ref().map(|b| b.len()), "store_range": s.store_range})).collect::<Vec<_>>()));

    // ---------------- (subject, op) pairs + references + probes
    let mut pairs: Vec<(usize, OpKind)> = Vec::new();
    for (i, s) in subjects.iter().enumerate() {
        pairs.push((i, OpKind::ReadClean));
        if s.signed.is_some() {
            pairs.push((i, OpKind::ReadSigned));
            pairs.push((i, OpKind::Sign));
            pairs.push((i, OpKind::Ingredient));
        }
        if placeholder_offset(s.asset.format, &s.asset.bytes).is_some() && matches!(s.asset.format, "jpg" | "mp4") {
            pairs.push((i, OpKind::Placeholder));
        }
        if i == 0 && s.archive.is_some() {
            pairs.push((i, OpKind::ArchiveWrite));
            pairs.push((i, OpKind::ArchiveRead));
        }
    }
    let refs: Vec<(RunOut, RunOut)> = par::par_map(pairs.len(), |i| {
        let (si, op) = pairs[i];
        (run_op(op, &subjects[si], Mode::Pass, Mode::Pass, 1), run_op(op, &subjects[si], Mode::Pass, Mode::Pass, 2))
    });
    let mut usable = vec![true; pairs.len()];
    for (i, (a, b)) in refs.iter().enumerate() {
        let (si, op) = pairs[i];
        if a.res != b.res {
            usable[i] = false;
            run.inconclusive(format!("reference for {} {} is not repeatable ({} vs {}: {}) — not judged", op.name(), subjects[si].asset.name, a.res.class(), b.res.class(), match (&a.res.ok, &b.res.ok) { (Some(x), Some(y)) => report::diff_paths(x, y, 3).join(" ; "), _ => String::new() }));
        } else if a.res.panic.is_some() {
            usable[i] = false;
            run.violation(&format!("{}|{}|none|none|panic-without-fault", op.name(), subjects[si].asset.format), &format!("{} on {} panics without any fault: {:?}", op.name(), subjects[si].asset.name, a.res.panic), json!({"subject": subjects[si].asset.name, "op": op.name()}));
        } else if a.res.err.as_deref().map(|e| e.starts_with("harness:")).unwrap_or(false) {
            usable[i] = false;
        }
        run.sample(&format!("reference:{}", op.name()), 2, json!({"subject": subjects[si].asset.name, "op": op.name(), "result": a.res.class(), "src_calls": a.src.calls, "dst_calls": a.dst.calls, "dst_len": a.dst_len}));
    }

    // ---------------- cases
    let cap: u64 = run.tier.pick(400, 4000);
    let beyond: usize = run.tier.pick(24, 400);
    let mut cases: Vec<(usize, Case)> = Vec::new();
    for (pi, (si, op)) in pairs.iter().enumerate() {
        if !usable[pi] {
            continue;
        }
        // (a) chunking
        let seeded = 1 + rng.usize(64);
        for max_chunk in [1usize, 2, 3, 7, 4095, seeded] {
            cases.push((pi, Case { subject: *si, op: *op, kind: "chunk", stream: "all", mode: Mode::Choppy { max_chunk, interrupt_every: 0 } }));
        }
        for (max_chunk, every) in [(1usize, 2u64), (7, 3), (4095, 5)] {
            cases.push((pi, Case { subject: *si, op: *op, kind: "chunk+eintr", stream: "all", mode: Mode::Choppy { max_chunk, interrupt_every: every } }));
        }
        // (b) faults
        let probe = &refs[pi].0;
        for stream in op.streams() {
            let log = if *stream == "src" { &probe.src } else { &probe.dst };
            for io in Op::ALL {
                let n = log.calls[io as usize];
                let mut ks: Vec<u64> = (1..=n.min(cap)).collect();
                if n > cap {
                    for _ in 0..beyond {
                        ks.push(cap + 1 + rng.below(n - cap));
                    }
                    ks.push(n);
                    ks.sort();
                    ks.dedup();
                }
                for k in ks {
                    for sticky in [false, true] {
                        cases.push((pi, Case { subject: *si, op: *op, kind: "fault", stream, mode: Mode::Fault { op: io, k, sticky } }));
                    }
                }
            }
        }
    }
    run.set("cases", json!(cases.len()));

    // ---------------- replay
    if let Some(p) = run.replay.clone() {
        let v: Value = serde_json::from_slice(&std::fs::read(&p).expect("replay")).expect("json");
        let w = &v["witness"];
        let si = subjects.iter().position(|s| s.asset.name == w["subject"].as_str().unwrap_or("")).expect("subject");
        let op = *pairs.iter().map(|(_, o)| o).find(|o| o.name() == w["op"].as_str().unwrap_or("")).expect("op");
        let io = Op::ALL.into_iter().find(|o| o.name() == w["io"].as_str().unwrap_or("read")).unwrap_or(Op::Read);
        let mode = match w["kind"].as_str().unwrap_or("") {
            "fault" => Mode::Fault { op: io, k: w["k"].as_u64().unwrap_or(1), sticky: w["sticky"].as_bool().unwrap_or(false) },
            _ => Mode::Choppy { max_chunk: w["max_chunk"].as_u64().unwrap_or(1) as usize, interrupt_every: w["interrupt_every"].as_u64().unwrap_or(0) },
        };
        let (sm, dm) = match w["stream"].as_str().unwrap_or("src") {
            "dst" => (Mode::Pass, mode),
            "src" => (mode, Mode::Pass),
            _ => (mode, mode),
        };
        let base = run_op(op, &subjects[si], Mode::Pass, Mode::Pass, 1);
        let r = run_op(op, &subjects[si], sm, dm, run.seed);
        println!("replay: reference={} got={} equal={}", base.res.class(), r.res.class(), base.res == r.res);
        let bad = r.res.panic.is_some() || (r.res.ok.is_some() && r.res != base.res) || (w["kind"] != "fault" && r.res != base.res);
        std::process::exit(if bad { 1 } else { 0 });
    }

    // ---------------- execute
    let seed = run.seed;
    let outs: Vec<CaseOut> = par::par_map_watch(
        cases.len(),
        300,
        |i| println!("INCONCLUSIVE: property=C35 watchdog: case {:?} exceeded 300 s", cases[i].1),
        |i| {
            let (pi, c) = &cases[i];
            let s = &subjects[c.subject];
            let base = &refs[*pi].0;
            let (sm, dm) = match c.stream {
                "src" => (c.mode, Mode::Pass),
                "dst" => (Mode::Pass, c.mode),
                _ => (c.mode, c.mode),
            };
            let r = run_op(c.op, s, sm, dm, seed ^ (i as u64));
            let fmt = s.asset.format;
            let same = r.res == base.res;
            match c.kind {
                "fault" => {
                    let (io, k, sticky) = match c.mode {
                        Mode::Fault { op, k, sticky } => (op, k, sticky),
                        _ => unreachable!(),
                    };
                    let log = if c.stream == "src" { &r.src } else { &r.dst };
                    let (len, store) = match (c.op, c.stream) {
                        (OpKind::ReadSigned, _) | (OpKind::Ingredient, _) => (s.signed.as_ref().map(|b| b.len()).unwrap_or(0), s.store_range),
                        (OpKind::Sign, "dst") | (OpKind::ArchiveWrite, _) => (base.dst_len, if c.op == OpKind::Sign { s.store_range } else { None }),
                        (OpKind::ArchiveRead, _) => (s.archive.as_ref().map(|b| b.len()).unwrap_or(0), None),
                        _ => (s.asset.bytes.len(), None),
                    };
                    let reg = region(log.fired_pos, len, store);
                    let kc = if k <= 3 { "first" } else { "later" };
                    let mode = if sticky { "sticky" } else { "oneshot" };
                    let class = format!("{}|{fmt}|{}|{}|{mode}|{kc}|{reg}|{}", c.op.name(), c.stream, io.name(), if !log.fired { "not-fired".to_string() } else if same && r.res.ok.is_some() { "tolerated".into() } else { r.res.class() });
                    let sigbase = format!("{}|{fmt}|{}-{}|{reg}", c.op.name(), c.stream, io.name());
                    if r.res.panic.is_some() {
                        return CaseOut { class, verdict: "violation", sig: Some(format!("{sigbase}|panic")), what: format!("panic: {:?}", r.res.panic), fired: log.fired };
                    }
                    if !log.fired {
                        if !same {
                            return CaseOut { class, verdict: "violation", sig: Some(format!("{}|{fmt}|{}-{}|none|nondeterministic-io-pattern", c.op.name(), c.stream, io.name())), what: format!("fault k={k} never fired and the result differs from the reference: {} vs {}", r.res.class(), base.res.class()), fired: false };
                        }
                        return CaseOut { class, verdict: "trivial", sig: None, what: String::new(), fired: false };
                    }
                    if r.res.err.is_some() || same {
                        return CaseOut { class, verdict: "held", sig: None, what: String::new(), fired: true };
                    }
                    let st = r.res.ok.as_ref().and_then(|v| v.get("state")).and_then(|x| x.as_str()).unwrap_or("");
                    let accepted = st == "Valid" || st == "Trusted";
                    let newf: Vec<String> = {
                        let b = base.res.ok.as_ref().map(failures).unwrap_or_default();
                        r.res.ok.as_ref().map(failures).unwrap_or_default().into_iter().filter(|f| !b.contains(f)).collect()
                    };
                    let hash_mismatch = !newf.is_empty() && newf.iter().all(|f| f.ends_with("Hash.mismatch"));
                    let had_manifest = base.res.ok.as_ref().and_then(|v| v.get("ingredient")).and_then(|i| i.get("active_manifest")).is_some();
                    let has_manifest = r.res.ok.as_ref().and_then(|v| v.get("ingredient")).and_then(|i| i.get("active_manifest")).is_some();
                    // cause classes (few, stable): the io kind / region / format only stay in the signature where
                    // no common cause is recognisable
                    let sig = if hash_mismatch {
                        format!("{}|any|{}-io|any|io-error-reported-as-hash-mismatch", c.op.name(), c.stream)
                    } else if c.op == OpKind::Ingredient && had_manifest && !has_manifest {
                        format!("{}|any|{}-io|any|io-error-drops-manifest-silently", c.op.name(), c.stream)
                    } else if matches!(c.op, OpKind::Sign | OpKind::Placeholder | OpKind::ArchiveWrite) && accepted {
                        format!("{}|{fmt}|{}-{}|any|ok-with-different-output-after-fault", c.op.name(), c.stream, io.name())
                    } else if accepted {
                        format!("{sigbase}|accepted-after-fault")
                    } else {
                        format!("{sigbase}|ok-differs-after-fault")
                    };
                    let _ = &sigbase;
                    CaseOut { class, verdict: "violation", sig: Some(sig), what: format!("{} fault #{k} ({mode}) on {} at pos {:?}: operation returned Ok ({}, failures {:?}) differing from the fault-free result ({}, failures {:?}): {}", io.name(), c.stream, log.fired_pos, r.res.class(), r.res.ok.as_ref().map(failures).unwrap_or_default(), base.res.class(), base.res.ok.as_ref().map(failures).unwrap_or_default(), match (&base.res.ok, &r.res.ok) { (Some(x), Some(y)) => report::diff_paths(x, y, 4).join(" ; "), _ => String::new() }), fired: true }
                }
                _ => {
                    let (mc, ie) = match c.mode {
                        Mode::Choppy { max_chunk, interrupt_every } => (max_chunk, interrupt_every),
                        _ => unreachable!(),
                    };
                    let moved = r.src.calls[0] + r.src.calls[1] + r.dst.calls[0] + r.dst.calls[1];
                    let class = format!("{}|{fmt}|{}|chunk<={}|eintr/{ie}|{}", c.op.name(), c.kind, if mc > 64 { "4095".to_string() } else if mc > 7 { "seeded".into() } else { mc.to_string() }, if same { "same".to_string() } else { r.res.class() });
                    if r.res.panic.is_some() {
                        return CaseOut { class, verdict: "violation", sig: Some(format!("{}|{fmt}|short-io|any|panic", c.op.name())), what: format!("panic: {:?}", r.res.panic), fired: moved > 0 };
                    }
                    if same {
                        return CaseOut { class, verdict: if moved > 0 { "held" } else { "trivial" }, sig: None, what: String::new(), fired: moved > 0 };
                    }
                    if ie > 0 && r.res.err.as_deref() == Some("IoError") {
                        return CaseOut { class, verdict: "unjudged", sig: None, what: "eintr-not-retried".into(), fired: true };
                    }
                    let what = format!("max_chunk={mc} interrupt_every={ie}: {} vs in-memory {}{}", r.res.class(), base.res.class(), match (&r.res.ok, &base.res.ok) {
                        (Some(a), Some(b)) => format!(" ; {}", report::diff_paths(b, a, 3).join(" ; ")),
                        _ => String::new(),
                    });
                    let defect = match (&r.res.ok, &base.res.ok) {
                        (None, Some(_)) => "ok-becomes-err",
                        (Some(_), None) => "err-becomes-ok",
                        (None, None) => "error-kind-differs",
                        _ => "result-differs",
                    };
                    // mp3 and flac share the ID3 reader: one cause class
                    let fam = if matches!(fmt, "mp3" | "flac") { "id3" } else { fmt };
                    CaseOut { class, verdict: "violation", sig: Some(format!("{}|{fam}|short-io|any|{defect}", c.op.name())), what, fired: true }
                }
            }
        },
    );

    // ---------------- fold
    for (i, o) in outs.iter().enumerate() {
        let (_, c) = &cases[i];
        let s = &subjects[c.subject];
        run.eval();
        run.count(&format!("{}:{}", c.kind, o.verdict), 1);
        let mut w = json!({"subject": s.asset.name, "fmt": s.asset.format, "op": c.op.name(), "kind": c.kind, "stream": c.stream, "class": o.class});
        match c.mode {
            Mode::Fault { op, k, sticky } => {
                w["io"] = json!(op.name());
                w["k"] = json!(k);
                w["sticky"] = json!(sticky);
            }
            Mode::Choppy { max_chunk, interrupt_every } => {
                w["max_chunk"] = json!(max_chunk);
                w["interrupt_every"] = json!(interrupt_every);
            }
            _ => {}
        }
        match o.verdict {
            "trivial" => continue,
            "unjudged" => {
                run.count(&format!("unjudged:{}", o.what), 1);
                run.sample("unjudged:eintr-not-retried", 2, w);
                continue;
            }
            "violation" => {
                run.nontrivial(o.class.clone());
                w["what"] = json!(o.what);
                run.violation(o.sig.as_deref().unwrap_or("unknown"), &format!("{} {} [{}]: {}", c.op.name(), s.asset.name, o.class, o.what), w);
            }
            _ => {
                if o.fired {
                    run.nontrivial(o.class.clone());
                }
                if o.class.ends_with("tolerated") {
                    run.count("fault_tolerated_identical_result", 1);
                    run.sample(&format!("tolerated:{}:{}", c.op.name(), c.stream), 1, w);
                } else {
                    run.sample(&format!("held:{}:{}", c.op.name(), c.kind), 1, w);
                }
            }
        }
    }
    run.engine("release", true, json!({"threads": par::workers()}));
    run.finish(150);
}
