#![no_main]
//! C10 libFuzzer target: `jumbf_io::load_jumbf_from_memory` (the hint alone selects the handler).
use libfuzzer_sys::fuzz_target;

const HINTS: [&str; 12] = ["jpg", "png", "gif", "tif", "jxl", "wav", "mp4", "flac", "mp3", "pdf", "svg", "c2pa"];

fuzz_target!(|data: &[u8]| {
    if data.is_empty() {
        return;
    }
    let hint = HINTS[(data[0] as usize) % HINTS.len()];
    let _ = c2pa::jumbf_io::load_jumbf_from_memory(hint, &data[1..]);
});
