//! C18 — JUMBF manifest stores round-trip canonically.
//!
//! E1: for a store B returned by `Builder::sign`:  reserialize(B) == B (byte for byte).
//! E2: for any byte string B' the store parser accepts: B1 = reserialize(B'); reserialize(B1) == B1.
//! `reserialize` = hook `store_reserialize` = `Store::from_jumbf_with_context` + `to_jumbf_internal(0)`.
//!
//! Workload: SDK-produced stores from generated definitions (plain / compressed / thumbnails /
//! databox resources / ingredient chains / redactions / update manifests / claim v1+v2 / several
//! signature algorithms / side-car) over the tiny assets, plus the stores embedded in the repository's
//! signed fixtures (older producers: judged for E2 only); mutants = byte flips and box-level edits made
//! with the harness's own JUMBF walker.
use c2pa::{verif_hooks, Builder, BuilderIntent, Context, DigitalSourceType};
use serde_json::{json, Value};
use std::io::Cursor;
use vmon::storegen::{self as sg, Edit};
use vmon::{assets, jumbf, par, report, signers, Rng, Run};

#[derive(Clone)]
struct Base {
    kind: String,
    store: Vec<u8>,
    sdk_fresh: bool,
}

fn reser(b: &[u8]) -> Result<Result<Vec<u8>, String>, String> {
    let ctx = Context::new();
    report::catch_sdk(|| verif_hooks::store_reserialize(b, &ctx).map_err(|e| report::err_kind(&e)))
}

fn user_assertions(rng: &mut Rng, n: usize) -> Vec<Value> {
    (0..n)
        .map(|i| {
            let label = match rng.below(4) {
                0 => format!("org.verif.a{}", i),
                1 => "org.verif.dup".to_string(), // duplicate labels get __1, __2 instances
                2 => format!("com.example.{}", rng.ascii_lower(5)),
                _ => "org.verif.meta".to_string(),
            };
            let data = match rng.below(4) {
                0 => {
                    let n = rng.usize(40);
                    json!({"k": rng.below(1000), "s": rng.ascii_lower(n)})
                }
                1 => json!({"nested": {"a": [1, 2, {"b": rng.ascii_lower(3)}], "f": 1.5, "n": null, "t": true}}),
                2 => {
                    let n = 300 + rng.usize(3000);
                    json!({"big": rng.ascii_lower(n)})
                }
                _ => json!({"unicode": "héllo wörld ✓", "neg": -5, "z": 0}),
            };
            if rng.bool() {
                json!({"label": label, "data": data, "kind": "Json"})
            } else {
                json!({"label": label, "data": data})
            }
        })
        .collect()
}

/// Generates one chain of SDK-produced stores; returns every store produced on the way.
fn gen_chain(seed: u64, idx: usize) -> Vec<Base> {
    let mut rng = Rng::new(seed, &format!("c18gen{idx}"));
    let tiny = assets::tiny_assets();
    let a = &tiny[idx % tiny.len()];
    let alg = *rng.pick(&["ed25519", "ed25519", "es256", "ps256", "es384"]);
    let signer = signers::test_signer(alg);
    let compress = rng.chance(1, 3);
    let thumbs = rng.chance(1, 4) && (a.format == "jpg" || a.format == "png");
    let v1 = rng.chance(1, 5);
    let extra = json!({
        "core": {"prefer_compress_manifests": compress},
        "builder": {"thumbnail": {"enabled": thumbs}}
    });
    let mut out = Vec::new();
    let mut feat = vec![a.format.to_string(), alg.to_string()];
    if compress {
        feat.push("compress".into());
    }
    if thumbs {
        feat.push("thumb".into());
    }
    if v1 {
        feat.push("claimv1".into());
    }
    // level 0
    let n_ass = 1 + rng.usize(4);
    let mut def = json!({"title": format!("c18 {}", idx), "assertions": user_assertions(&mut rng, n_ass)});
    if v1 {
        def["claim_version"] = json!(1);
    }
    let databox = rng.chance(1, 3);
    if databox {
        def["ingredients"] = json!([{"title": "prompt", "format": "text/plain", "relationship": "inputTo",
            "data": {"format": "text/plain", "identifier": "prompt.txt"}}]);
        feat.push("databox".into());
    }
    let sidecar = rng.chance(1, 6);
    let r = report::catch_sdk(|| -> c2pa::Result<sg::Signed> {
        let mut b = sg::builder(&extra, def.clone(), BuilderIntent::Create(DigitalSourceType::Empty))?;
        if databox {
            b.add_resource("prompt.txt", Cursor::new(b"a verif prompt resource".to_vec()))?;
        }
        if sidecar {
            b.set_no_embed(true);
        }
        sg::sign(&mut b, signer.as_ref(), a.format, &a.bytes)
    });
    let lvl0 = match r {
        Ok(Ok(s)) => s,
        Ok(Err(e)) => {
            out.push(Base { kind: format!("SIGNERR:{}:{}", feat.join("+"), report::err_kind(&e)), store: vec![], sdk_fresh: false });
            return out;
        }
        Err(p) => {
            out.push(Base { kind: format!("SIGNPANIC:{}:{}", feat.join("+"), p), store: vec![], sdk_fresh: false });
            return out;
        }
    };
    out.push(Base { kind: format!("L0:{}{}", feat.join("+"), if sidecar { "+sidecar" } else { "" }), store: lvl0.store.clone(), sdk_fresh: true });
    if sidecar {
        return out;
    }
    // level 1..: edit / update on top, optionally with a component ingredient and redactions
    let mut prev = lvl0;
    let depth = rng.usize(3);
    for lvl in 1..=depth {
        let update = rng.chance(1, 3);
        let redact = rng.chance(1, 2);
        let component = !update && rng.chance(1, 3);
        let n_ass = rng.usize(3);
        let mut def = json!({"title": format!("c18 {} L{}", idx, lvl), "assertions": if update { json!([]) } else { json!(user_assertions(&mut rng, n_ass)) }});
        if v1 && !update {
            def["claim_version"] = json!(1);
        }
        let mut kind = vec![format!("L{}", lvl), if update { "update".into() } else { "edit".to_string() }];
        if redact {
            // redact the first user assertion of the parent's active manifest
            let ctx = sg::context(&json!({}));
            if let Ok(rd) = c2pa::Reader::from_context(ctx).with_stream(a.format, Cursor::new(prev.asset.clone())) {
                if let Some(m) = rd.active_manifest() {
                    let label = m.label().unwrap_or_default().to_string();
                    let target = m.assertion_references().map(|r| r.url()).find(|u| u.contains("org.verif") || u.contains("com.example"));
                    if let Some(u) = target {
                        // make it absolute
                        let al = u.rsplit('/').next().unwrap_or("").to_string();
                        let uri = format!("self#jumbf=/c2pa/{}/c2pa.assertions/{}", label, al);
                        def["redactions"] = json!([uri]);
                        def["assertions"].as_array_mut().unwrap().push(json!({"label": "c2pa.actions", "data": {"actions": [
                            {"action": "c2pa.redacted", "reason": "c2pa.PII.present", "parameters": {"redacted": uri}}]}}));
                        kind.push("redact".into());
                    }
                }
            }
        }
        if component {
            kind.push("component".into());
        }
        let prev_asset = prev.asset.clone();
        let comp_asset = out_first_asset(&tiny, idx + lvl);
        let r = report::catch_sdk(|| -> c2pa::Result<sg::Signed> {
            let mut b = sg::builder(&extra, def.clone(), if update { BuilderIntent::Update } else { BuilderIntent::Edit })?;
            if component {
                // a second, independently signed asset as componentOf ingredient
                let mut cb = sg::builder(&json!({}), json!({"title": "component", "assertions": [{"label": "org.verif.comp", "data": {"c": 1}}]}), BuilderIntent::Create(DigitalSourceType::Empty))?;
                let cs = sg::sign(&mut cb, signer.as_ref(), comp_asset.format, &comp_asset.bytes)?;
                b.add_ingredient_from_stream(json!({"title": "comp", "relationship": "componentOf"}).to_string(), comp_asset.format, &mut Cursor::new(cs.asset))?;
            }
            sg::sign(&mut b, signer.as_ref(), a.format, &prev_asset)
        });
        match r {
            Ok(Ok(s)) => {
                out.push(Base { kind: format!("{}:{}", kind.join("+"), feat.join("+")), store: s.store.clone(), sdk_fresh: true });
                prev = s;
            }
            Ok(Err(e)) => {
                out.push(Base { kind: format!("SIGNERR:{}:{}:{}", kind.join("+"), feat.join("+"), report::err_kind(&e)), store: vec![], sdk_fresh: false });
                break;
            }
            Err(p) => {
                out.push(Base { kind: format!("SIGNPANIC:{}:{}:{}", kind.join("+"), feat.join("+"), p), store: vec![], sdk_fresh: false });
                break;
            }
        }
    }
    out
}

fn out_first_asset(tiny: &[assets::Asset], i: usize) -> assets::Asset {
    tiny[i % tiny.len()].clone()
}

/// Stores embedded in the repository's signed fixtures (produced by older SDK versions / other tools).
fn fixture_bases() -> Vec<Base> {
    let names = [
        ("C.jpg", "jpg"), ("CA.jpg", "jpg"), ("CACA.jpg", "jpg"), ("XCA.jpg", "jpg"), ("CA_ct.jpg", "jpg"),
        ("C_with_CAWG_data.jpg", "jpg"), ("CIE-sig-CA.jpg", "jpg"), ("E-sig-CA.jpg", "jpg"), ("CACAE-uri-CA.jpg", "jpg"),
        ("adobe-20220124-E-clm-CAICAI.jpg", "jpg"), ("boxhash.jpg", "jpg"), ("cloud.jpg", "jpg"), ("legacy.mp4", "mp4"),
        ("ocsp.jpg", "jpg"), ("ocsp_with_assertion.jpg", "jpg"), ("video1.mp4", "mp4"), ("sample1.svg", "svg"),
        ("libpng-test_with_url.png", "png"), ("legacy_ingredient_hash.jpg", "jpg"), ("no_alg.jpg", "jpg"), ("prerelease.jpg", "jpg"),
    ];
    let mut out = Vec::new();
    for (n, f) in names {
        if let Some(b) = assets::fixture(n) {
            if let Ok(Ok(j)) = report::catch_sdk(|| c2pa::jumbf_io::load_jumbf_from_memory(f, &b)) {
                out.push(Base { kind: format!("fixture:{n}"), store: j, sdk_fresh: false });
            }
        }
    }
    if let Some(b) = assets::fixture("cloud_manifest.c2pa") {
        out.push(Base { kind: "fixture:cloud_manifest.c2pa".into(), store: b, sdk_fresh: false });
    }
    out
}

#[derive(Clone, Debug)]
struct Mutant {
    base: usize,
    kind: String,
    bytes: Vec<u8>,
}

fn level_of(b: &jumbf::JBox) -> &'static str {
    let depth = b.path.matches('/').count();
    if &b.typ == b"jumd" {
        return "jumd";
    }
    if &b.typ != b"jumb" {
        return "content";
    }
    match depth {
        0 => "store",
        1 => "manifest",
        2 => "mbox",
        _ => "assertion",
    }
}

fn gen_mutant(rng: &mut Rng, base_i: usize, base: &Base) -> Option<Mutant> {
    let data = &base.store;
    let root = jumbf::parse_store(data)?;
    let mut all = Vec::new();
    root.walk(&mut all);
    let op = rng.below(16);
    let pick = |rng: &mut Rng, all: &Vec<&jumbf::JBox>| -> usize { rng.usize(all.len()) };
    let (kind, bytes): (String, Vec<u8>) = match op {
        0 | 1 => {
            // random byte flips (1..3), biased towards structure
            let mut v = data.clone();
            let k = 1 + rng.usize(3);
            let mut what = "payload";
            for _ in 0..k {
                let pos = if rng.bool() {
                    let b = all[pick(rng, &all)];
                    what = "header";
                    b.start + rng.usize(b.header_len.min(b.len))
                } else {
                    rng.usize(v.len())
                };
                v[pos] ^= 1 << rng.below(8);
            }
            (format!("flip-{what}"), v)
        }
        2 => {
            let b = all[1 + rng.usize(all.len() - 1)];
            (format!("delete-{}", level_of(b)), sg::apply_edit(data, &root, b.start, &Edit::Delete))
        }
        3 => {
            let b = all[1 + rng.usize(all.len() - 1)];
            (format!("duplicate-{}", level_of(b)), sg::apply_edit(data, &root, b.start, &Edit::Duplicate))
        }
        4 => {
            let b = all[1 + rng.usize(all.len() - 1)];
            (format!("swap-{}", level_of(b)), sg::apply_edit(data, &root, b.start, &Edit::SwapNext))
        }
        5 => {
            let b = all[1 + rng.usize(all.len() - 1)];
            let jl = rng.usize(40);
            let jb = rng.bytes(jl);
            let junk = jumbf::make_box(*rng.pick(&[b"free", b"xxxx", b"uuid", b"json"]), &jb);
            let e = if rng.bool() { Edit::InsertBefore(junk) } else { Edit::InsertAfter(junk) };
            (format!("insert-unknown-leaf@{}", level_of(b)), sg::apply_edit(data, &root, b.start, &e))
        }
        6 => {
            let b = all[1 + rng.usize(all.len() - 1)];
            let mut u = [0u8; 16];
            u.copy_from_slice(&rng.bytes(16));
            let sb = if rng.bool() {
                sg::make_superbox(&u, "verif.unknown", &jumbf::make_box(b"json", b"{}"))
            } else {
                sg::make_superbox(&sg::UUID_JSON_ASSERTION, "verif.extra", &jumbf::make_box(b"json", b"{\"x\":1}"))
            };
            let e = if rng.bool() { Edit::InsertBefore(sb) } else { Edit::InsertAfter(sb) };
            (format!("insert-superbox@{}", level_of(b)), sg::apply_edit(data, &root, b.start, &e))
        }
        7 => {
            let b = all[pick(rng, &all)];
            (format!("largesize-{}", level_of(b)), sg::apply_edit(data, &root, b.start, &Edit::LargeHeader))
        }
        8 | 9 => {
            let jumds: Vec<&&jumbf::JBox> = all.iter().filter(|b| &b.typ == b"jumd").collect();
            let j = **rng.pick(&jumds);
            let k = rng.below(5) as u8;
            let nb = sg::jumd_variant(data, j, k, &rng.bytes(8))?;
            let name = ["id", "hash", "salt", "unrequestable", "label"][k as usize];
            let depth = j.path.matches('/').count();
            (format!("jumd-{}@d{}", name, depth.min(3)), sg::apply_edit(data, &root, j.start, &Edit::Replace(nb)))
        }
        10 => {
            // top-level size field = 0 ("extends to the end")
            let mut v = data.clone();
            v[0..4].copy_from_slice(&0u32.to_be_bytes());
            ("size0-store".into(), v)
        }
        11 => {
            let mut v = data.clone();
            let tl = 1 + rng.usize(16);
            v.extend_from_slice(&rng.bytes(tl));
            ("trailing-bytes".into(), v)
        }
        12 => {
            let b = all[1 + rng.usize(all.len() - 1)];
            ("truncate-at-box".into(), data[..b.start].to_vec())
        }
        13 => {
            let leaves: Vec<&&jumbf::JBox> = all.iter().filter(|b| &b.typ != b"jumb" && &b.typ != b"jumd").collect();
            let b = **rng.pick(&leaves);
            (format!("zero-payload-{}", b.typ_str().trim()), sg::apply_edit(data, &root, b.start, &Edit::ZeroPayload))
        }
        14 => {
            // replace a content box by one of another type with the same payload
            let leaves: Vec<&&jumbf::JBox> = all.iter().filter(|b| &b.typ != b"jumb" && &b.typ != b"jumd").collect();
            let b = **rng.pick(&leaves);
            let nb = jumbf::make_box(*rng.pick(&[b"cbor", b"json", b"bidb", b"bfdb", b"uuid"]), &data[b.payload_start()..b.end()]);
            (format!("retype-{}", b.typ_str().trim()), sg::apply_edit(data, &root, b.start, &Edit::Replace(nb)))
        }
        _ => {
            // splice: replace a random span by random bytes of the same length
            let mut v = data.clone();
            let n = 1 + rng.usize(8);
            let pos = rng.usize(v.len().saturating_sub(n).max(1));
            let r = rng.bytes(n);
            for (i, x) in r.iter().enumerate() {
                if pos + i < v.len() {
                    v[pos + i] = *x;
                }
            }
            ("splice".into(), v)
        }
    };
    if bytes == *data {
        return None;
    }
    Some(Mutant { base: base_i, kind, bytes })
}

struct MRes {
    class: Option<String>,
    violation: Option<(String, String)>,
    accepted: bool,
}

/// Cause class of a non-fixed-point witness, derived from what the first re-serialisation did to
/// the accepted input (never from the mutation operator or offsets): which kind of superbox the
/// writer dropped/added relative to what the parser had accepted.
/// Kinds ("claim", "signature", "assertion-store", …) of the child superboxes of every manifest of a
/// store, looking through brotli-compressed manifests.
fn manifest_children(store: &[u8]) -> Option<Vec<Vec<&'static str>>> {
    fn kind(u: &Option<[u8; 16]>) -> &'static str {
        match u.map(|u| [u[0], u[1], u[2], u[3]]) {
            Some([b'c', b'2', b'c', b'l']) => "claim",
            Some([b'c', b'2', b'c', b's']) => "signature",
            Some([b'c', b'2', b'a', b's']) => "assertion-store",
            Some([b'c', b'2', b'v', b'c']) => "credential-store",
            Some([b'c', b'2', b'd', b'b']) => "databox-store",
            _ => "other",
        }
    }
    let root = jumbf::parse_store(store)?;
    let mut out = Vec::new();
    for m in jumbf::manifests(&root) {
        if let Some(br) = m.children.iter().find(|c| &c.typ == b"brob") {
            let mut dec = Vec::new();
            let mut cur = std::io::Cursor::new(&store[br.payload_start()..br.end()]);
            if brotli::BrotliDecompress(&mut cur, &mut dec).is_err() {
                return None;
            }
            let inner = jumbf::parse_boxes(&dec, 0, dec.len(), "", 0)?;
            let im = inner.first()?;
            out.push(im.children.iter().filter(|c| &c.typ == b"jumb").map(|c| kind(&c.uuid)).collect());
        } else {
            out.push(m.children.iter().filter(|c| &c.typ == b"jumb").map(|c| kind(&c.uuid)).collect());
        }
    }
    Some(out)
}

fn cause_class(accepted: &[u8], b1: &[u8]) -> String {
    // first: what is structurally wrong with the writer's output, independent of the input
    match manifest_children(b1) {
        Some(ms) if ms.is_empty() => return "writer-emitted-no-manifest".into(),
        Some(ms) => {
            for kids in &ms {
                for need in ["claim", "signature", "assertion-store"] {
                    if !kids.contains(&need) {
                        return format!("writer-omitted-{need}-box");
                    }
                }
            }
        }
        None => {}
    }
    let (Some(a), Some(b)) = (jumbf::parse_store(accepted), jumbf::parse_store(b1)) else {
        return "unparseable-by-walker".into();
    };
    let (mut va, mut vb) = (Vec::new(), Vec::new());
    a.walk(&mut va);
    b.walk(&mut vb);
    let key = |x: &&jumbf::JBox| (x.path.clone(), x.uuid);
    let pa: Vec<_> = va.iter().filter(|x| &x.typ == b"jumb").map(key).collect();
    let pb: Vec<_> = vb.iter().filter(|x| &x.typ == b"jumb").map(key).collect();
    let kind_of = |u: &Option<[u8; 16]>| -> &'static str {
        match u.map(|u| [u[0], u[1], u[2], u[3]]) {
            Some([b'c', b'2', b'c', b'l']) => "claim",
            Some([b'c', b'2', b'c', b's']) => "signature",
            Some([b'c', b'2', b'a', b's']) => "assertion-store",
            Some([b'c', b'2', b'v', b'c']) => "credential-store",
            Some([b'c', b'2', b'd', b'b']) => "databox-store",
            Some([b'c', b'2', b'm', b'a']) | Some([b'c', b'2', b'u', b'm']) | Some([b'c', b'2', b'm', b'd']) => "manifest",
            _ => "other",
        }
    };
    for x in &pa {
        if !pb.contains(x) {
            let depth = x.0.matches('/').count();
            return format!("writer-dropped-{}-box@d{}", kind_of(&x.1), depth.min(4));
        }
    }
    for x in &pb {
        if !pa.contains(x) {
            let depth = x.0.matches('/').count();
            return format!("writer-added-{}-box@d{}", kind_of(&x.1), depth.min(4));
        }
    }
    "same-box-tree".into()
}

fn judge_mutant(m: &Mutant, base_kind: &str) -> MRes {
    let shape = base_kind.split(':').next().unwrap_or("").to_string();
    match reser(&m.bytes) {
        Err(p) => MRes { class: None, violation: Some((format!("panic|{}", m.kind), format!("panic parsing/re-serialising mutant: {p}"))), accepted: false },
        Ok(Err(_)) => MRes { class: None, violation: None, accepted: false },
        Ok(Ok(b1)) => match reser(&b1) {
            Err(p) => MRes { class: None, violation: Some((format!("panic-second-pass|{}", m.kind), format!("panic on re-serialised store: {p}"))), accepted: true },
            Ok(Err(e)) => MRes {
                class: Some(format!("{}|{}|reparse-error", shape, m.kind)),
                violation: Some((format!("not-fixed-point|{}|reparse-error:{}", cause_class(&m.bytes, &b1), e), format!("parser accepted the input ({}), but its own re-serialisation is rejected ({e})", m.kind))),
                accepted: true,
            },
            Ok(Ok(b2)) => {
                let outcome = if b1 == m.bytes { "accepted-identical" } else { "accepted-normalised" };
                if b2 == b1 {
                    MRes { class: Some(format!("{}|{}|{}", shape, m.kind, outcome)), violation: None, accepted: true }
                } else {
                    let p = sg::first_diff_path(&b1, &b2);
                    MRes {
                        class: Some(format!("{}|{}|not-fixed-point", shape, m.kind)),
                        violation: Some((format!("not-fixed-point|{}|{}", cause_class(&m.bytes, &b1), p), format!("reserialize(B1) != B1 after {} (len {} vs {}), first differing box {}", m.kind, b1.len(), b2.len(), p))),
                        accepted: true,
                    }
                }
            }
        },
    }
}

fn main() {
    let mut run = Run::from_args("C18", "exploration");
    report::quiet_panics();
    run.rule = "bases = manifest stores returned by Builder::sign over generated definitions (format x alg x plain/compressed/thumbnail/databox/claim v1|v2/side-car, chains of edit/update manifests with component ingredients and redactions) + stores embedded in signed repo fixtures; E1 judged on fresh SDK stores, E2 on every parser-accepted mutant (byte flips, box delete/duplicate/swap/insert/retype/zero, jumd field variants, largesize/size0 headers, truncation, trailing bytes). Non-trivial+distinct = distinct (base shape, mutation kind, accepted-identical|accepted-normalised) for accepted mutants and distinct base kinds for E1.".into();
    run.assumptions = vec![
        "hook store_reserialize = Store::from_jumbf_with_context + to_jumbf_internal(0); signature boxes of signed claims are re-emitted from the stored (already padded) value".into(),
        "fixture stores were produced by older SDK versions / other tools: E1 on them is reported (counter fixture_e1_diff) but not judged".into(),
        "a mutant the parser rejects is trivial (not counted)".into(),
    ];

    if let Some(p) = run.replay.clone() {
        let v: Value = serde_json::from_slice(&std::fs::read(&p).expect("replay file")).expect("json");
        let bytes = hex::decode(v["witness"]["store_hex"].as_str().unwrap_or("")).expect("hex");
        let kind = v["witness"]["mutation"].as_str().unwrap_or("replay").to_string();
        let r = if kind == "E1" {
            match reser(&bytes) {
                Ok(Ok(b)) if b == bytes => None,
                other => Some(format!("{:?}", other.map(|r| r.map(|b| b.len())))),
            }
        } else {
            judge_mutant(&Mutant { base: 0, kind, bytes: bytes.clone() }, "replay").violation.map(|v| v.1)
        };
        if let Ok(b1) = verif_hooks::store_reserialize(&bytes, &Context::new()) {
            println!("replay: mutant vs B1 first diff: {}", sg::first_diff_path(&bytes, &b1));
            match verif_hooks::store_reserialize(&b1, &Context::new()) {
                Ok(b2) => println!("replay: second pass ok, equal={}", b2 == b1),
                Err(e) => println!("replay: second pass error: {e:?}"),
            }
            if let (Some(a), Some(b)) = (jumbf::parse_store(&bytes), jumbf::parse_store(&b1)) {
                let (mut va, mut vb) = (Vec::new(), Vec::new());
                a.walk(&mut va);
                b.walk(&mut vb);
                let pa: Vec<String> = va.iter().filter(|x| &x.typ == b"jumb").map(|x| x.path.clone()).collect();
                let pb: Vec<String> = vb.iter().filter(|x| &x.typ == b"jumb").map(|x| x.path.clone()).collect();
                for x in &pa {
                    if !pb.contains(x) {
                        println!("replay: only in mutant: {x}");
                    }
                }
                for x in &pb {
                    if !pa.contains(x) {
                        println!("replay: only in B1: {x}");
                    }
                }
            }
        }
        println!("replay: violation={:?}", r);
        std::process::exit(if r.is_some() { 1 } else { 0 });
    }

    // ---- bases
    let n_chains = run.tier.pick(240, 3000);
    let chains = par::par_map(n_chains, |i| gen_chain(run.seed, i));
    let mut bases: Vec<Base> = Vec::new();
    for c in chains {
        for b in c {
            if b.store.is_empty() {
                // a signing failure of a generated definition is not this property's business; log it
                run.count("generator_sign_failures", 1);
                run.sample("generator-sign-failure", 3, json!({"kind": b.kind}));
                if b.kind.starts_with("SIGNPANIC") {
                    run.violation("panic|sign", &format!("panic while signing a generated definition: {}", b.kind), json!({"kind": b.kind}));
                }
                continue;
            }
            bases.push(b);
        }
    }
    let fresh = bases.len();
    bases.extend(fixture_bases());
    run.set("fresh_sdk_stores", json!(fresh));
    run.set("fixture_stores", json!(bases.len() - fresh));

    // ---- E1
    let e1 = par::par_map(bases.len(), |i| reser(&bases[i].store));
    let mut accepted_bases: Vec<usize> = Vec::new();
    for (i, r) in e1.iter().enumerate() {
        let b = &bases[i];
        run.eval();
        let n_manifests = jumbf::parse_store(&b.store).map(|s| jumbf::manifests(&s).len()).unwrap_or(0);
        match r {
            Err(p) => run.violation(&format!("panic|E1|{}", b.kind.split(':').next().unwrap_or("")), &format!("panic: {p}"), json!({"mutation": "E1", "kind": b.kind, "store_hex": hex::encode(&b.store)})),
            Ok(Err(e)) => {
                if b.sdk_fresh {
                    run.violation(&format!("E1-parse-error|{}|{}", b.kind.split(':').next().unwrap_or(""), e), &format!("SDK-produced store rejected by the store parser: {e}"), json!({"mutation": "E1", "kind": b.kind, "store_hex": hex::encode(&b.store)}));
                } else {
                    run.count("fixture_rejected_by_parser", 1);
                }
            }
            Ok(Ok(b1)) => {
                accepted_bases.push(i);
                if *b1 == b.store {
                    if b.sdk_fresh {
                        run.nontrivial(format!("E1|{}|m{}|identical", b.kind, n_manifests.min(4)));
                        run.sample("E1-identical", 2, json!({"kind": b.kind, "len": b.store.len(), "manifests": n_manifests}));
                    } else {
                        run.count("fixture_e1_identical", 1);
                    }
                } else if b.sdk_fresh {
                    let p = sg::first_diff_path(&b.store, b1);
                    let shape = b.kind.split(':').next().unwrap_or("").to_string();
                    run.violation(&format!("E1-diff|{}|{}", shape, p), &format!("reserialize(B) != B for an SDK-produced store ({}; len {} vs {}), first differing box {}", b.kind, b.store.len(), b1.len(), p), json!({"mutation": "E1", "kind": b.kind, "store_hex": hex::encode(&b.store)}));
                } else {
                    run.count("fixture_e1_diff", 1);
                    run.sample("unjudged:fixture-e1-diff", 2, json!({"kind": b.kind, "first_diff": sg::first_diff_path(&b.store, b1)}));
                }
            }
        }
    }

    // ---- directed E2 cases (run on every invocation): a manifest child box whose description-box
    // type UUID is the claim / signature / assertion-store one but whose label is not the expected one
    if let Some(bi) = accepted_bases.iter().cloned().find(|i| bases[*i].sdk_fresh && bases[*i].kind.starts_with("L0")) {
        let data = &bases[bi].store;
        if let Some(root) = jumbf::parse_store(data) {
            for suffix in ["/c2pa.signature", "/c2pa.assertions", "/c2pa.claim.v2", "/c2pa.claim", "/c2pa.databoxes"] {
                let Some(sb) = root.find(suffix) else { continue };
                let Some(j) = sb.children.iter().find(|c| &c.typ == b"jumd") else { continue };
                let Some(nb) = sg::jumd_variant(data, j, 4, &[0]) else { continue };
                let bytes = sg::apply_edit(data, &root, j.start, &Edit::Replace(nb));
                let m = Mutant { base: bi, kind: format!("directed:relabel{}", suffix), bytes };
                let res = judge_mutant(&m, &bases[bi].kind);
                run.eval();
                if let Some(c) = &res.class {
                    run.nontrivial(c.clone());
                }
                run.sample("directed", 5, json!({"base": bases[bi].kind, "mutation": m.kind, "accepted": res.accepted, "class": res.class}));
                if let Some((sig, what)) = &res.violation {
                    run.violation(sig, what, json!({"mutation": m.kind, "base": bases[bi].kind, "store_hex": hex::encode(&m.bytes)}));
                }
            }
        }
    }

    // ---- E2
    let n_mut = run.tier.pick(24_000usize, 400_000usize);
    let ab = &accepted_bases;
    let results = par::par_map(n_mut, |k| {
        let mut rng = Rng::new(run.seed, &format!("c18mut{k}"));
        let bi = ab[k % ab.len().max(1)];
        let m = gen_mutant(&mut rng, bi, &bases[bi])?;
        let r = judge_mutant(&m, &bases[bi].kind);
        Some((m.kind.clone(), bi, r, if k % 97 == 0 { Some(m.bytes.len()) } else { None }, m.bytes))
    });
    let mut accepted = 0u64;
    for r in results.into_iter().flatten() {
        let (kind, bi, res, _, bytes) = r;
        run.eval();
        run.count(&format!("mutants:{}", kind.split('@').next().unwrap_or("").split('-').next().unwrap_or("")), 1);
        if res.accepted {
            accepted += 1;
        }
        if let Some(c) = &res.class {
            run.nontrivial(c.clone());
            run.sample(&format!("accepted:{}", kind.split('@').next().unwrap_or("")), 1, json!({"base": bases[bi].kind, "mutation": kind, "class": c}));
        }
        if let Some((sig, what)) = &res.violation {
            run.violation(sig, what, json!({"mutation": kind, "base": bases[bi].kind, "store_hex": hex::encode(&bytes)}));
        }
    }
    run.count("mutants_accepted_by_parser", accepted);
    run.engine("release", true, json!({"threads": par::workers()}));
    run.finish(40);
}
