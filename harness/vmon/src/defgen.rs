//! Manifest-definition generator shared by the signing monitors (C03, C22, C40, C38 …).
//!
//! Everything here is *generation* and *driving* code: it builds `GenDef` values from a grammar
//! (title / claim generator / assertions with JSON or CBOR payload trees whose serialised sizes are
//! steered across the CBOR length boundaries / actions / ingredients / options), turns them into a
//! `c2pa::Builder`, and keeps the supplied values so that an oracle can compare them with what a
//! `Reader` reports.  No oracle lives here.
use crate::{assets, report, rng::Rng, signers};
use c2pa::{Builder, BuilderIntent, Context, DigitalSourceType, Reader};
use serde::{Deserialize, Serialize};
use serde_json::{json, Map, Value};
use std::io::Cursor;

/// How one assertion is handed to the builder.
#[derive(Clone, Debug, Serialize, Deserialize, PartialEq)]
pub enum Via {
    /// inside the definition JSON (`assertions: [{label, data, kind?}]`)
    Definition,
    /// `Builder::add_assertion` (CBOR) / `Builder::add_assertion_json` (JSON) after construction
    Api,
}

#[derive(Clone, Debug, Serialize, Deserialize)]
pub struct GenAssertion {
    pub label: String,
    /// true => stored as JSON (`kind: "Json"` / `add_assertion_json`), false => CBOR
    pub json_kind: bool,
    pub via: Via,
    pub data: Value,
    /// which size boundary the payload was steered to (evidence only), e.g. "cbor=256" / "str=23"
    pub steer: Option<String>,
}

#[derive(Clone, Debug, Serialize, Deserialize)]
pub struct GenIngredient {
    /// index into `IngredientPool::items`
    pub pool: usize,
    pub relationship: String,
    pub title: Option<String>,
    pub label: Option<String>,
}

#[derive(Clone, Debug, Serialize, Deserialize, PartialEq)]
pub enum Intent {
    None,
    Create,
    Edit,
}

#[derive(Clone, Debug, Serialize, Deserialize)]
pub struct GenDef {
    pub title: Option<String>,
    /// claim_generator_info entries (empty => SDK default)
    pub cgi: Vec<Value>,
    pub vendor: Option<String>,
    pub claim_version: Option<u8>,
    pub hash_alg: Option<String>,
    pub assertions: Vec<GenAssertion>,
    /// user actions (each `{"action": name, ...}`); empty => no actions assertion supplied
    pub actions: Vec<Value>,
    /// true => `add_action` per action, false => a `c2pa.actions` assertion inside the definition
    pub actions_via_api: bool,
    pub ingredients: Vec<GenIngredient>,
    pub intent: Intent,
    /// redaction URIs (filled by `add_redaction`)
    pub redactions: Vec<String>,
}

/// Options steering the grammar.
#[derive(Clone, Debug)]
pub struct GenOpts {
    pub max_assertions: usize,
    pub max_ingredients: usize,
    /// allow payloads up to ~66 KB (the 65535/65536 boundary); otherwise ≤ ~300 bytes
    pub big_payloads: bool,
    pub claim_version: Option<u8>,
    pub hash_alg: Option<&'static str>,
    pub intent: Option<Intent>,
    /// exact number of assertions / ingredients (covering arrays); None => random
    pub n_assertions: Option<usize>,
    pub n_ingredients: Option<usize>,
    /// allow labels whose *last* dot-component starts with a non-ASCII character (these currently
    /// panic the SDK, see C03 finding `nonascii-label-tail`); off by default so other checks see through
    pub unicode_tail_labels: bool,
}

impl Default for GenOpts {
    fn default() -> Self {
        GenOpts { max_assertions: 12, max_ingredients: 3, big_payloads: true, claim_version: None, hash_alg: None, intent: None, n_assertions: None, n_ingredients: None, unicode_tail_labels: false }
    }
}

pub const HASH_ALGS: &[Option<&str>] = &[None, Some("sha256"), Some("sha384"), Some("sha512")];

/// Action names that are valid in a c2pa.actions assertion and need no ingredient reference.
pub const PLAIN_ACTIONS: &[&str] = &[
    "c2pa.edited",
    "c2pa.cropped",
    "c2pa.resized",
    "c2pa.filtered",
    "c2pa.color_adjustments",
    "c2pa.drawing",
    "c2pa.orientation",
    "c2pa.edited.metadata",
    "c2pa.converted",
    "org.verif.custom_action",
];

const WORDS: &[&str] = &["alpha", "beta", "gamma", "delta", "note", "a-b", "x_y", "v", "Z9"];
const UNI: &[&str] = &["ünï", "日本語", "naïve", "Ωmega", "emoji😀", "кириллица", "عربى"];

fn word(rng: &mut Rng) -> String {
    if rng.chance(1, 5) {
        rng.pick(UNI).to_string()
    } else {
        rng.pick(WORDS).to_string()
    }
}

/// A custom assertion label: reverse-DNS, occasionally unicode, versioned, or deliberately repeated.
pub fn gen_label(rng: &mut Rng, used: &[String], unicode_tail: bool) -> String {
    if !used.is_empty() && rng.chance(1, 4) {
        // instance collision: same label again (the SDK stores it as label__1, __2 …)
        return rng.pick(used).clone();
    }
    let tld = *rng.pick(&["org.verif", "com.example", "org.verif.sub.deep", "io.github.user"]);
    let mut l = if rng.chance(1, 5) {
        // non-ASCII in a middle component
        format!("{tld}.{}.{}", rng.pick(UNI), rng.pick(WORDS))
    } else if unicode_tail && rng.chance(1, 10) {
        format!("{tld}.{}", rng.pick(UNI))
    } else {
        format!("{tld}.{}", rng.pick(WORDS))
    };
    if rng.chance(1, 8) {
        l.push_str(&format!(".v{}", rng.range(1, 3)));
    }
    l
}

/// True if the last dot-component of the label starts with a non-ASCII character.
pub fn label_has_nonascii_tail(label: &str) -> bool {
    label.rsplit('.').next().and_then(|c| c.chars().next()).map(|c| !c.is_ascii()).unwrap_or(false)
}

fn gen_string(rng: &mut Rng, n: usize) -> String {
    match rng.below(6) {
        0 => "x".repeat(n),
        1 => {
            // unicode, n *bytes* as close as possible
            let mut s = String::new();
            while s.len() + 3 <= n {
                s.push(*rng.pick(&['é', 'ß', '日', '€', 'a']));
            }
            while s.len() < n {
                s.push('a');
            }
            s
        }
        2 => {
            let mut s = String::new();
            while s.len() < n {
                s.push(*rng.pick(&['"', '\\', '/', '\n', '\t', 'q', '<', '&', '\'']));
            }
            s
        }
        _ => rng.ascii_lower(n),
    }
}

fn gen_scalar(rng: &mut Rng) -> Value {
    match rng.below(12) {
        0 => Value::Null,
        1 => json!(rng.bool()),
        2 => json!(rng.below(24)),
        // (integers above i64::MAX are rejected by the SDK's CBOR value conversion: C03 keeps a directed case)
        3 => json!(*rng.pick(&[23u64, 24, 255, 256, 65535, 65536, 4294967295, 4294967296, i64::MAX as u64])),
        4 => json!(*rng.pick(&[-1i64, -24, -25, -256, -257, -65536, -65537, i64::MIN])),
        5 => json!(*rng.pick(&[0.5f64, 1.5, -2.25, 3.141592653589793, 1e300, 65504.0, 1.0e-7, 100000.5])),
        6 => json!(""),
        7 => {
            let n = *rng.pick(&[1usize, 23, 24, 255, 256]);
            json!(gen_string(rng, n))
        }
        _ => {
            let n = rng.usize(40);
            json!(gen_string(rng, n))
        }
    }
}

/// Random JSON tree with bounded depth / width.
pub fn gen_tree(rng: &mut Rng, depth: usize) -> Value {
    if depth == 0 || rng.chance(1, 3) {
        return gen_scalar(rng);
    }
    if rng.bool() {
        let n = *rng.pick(&[0usize, 1, 2, 3, 5, 23, 24]);
        let n = if depth < 2 { n.min(5) } else { n };
        Value::Array((0..n).map(|_| if n > 5 { gen_scalar(rng) } else { gen_tree(rng, depth - 1) }).collect())
    } else {
        let n = *rng.pick(&[0usize, 1, 2, 4, 23, 24]);
        let mut m = Map::new();
        for i in 0..n {
            let k = if rng.chance(1, 6) { format!("{}{}", rng.pick(UNI), i) } else { format!("k{i}") };
            m.insert(k, if n > 5 { gen_scalar(rng) } else { gen_tree(rng, depth - 1) });
        }
        Value::Object(m)
    }
}

/// Serialised CBOR length of a JSON tree as ciborium writes it (harness-side accounting only).
pub fn cbor_len(v: &Value) -> usize {
    let mut out = Vec::new();
    let _ = ciborium::into_writer(v, &mut out);
    out.len()
}

/// Object payload whose CBOR serialisation (as computed by the harness's ciborium) or JSON text has
/// exactly `target` bytes, by padding a string member.
pub fn steer_payload(rng: &mut Rng, target: usize, json_kind: bool) -> Value {
    let measure = |v: &Value| if json_kind { serde_json::to_vec(v).map(|x| x.len()).unwrap_or(0) } else { cbor_len(v) };
    let mut m = Map::new();
    if target > 40 && rng.bool() {
        m.insert("n".into(), json!(rng.below(1000)));
    }
    m.insert("p".into(), json!(""));
    let base = measure(&Value::Object(m.clone()));
    let mut pad = target.saturating_sub(base);
    // the string header grows with the length: iterate to the fixed point (at most a few rounds)
    for _ in 0..6 {
        m.insert("p".into(), json!("y".repeat(pad)));
        let l = measure(&Value::Object(m.clone()));
        if l == target {
            break;
        }
        if l > target {
            pad = pad.saturating_sub(l - target);
        } else {
            pad += target - l;
        }
    }
    Value::Object(m)
}

pub const BOUNDARIES: &[usize] = &[23, 24, 255, 256, 65535, 65536];

fn gen_assertion(rng: &mut Rng, used: &[String], opts: &GenOpts) -> GenAssertion {
    let label = gen_label(rng, used, opts.unicode_tail_labels);
    let json_kind = rng.chance(1, 3);
    let via = if rng.chance(1, 3) { Via::Api } else { Via::Definition };
    let (data, steer) = match rng.below(10) {
        0..=3 => {
            let lim = if opts.big_payloads { BOUNDARIES.len() } else { 4 };
            let b = BOUNDARIES[rng.usize(lim)];
            let t = (b as i64 + rng.range(0, 2) as i64 - 1) as usize;
            (steer_payload(rng, t, json_kind), Some(format!("{}={}", if json_kind { "json" } else { "cbor" }, t)))
        }
        4 => {
            // a string member whose own length sits on a header boundary
            let lim = if opts.big_payloads { BOUNDARIES.len() } else { 4 };
            let n = BOUNDARIES[rng.usize(lim)];
            (json!({"s": gen_string(rng, n), "i": rng.below(100)}), Some(format!("str={n}")))
        }
        5 => (json!({}), Some("empty-object".into())),
        _ => {
            let mut m = Map::new();
            let n = 1 + rng.usize(4);
            for i in 0..n {
                m.insert(format!("f{i}"), gen_tree(rng, 3));
            }
            (Value::Object(m), None)
        }
    };
    GenAssertion { label, json_kind, via, data, steer }
}

fn gen_action(rng: &mut Rng) -> Value {
    let mut a = Map::new();
    a.insert("action".into(), json!(*rng.pick(PLAIN_ACTIONS)));
    if rng.chance(1, 3) {
        let n = 1 + rng.usize(30);
        a.insert("description".into(), json!(gen_string(rng, n)));
    }
    if rng.chance(1, 4) {
        a.insert("when".into(), json!("2024-02-29T12:34:56Z"));
    }
    if rng.chance(1, 4) {
        a.insert("parameters".into(), json!({"org.verif.param": rng.below(1000), "name": word(rng)}));
    }
    if rng.chance(1, 6) {
        a.insert("softwareAgent".into(), json!({"name": "verif-agent", "version": "1.2.3"}));
    }
    Value::Object(a)
}

fn gen_cgi(rng: &mut Rng, allow_many: bool) -> Vec<Value> {
    match rng.below(if allow_many { 5 } else { 4 }) {
        0 => vec![],
        1 => vec![json!({"name": "verif app"})],
        2 => vec![json!({"name": format!("Verif {}", word(rng)), "version": format!("{}.{}.{}", rng.below(10), rng.below(10), rng.below(100))})],
        3 => vec![json!({"name": "verif_app", "version": "2.0", "org.verif.extra": {"k": [1, 2, 3], "s": "é"}})],
        _ => vec![json!({"name": "first", "version": "1"}), json!({"name": "second tool", "version": "0.0.1-beta+x"})],
    }
}

/// Generates one definition.  `pool_choices`: indices of the pool items that may be used as
/// ingredients (see `IngredientPool::choices`).
pub fn gen_def(rng: &mut Rng, opts: &GenOpts, pool_choices: &[usize]) -> GenDef {
    let n_pool = pool_choices.len();
    let title = match rng.below(8) {
        0 => None,
        1 => Some(String::new()),
        2 => Some(format!("tïtle {} — 日本 \"q\" <&>", rng.below(1000))),
        3 => {
            let n = *rng.pick(&[23usize, 24, 255, 256]);
            Some(gen_string(rng, n))
        }
        _ => Some(format!("asset-{}.{}", rng.below(100000), rng.pick(WORDS))),
    };
    let na = match (opts.n_assertions, rng.below(6)) {
        (Some(n), _) => n,
        (_, 0) => 0,
        (_, 1) => 1,
        (_, 2) => opts.max_assertions,
        _ => rng.usize(opts.max_assertions + 1),
    };
    let mut assertions = Vec::new();
    let mut used: Vec<String> = Vec::new();
    let mut big = 0;
    for _ in 0..na {
        let mut a = gen_assertion(rng, &used, opts);
        // keep at most two ~64 KB payloads per definition (run time)
        if cbor_len(&a.data) > 60_000 {
            big += 1;
            if big > 2 {
                a.data = json!({"small": true});
                a.steer = None;
            }
        }
        used.push(a.label.clone());
        assertions.push(a);
    }
    let intent = opts.intent.clone().unwrap_or_else(|| match rng.below(3) {
        0 => Intent::None,
        1 => Intent::Create,
        _ => Intent::Edit,
    });
    let ni = if n_pool == 0 { 0 } else { opts.n_ingredients.unwrap_or_else(|| *rng.pick(&[0usize, 0, 1, 1, 2, 3])) }.min(opts.max_ingredients);
    let mut ingredients = Vec::new();
    let mut have_parent = false;
    for i in 0..ni {
        let mut rel = *rng.pick(&["parentOf", "componentOf", "componentOf", "inputTo"]);
        if rel == "parentOf" && (have_parent || intent == Intent::Create) {
            rel = "componentOf";
        }
        if rel == "parentOf" {
            have_parent = true;
        }
        ingredients.push(GenIngredient {
            pool: pool_choices[rng.usize(n_pool)],
            relationship: rel.to_string(),
            title: if rng.chance(3, 4) { Some(format!("ingredient {i} {}", word(rng))) } else { None },
            label: if rng.chance(1, 3) { Some(format!("ing_{i}")) } else { None },
        });
    }
    let nact = *rng.pick(&[0usize, 0, 1, 2, 4]);
    let mut actions: Vec<Value> = (0..nact).map(|_| gen_action(rng)).collect();
    // A claim's first action must be c2pa.created / c2pa.opened.  With an intent the SDK adds it; without
    // one the definition has to supply it itself (or carry no actions when a parent would need c2pa.opened).
    let created = json!({"action": "c2pa.created", "digitalSourceType": "http://cv.iptc.org/newscodes/digitalsourcetype/digitalCapture"});
    let mut intent = intent;
    match intent {
        Intent::None => {
            // (a version-2 claim without any created/opened action does not validate: the definition
            // supplies the inception itself, or — with a parent — leaves it to the Edit intent)
            if have_parent {
                intent = Intent::Edit;
            } else {
                actions.insert(0, created);
            }
        }
        Intent::Create => {
            if rng.chance(1, 4) {
                actions.insert(0, created);
            }
        }
        Intent::Edit => {}
    }
    GenDef {
        title,
        cgi: gen_cgi(rng, opts.claim_version == Some(1)),
        vendor: if rng.chance(1, 6) { Some("verifvendor".into()) } else { None },
        claim_version: opts.claim_version,
        hash_alg: opts.hash_alg.map(|s| s.to_string()),
        assertions,
        actions,
        actions_via_api: rng.bool(),
        ingredients,
        intent,
        redactions: vec![],
    }
}

impl GenDef {
    /// The JSON handed to `Builder::with_definition`.
    pub fn definition_json(&self) -> Value {
        let mut d = Map::new();
        if let Some(t) = &self.title {
            d.insert("title".into(), json!(t));
        }
        if !self.cgi.is_empty() {
            d.insert("claim_generator_info".into(), Value::Array(self.cgi.clone()));
        }
        if let Some(v) = &self.vendor {
            d.insert("vendor".into(), json!(v));
        }
        if let Some(v) = self.claim_version {
            d.insert("claim_version".into(), json!(v));
        }
        if let Some(h) = &self.hash_alg {
            d.insert("hash_alg".into(), json!(h));
        }
        let mut asserts = Vec::new();
        if !self.actions.is_empty() && !self.actions_via_api {
            asserts.push(json!({"label": "c2pa.actions", "data": {"actions": self.actions}}));
        }
        for a in &self.assertions {
            if a.via == Via::Definition {
                let mut m = Map::new();
                m.insert("label".into(), json!(a.label));
                m.insert("data".into(), a.data.clone());
                if a.json_kind {
                    m.insert("kind".into(), json!("Json"));
                }
                asserts.push(Value::Object(m));
            }
        }
        if !asserts.is_empty() {
            d.insert("assertions".into(), Value::Array(asserts));
        }
        if !self.redactions.is_empty() {
            d.insert("redactions".into(), json!(self.redactions));
        }
        Value::Object(d)
    }

    pub fn builder_intent(&self) -> Option<BuilderIntent> {
        match self.intent {
            Intent::None => None,
            Intent::Create => Some(BuilderIntent::Create(DigitalSourceType::DigitalCapture)),
            Intent::Edit => Some(BuilderIntent::Edit),
        }
    }

    /// Builder with the definition, API-added assertions, actions and intent — no ingredients yet.
    /// Assertions are added in the order: definition ones (in order), then API ones (in order).
    pub fn builder_base(&self, ctx: Context) -> Result<Builder, String> {
        let mut b = Builder::from_context(ctx).with_definition(self.definition_json()).map_err(|e| format!("with_definition: {e}"))?;
        if let Some(i) = self.builder_intent() {
            b.set_intent(i);
        }
        if self.actions_via_api {
            for a in &self.actions {
                b.add_action(a.clone()).map_err(|e| format!("add_action: {e}"))?;
            }
        }
        for a in &self.assertions {
            if a.via == Via::Api {
                if a.json_kind {
                    b.add_assertion_json(a.label.clone(), &a.data).map_err(|e| format!("add_assertion_json: {e}"))?;
                } else {
                    b.add_assertion(a.label.clone(), &a.data).map_err(|e| format!("add_assertion: {e}"))?;
                }
            }
        }
        Ok(b)
    }

    pub fn ingredient_description(title: &str) -> String {
        format!("description of {title}")
    }
    pub fn ingredient_info_uri(title: &str) -> String {
        format!("https://verif.invalid/info/{}", title.len())
    }
    pub fn ingredient_json(&self, i: usize) -> String {
        let g = &self.ingredients[i];
        let mut m = Map::new();
        m.insert("relationship".into(), json!(g.relationship));
        if let Some(t) = &g.title {
            m.insert("title".into(), json!(t));
            // free-text ingredient fields, derived from the title so that a monitor can predict them
            m.insert("description".into(), json!(Self::ingredient_description(t)));
            m.insert("informational_URI".into(), json!(Self::ingredient_info_uri(t)));
        }
        if let Some(l) = &g.label {
            m.insert("label".into(), json!(l));
        }
        Value::Object(m).to_string()
    }

    pub fn add_ingredients(&self, b: &mut Builder, pool: &IngredientPool) -> Result<(), String> {
        for (i, g) in self.ingredients.iter().enumerate() {
            let item = &pool.items[g.pool];
            let mut c = Cursor::new(item.bytes.clone());
            b.add_ingredient_from_stream(self.ingredient_json(i), item.format, &mut c).map_err(|e| format!("add_ingredient_from_stream({}): {e}", item.name))?;
        }
        Ok(())
    }

    /// Complete builder (base + ingredients).
    pub fn build(&self, ctx: Context, pool: &IngredientPool) -> Result<Builder, String> {
        let mut b = self.builder_base(ctx)?;
        self.add_ingredients(&mut b, pool)?;
        Ok(b)
    }

    /// Adds a redaction of the pool item's redactable assertion if ingredient `i` is a signed one;
    /// also appends the `c2pa.redacted` action the documentation asks for.  Returns true if added.
    pub fn add_redaction(&mut self, i: usize, pool: &IngredientPool) -> bool {
        let Some(g) = self.ingredients.get(i) else { return false };
        let item = &pool.items[g.pool];
        let (Some(label), Some(target)) = (&item.active_label, &item.redactable) else { return false };
        let uri = format!("self#jumbf=/c2pa/{label}/c2pa.assertions/{target}");
        if self.redactions.contains(&uri) {
            return false;
        }
        self.actions.push(json!({"action": "c2pa.redacted", "reason": "c2pa.PII.present", "parameters": {"redacted": uri}}));
        self.redactions.push(uri);
        true
    }

    /// Short shape class for evidence.
    pub fn shape(&self) -> String {
        let n = self.assertions.len();
        let nb = match n {
            0 => "a0",
            1 => "a1",
            2..=5 => "a2-5",
            _ => "a6+",
        };
        let dup = {
            let mut l: Vec<&String> = self.assertions.iter().map(|a| &a.label).collect();
            l.sort();
            l.windows(2).any(|w| w[0] == w[1])
        };
        let steer: Vec<&str> = {
            let mut s: Vec<&str> = self.assertions.iter().filter_map(|a| a.steer.as_deref()).map(|s| if s.contains("6553") { "64k" } else if s.contains("25") { "256" } else if s.contains("2") { "24" } else { "other" }).collect();
            s.sort();
            s.dedup();
            s
        };
        format!(
            "{nb}{}|steer:{}|json:{}|api:{}|act{}|ing{}{}|{:?}{}",
            if dup { "+dup" } else { "" },
            steer.join(","),
            self.assertions.iter().any(|a| a.json_kind) as u8,
            self.assertions.iter().any(|a| a.via == Via::Api) as u8,
            self.actions.len().min(2),
            self.ingredients.len(),
            if self.ingredients.iter().any(|g| g.relationship == "parentOf") { "+parent" } else { "" },
            self.intent,
            if self.redactions.is_empty() { "" } else { "|redact" },
        )
    }
}

// ------------------------------------------------------------------------------------------------
// ingredient pool

#[derive(Clone, Debug)]
pub struct PoolItem {
    pub name: String,
    pub format: &'static str,
    pub bytes: Vec<u8>,
    pub signed: bool,
    /// label of the active manifest (signed items)
    pub active_label: Option<String>,
    /// label of an assertion in the active manifest that may be redacted
    pub redactable: Option<String>,
    /// signed with a version-1 claim (usable as an ingredient of a version-1 claim)
    pub claim_v1: bool,
}

#[derive(Clone, Debug, Default)]
pub struct IngredientPool {
    pub items: Vec<PoolItem>,
    pub n_signed: usize,
}

impl IngredientPool {
    /// Items usable under a claim of the given version (a v1 claim cannot carry v2 ingredients).
    pub fn choices(&self, claim_version: Option<u8>) -> Vec<usize> {
        (0..self.items.len()).filter(|i| claim_version != Some(1) || !self.items[*i].signed || self.items[*i].claim_v1).collect()
    }
}

/// Settings JSON used throughout: trust anchors = fixture roots (optional), thumbnails on/off,
/// compressed manifests on/off, plus a JSON-merge of `extra`.
pub fn settings_json(trust: bool, thumbnails: bool, compressed: bool, extra: &Value) -> String {
    let mut s = json!({
        "verify": {"verify_trust": trust},
        "builder": {"thumbnail": {"enabled": thumbnails}},
        "core": {"prefer_compress_manifests": compressed}
    });
    if trust {
        s["trust"] = json!({"trust_anchors": signers::trust_anchors_pem()});
    }
    merge(&mut s, extra);
    s.to_string()
}

pub fn merge(a: &mut Value, b: &Value) {
    match (a, b) {
        (Value::Object(a), Value::Object(b)) => {
            for (k, v) in b {
                merge(a.entry(k.clone()).or_insert(Value::Null), v);
            }
        }
        (a, b) => *a = b.clone(),
    }
}

pub fn context(trust: bool, thumbnails: bool, compressed: bool, extra: &Value) -> Context {
    Context::new().with_settings(settings_json(trust, thumbnails, compressed, extra).as_str()).expect("settings")
}

/// Signs `bytes` with a small fixed definition (used for pool items and chain building).
pub fn sign_simple(format: &str, bytes: &[u8], title: &str, alg: &str, intent: BuilderIntent, ingredients: &[(&str, &str, &[u8])]) -> Result<Vec<u8>, String> {
    sign_simple_v(format, bytes, title, alg, intent, ingredients, None)
}

pub fn sign_simple_v(format: &str, bytes: &[u8], title: &str, alg: &str, intent: BuilderIntent, ingredients: &[(&str, &str, &[u8])], claim_version: Option<u8>) -> Result<Vec<u8>, String> {
    let ctx = context(true, false, false, &json!({}));
    let mut def = json!({"title": title, "assertions": [
        {"label": "org.verif.ing", "data": {"marker": title, "n": 7}},
        {"label": "org.verif.keep", "data": {"keep": true}}
    ]});
    if let Some(v) = claim_version {
        def["claim_version"] = json!(v);
    }
    let mut b = Builder::from_context(ctx).with_definition(def).map_err(|e| e.to_string())?;
    b.set_intent(intent);
    for (j, f, by) in ingredients {
        let mut c = Cursor::new(by.to_vec());
        b.add_ingredient_from_stream(j.to_string(), f, &mut c).map_err(|e| format!("ingredient: {e}"))?;
    }
    let signer = signers::test_signer(alg);
    let mut s = Cursor::new(bytes.to_vec());
    let mut d = Cursor::new(Vec::new());
    report::catch_sdk(|| b.sign(signer.as_ref(), format, &mut s, &mut d))?.map_err(|e| format!("sign: {e}"))?;
    Ok(d.into_inner())
}

/// Pool: a signed and an unsigned version of several tiny assets.  Signed items first.
pub fn ingredient_pool() -> IngredientPool {
    let tiny = assets::tiny_assets();
    let pick = ["tiny.jpg", "tiny.png", "tiny.gif", "tiny.wav", "tiny.mp4", "tiny.tif"];
    let mut items = Vec::new();
    for n in pick {
        let Some(a) = tiny.iter().find(|a| a.name == n) else { continue };
        let create = BuilderIntent::Create(DigitalSourceType::DigitalCapture);
        if let Ok(signed) = sign_simple(a.format, &a.bytes, &format!("pool {n}"), "ed25519", create, &[]) {
            let ctx = context(true, false, false, &json!({}));
            let label = Reader::from_context(ctx).with_stream(a.format, Cursor::new(signed.clone())).ok().and_then(|r| r.active_label().map(|s| s.to_string()));
            items.push(PoolItem { name: format!("signed:{n}"), format: a.format, bytes: signed, signed: true, active_label: label, redactable: Some("org.verif.ing".into()), claim_v1: false });
        }
    }
    for n in ["tiny.jpg", "tiny.png"] {
        let Some(a) = tiny.iter().find(|a| a.name == n) else { continue };
        let create = BuilderIntent::Create(DigitalSourceType::DigitalCapture);
        if let Ok(signed) = sign_simple_v(a.format, &a.bytes, &format!("pool v1 {n}"), "es256", create, &[], Some(1)) {
            let ctx = context(true, false, false, &json!({}));
            let label = Reader::from_context(ctx).with_stream(a.format, Cursor::new(signed.clone())).ok().and_then(|r| r.active_label().map(|s| s.to_string()));
            items.push(PoolItem { name: format!("signed-v1:{n}"), format: a.format, bytes: signed, signed: true, active_label: label, redactable: Some("org.verif.ing".into()), claim_v1: true });
        }
    }
    let n_signed = items.len();
    for n in pick {
        let Some(a) = tiny.iter().find(|a| a.name == n) else { continue };
        items.push(PoolItem { name: format!("unsigned:{n}"), format: a.format, bytes: a.bytes.clone(), signed: false, active_label: None, redactable: None, claim_v1: false });
    }
    IngredientPool { items, n_signed }
}

// ------------------------------------------------------------------------------------------------
// covering arrays

/// Greedy pairwise covering array over factors with the given numbers of levels.
/// Deterministic for a given rng; typically ~ (largest two factors' product) × 1.2 rows.
pub fn pairwise(rng: &mut Rng, levels: &[usize]) -> Vec<Vec<usize>> {
    let k = levels.len();
    let mut uncovered: std::collections::BTreeSet<(usize, usize, usize, usize)> = Default::default();
    for i in 0..k {
        for j in (i + 1)..k {
            for a in 0..levels[i] {
                for b in 0..levels[j] {
                    uncovered.insert((i, a, j, b));
                }
            }
        }
    }
    let mut rows: Vec<Vec<usize>> = Vec::new();
    while !uncovered.is_empty() {
        // seed the candidate with one uncovered pair, fill the rest randomly, keep the best of 30
        let seedp = *uncovered.iter().nth(rng.usize(uncovered.len().min(50))).unwrap();
        let mut best: Option<(usize, Vec<usize>)> = None;
        for _ in 0..30 {
            let mut r: Vec<usize> = levels.iter().map(|l| rng.usize(*l)).collect();
            r[seedp.0] = seedp.1;
            r[seedp.2] = seedp.3;
            let mut gain = 0;
            for i in 0..k {
                for j in (i + 1)..k {
                    if uncovered.contains(&(i, r[i], j, r[j])) {
                        gain += 1;
                    }
                }
            }
            if best.as_ref().map(|b| gain > b.0).unwrap_or(true) {
                best = Some((gain, r));
            }
        }
        let (_, r) = best.unwrap();
        for i in 0..k {
            for j in (i + 1)..k {
                uncovered.remove(&(i, r[i], j, r[j]));
            }
        }
        rows.push(r);
    }
    rows
}
