//! Test names are the filters used by /verif/tools/run_miri.sh and run_tsan.sh:
//!   c13_*      hash pipeline (worker-thread hand-off per chunk)
//!   c24_smoke  smallest shared-context workload (quick tier)
//!   c24_*      shared contexts: sign/read/cancel/first use of the lazily created signer
use c2pa::{Context, Settings};
use std::sync::atomic::{AtomicBool, AtomicUsize, Ordering};
use std::sync::{Arc, Barrier};
use vmon_miri::*;

fn data(n: usize) -> Vec<u8> {
    (0..n).map(|i| (i as u8).wrapping_mul(37).wrapping_add(11)).collect()
}

#[test]
fn c13_hash_pipeline_small_buffers() {
    // every chunk boundary makes one hand-off to the "c2pa-hash" worker thread
    for n in [1usize, 2, 7, 16, 33, 64] {
        let d = data(n);
        let nn = n as u64;
        let range_sets: Vec<(Vec<(u64, u64)>, bool)> = vec![
            (vec![], true),
            (vec![(0, 1)], true),
            (vec![(nn / 2, nn - nn / 2)], true),
            (vec![(0, nn / 3), (nn / 2, 1)], true),
            (vec![(0, nn)], false),
            (vec![(nn / 2, nn - nn / 2), (0, nn / 3)], false),
        ];
        for (ranges, excl) in range_sets {
            let ranges: Vec<(u64, u64)> = ranges.into_iter().filter(|r| r.1 > 0).collect();
            if !excl && ranges.is_empty() {
                continue;
            }
            let covered_all = excl && ranges.iter().any(|r| r.0 == 0 && r.1 == nn);
            if covered_all {
                continue;
            }
            let expect = reference_digest(&d, &ranges, excl);
            for buf in [1usize, 2, 5] {
                let (got, steps) = hash_with_buf(&d, &ranges, excl, buf).expect("hash");
                assert_eq!(got, expect, "n={n} ranges={ranges:?} excl={excl} buf={buf}");
                assert!(steps.windows(2).all(|w| w[1].0 > w[0].0), "steps not increasing: {steps:?}");
                assert!(steps.iter().all(|(s, t)| *s >= 1 && (*t == 0 || s <= t)), "bad steps {steps:?}");
            }
        }
    }
}

/// Quick-tier smoke: two sizes, three range shapes, chunk sizes 1/2/5.
#[test]
fn c13_smoke() {
    for n in [7usize, 16] {
        let d = data(n);
        let nn = n as u64;
        for (ranges, excl) in [(vec![], true), (vec![(1u64, 2u64), (nn - 2, 1)], true), (vec![(2, nn - 3)], false)] {
            let expect = reference_digest(&d, &ranges, excl);
            for buf in [1usize, 2, 5] {
                let (got, steps) = hash_with_buf(&d, &ranges, excl, buf).expect("hash");
                assert_eq!(got, expect, "n={n} ranges={ranges:?} excl={excl} buf={buf}");
                assert!(steps.windows(2).all(|w| w[1].0 > w[0].0), "steps not increasing: {steps:?}");
            }
        }
    }
}

#[test]
fn c13_hash_pipeline_concurrent_callers() {
    // several caller threads, each with its own worker hand-offs
    let d = Arc::new(data(48));
    let expect = reference_digest(&d, &[(5, 7)], true);
    let hs: Vec<_> = (0..3)
        .map(|t| {
            let d = d.clone();
            let e = expect.clone();
            std::thread::spawn(move || {
                let (got, _) = hash_with_buf(&d, &[(5, 7)], true, 1 + t).expect("hash");
                assert_eq!(got, e);
            })
        })
        .collect();
    for h in hs {
        h.join().unwrap();
    }
}

#[test]
fn c13_hash_pipeline_cancel_midway() {
    // the progress callback fails at the 3rd hand-off: the error must come back, workers joined
    let d = data(40);
    let mut n = 0;
    let mut cur = std::io::Cursor::new(d);
    let r = c2pa::verif_hooks::hash_stream_with_buf("sha256", &mut cur, None, true, 4, &mut |_, _| {
        n += 1;
        if n == 3 {
            Err(c2pa::Error::OperationCancelled)
        } else {
            Ok(())
        }
    });
    assert!(matches!(r, Err(c2pa::Error::OperationCancelled)), "{r:?}");
}

/// Two threads share one Arc<Context>: one signs + reads, the other cancels a *different* context,
/// polls is_cancelled() of the shared one and builds Settings values.
#[test]
fn c24_smoke() {
    let shared = Arc::new(Context::new().with_settings(settings("gen-shared", false).as_str()).unwrap());
    let other = Arc::new(Context::new().with_settings(settings("gen-other", false).as_str()).unwrap());
    let barrier = Arc::new(Barrier::new(2));
    let (s1, b1) = (shared.clone(), barrier.clone());
    let a = std::thread::spawn(move || {
        b1.wait();
        // sign only (the read-back is covered by c24_shared_sign_read): keeps the quick-tier smoke small
        sign_tiny(&s1, signer().as_ref()).expect("sign on shared context must not be cancelled").len()
    });
    let (s2, o2, b2) = (shared.clone(), other.clone(), barrier.clone());
    let b = std::thread::spawn(move || {
        b2.wait();
        o2.cancel();
        let mut seen = false;
        for _ in 0..20 {
            seen |= s2.is_cancelled();
            std::thread::yield_now();
        }
        let st = Settings::new().with_value("core.merkle_tree_max_proofs", 9).unwrap();
        assert_eq!(st.get_value::<usize>("core.merkle_tree_max_proofs").unwrap(), 9);
        seen
    });
    let signed_len = a.join().unwrap();
    let seen = b.join().unwrap();
    assert!(!seen, "shared context observed as cancelled although only the other one was cancelled");
    assert!(signed_len > tiny_jpeg().len());
    assert!(other.is_cancelled() && !shared.is_cancelled());
}

/// Three threads race the lazily created signer (OnceLock) of one shared context, then sign.
#[test]
fn c24_signer_first_use_race() {
    let shared = Arc::new(Context::new().with_settings(settings("gen-lazy", true).as_str()).unwrap());
    let barrier = Arc::new(Barrier::new(3));
    let hs: Vec<_> = (0..3)
        .map(|t| {
            let (c, b) = (shared.clone(), barrier.clone());
            std::thread::spawn(move || {
                b.wait();
                let s = c.signer().expect("signer from settings");
                let certs = s.certs().expect("certs");
                let p = s as *const dyn c2pa::Signer as *const u8 as usize;
                let out = if t == 0 { Some(sign_tiny(&c, s).expect("sign")) } else { None };
                (p, certs.len(), format!("{:?}", s.alg()), out)
            })
        })
        .collect();
    let rs: Vec<_> = hs.into_iter().map(|h| h.join().unwrap()).collect();
    assert!(rs.iter().all(|r| r.0 == rs[0].0), "threads saw different signer instances");
    assert!(rs.iter().all(|r| r.1 == rs[0].1 && r.2 == "Ed25519"));
    let signed = rs[0].3.clone().unwrap();
    let (state, gen, fails) = read_summary(&shared, &signed).unwrap();
    assert_eq!((state.as_str(), gen.as_str(), fails), ("Valid", "gen-lazy", 0));
}

/// Shared context with a progress callback; a second thread cancels it while the first signs.
/// Either the sign completed before the cancel became visible (Ok) or it ends in
/// OperationCancelled; the bystander context never fails.
#[test]
fn c24_cancel_shared_while_signing() {
    let seen = Arc::new(AtomicUsize::new(0));
    let go = Arc::new(AtomicBool::new(false));
    // set by the cancelling thread AFTER Context::cancel() returned; a checkpoint whose callback
    // starts with this flag visible must end the operation (check_progress reads the cancel flag
    // after the callback).  "Some checkpoint ran after checkpoint #2" is NOT enough: the
    // cancelling thread may not have been scheduled yet (first version of this oracle, a false
    // alarm under one Miri schedule).
    let cancel_returned = Arc::new(AtomicBool::new(false));
    let after_cancel = Arc::new(AtomicUsize::new(0));
    let (seen2, go2, cr2, ac2) = (seen.clone(), go.clone(), cancel_returned.clone(), after_cancel.clone());
    let shared = Arc::new(Context::new().with_settings(settings("gen-a", false).as_str()).unwrap().with_progress_callback(move |_, _, _| {
        if cr2.load(Ordering::SeqCst) {
            ac2.fetch_add(1, Ordering::SeqCst);
        }
        if seen2.fetch_add(1, Ordering::SeqCst) == 1 {
            go2.store(true, Ordering::SeqCst);
            for _ in 0..50 {
                std::thread::yield_now();
            }
        }
        true
    }));
    let bystander = Arc::new(Context::new().with_settings(settings("gen-b", false).as_str()).unwrap());
    let s1 = shared.clone();
    let a = std::thread::spawn(move || sign_tiny(&s1, signer().as_ref()));
    let (s2, go3) = (shared.clone(), go.clone());
    let c = std::thread::spawn(move || {
        while !go3.load(Ordering::SeqCst) {
            std::thread::yield_now();
        }
        s2.cancel();
        cancel_returned.store(true, Ordering::SeqCst);
    });
    let by = bystander.clone();
    let b = std::thread::spawn(move || sign_tiny(&by, signer().as_ref()));
    let ra = a.join().unwrap();
    c.join().unwrap();
    let rb = b.join().unwrap();
    assert!(matches!(ra, Ok(_) | Err(c2pa::Error::OperationCancelled)), "{:?}", ra.as_ref().err());
    if after_cancel.load(Ordering::SeqCst) > 0 {
        // a checkpoint started after cancel() had returned
        assert!(matches!(ra, Err(c2pa::Error::OperationCancelled)), "checkpoint after cancel but result {:?}", ra.as_ref().map(|v| v.len()));
    }
    let signed_b = rb.expect("bystander context must not be cancelled");
    let (state, gen, fails) = read_summary(&bystander, &signed_b).unwrap();
    assert_eq!((state.as_str(), gen.as_str(), fails), ("Valid", "gen-b", 0));
    assert!(shared.is_cancelled() && !bystander.is_cancelled());
}

/// Three threads sign and read concurrently on one shared context; every result equals the
/// sequential one (state Valid, own generator name, no failures).
#[test]
fn c24_shared_sign_read() {
    let shared = Arc::new(Context::new().with_settings(settings("gen-s", false).as_str()).unwrap());
    let seq = {
        let s = sign_tiny(&shared, signer().as_ref()).unwrap();
        read_summary(&shared, &s).unwrap()
    };
    let barrier = Arc::new(Barrier::new(3));
    let hs: Vec<_> = (0..3)
        .map(|_| {
            let (c, b) = (shared.clone(), barrier.clone());
            std::thread::spawn(move || {
                b.wait();
                let s = sign_tiny(&c, signer().as_ref()).unwrap();
                read_summary(&c, &s).unwrap()
            })
        })
        .collect();
    for h in hs {
        assert_eq!(h.join().unwrap(), seq);
    }
}

/// Engine self-test (ignored by default; `run_miri.sh selftest` / `run_tsan.sh selftest` add
/// `--ignored`): a planted unsynchronised write from two threads.  Both engines must report it.
#[test]
#[ignore]
fn selftest_planted_data_race() {
    static mut COUNTER: u64 = 0;
    let hs: Vec<_> = (0..2)
        .map(|_| {
            std::thread::spawn(|| {
                for _ in 0..100 {
                    unsafe {
                        let p = std::ptr::addr_of_mut!(COUNTER);
                        p.write(p.read() + 1);
                    }
                }
            })
        })
        .collect();
    for h in hs {
        h.join().unwrap();
    }
}
