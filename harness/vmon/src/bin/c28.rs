//! C28 — no network access unless the configuration enables it.
//!
//! Every operation (read sync/async, add-ingredient + sign) runs in a `Context` whose sync *and* async
//! resolvers are one recording mock (`vmon::httpmon::Mock`) that logs each request and answers with
//! canned bodies (the remote manifest store for the known manifest URL, 404 elsewhere).  Assets:
//! embedded manifest, remote-only (`set_remote_url` + `set_no_embed`), remote+embedded, unsigned,
//! XMP provenance with a non-http URL, an asset signed with a harness-issued certificate carrying an
//! AIA/OCSP URL, C2PA fixtures (embedded / cloud-manifest / OCSP) and CAWG fixtures.
//!
//! Oracle (from the statement): a recorded request is legitimate only if a setting / signer that
//! explicitly asks for that kind of request is on AND the URL is the one the asset / certificate /
//! signer names: remote-manifest URL (verify.remote_manifest_fetch, asset without embedded manifest),
//! OCSP responder URL (verify.ocsp_fetch, or builder.certificate_status_fetch on ingredient import),
//! TSA URL (signer has one).  With remote_manifest_fetch=false a remote-only asset must yield
//! `Error::RemoteManifestUrl(url)` with the URL that is embedded in the asset.
//! Thorough tier adds a second observer that does not trust the SDK to route through the supplied
//! resolver: a child process repeats the all-settings-off operations with the *default* resolvers under
//! `strace -f -e trace=network`; any connect()/sendto() to a non-loopback inet address is a violation.
use c2pa::{Builder, BuilderIntent, Context, Reader, Signer};
use serde_json::json;
use std::collections::BTreeMap;
use std::io::Cursor;
use std::sync::Arc;
use vmon::httpmon::{Mock, Rec, Reply};
use vmon::pki::{self, CertSpec, Ext, Key, KeyKind};
use vmon::{assets, par, report, signers, Run};

const REMOTE_URL: &str = "https://manifests.verif.example/store/asset-1.c2pa";
const REMOTE_URL_EMB: &str = "https://manifests.verif.example/store/asset-2.c2pa";
const OCSP_URL: &str = "http://ocsp.verif.example/responder";
const TSA_URL: &str = "http://tsa.verif.example/rfc3161";

#[derive(Clone)]
struct TestAsset {
    kind: &'static str,
    name: String,
    format: String,
    bytes: Arc<Vec<u8>>,
    /// URL embedded in the asset's XMP (dcterms:provenance), if any
    xmp_url: Option<String>,
    /// true when the asset carries an embedded manifest store
    embedded: bool,
    /// OCSP responder URL named by the signing certificate (known only for generated assets)
    ocsp_url: Option<String>,
    /// manifest store bytes served for `xmp_url`
    remote_store: Option<Arc<Vec<u8>>>,
    /// fixtures: URLs cannot be derived by the harness; gating is judged, URL identity is not
    fixture: bool,
}

#[derive(Clone, Copy, Debug)]
struct Cfg {
    rmf: bool,
    ocsp: bool,
    /// builder.certificate_status_fetch: 0 none, 1 active, 2 all
    csf: u8,
    auto_ts: bool,
    tsa: bool,
    decode_identity: bool,
}

impl Cfg {
    fn vector(&self) -> String {
        format!(
            "rmf={},ocsp={},csf={},autots={},tsa={}{}",
            self.rmf as u8,
            self.ocsp as u8,
            ["none", "active", "all"][self.csf as usize],
            self.auto_ts as u8,
            self.tsa as u8,
            if self.decode_identity { "" } else { ",cawg=off" }
        )
    }
    fn settings(&self) -> String {
        let mut b = json!({
            "thumbnail": {"enabled": false},
            "auto_timestamp_assertion": {"enabled": self.auto_ts},
        });
        if self.csf > 0 {
            b["certificate_status_fetch"] = json!(["", "active", "all"][self.csf as usize]);
            b["certificate_status_should_override"] = json!(false);
        }
        json!({
            "verify": {"remote_manifest_fetch": self.rmf, "ocsp_fetch": self.ocsp, "verify_trust": true},
            "trust": {"trust_anchors": signers::trust_anchors_pem()},
            "core": {"decode_identity_assertions": self.decode_identity},
            "builder": b,
        })
        .to_string()
    }
    fn all_off() -> Cfg {
        Cfg { rmf: false, ocsp: false, csf: 0, auto_ts: false, tsa: false, decode_identity: true }
    }
}

fn responder(remote: Vec<(String, Arc<Vec<u8>>)>) -> Mock {
    Mock::new(move |_k, rec: &Rec| {
        for (u, body) in &remote {
            if rec.uri == *u {
                return Ok(Reply::ok(body).with_header("content-type", b"application/c2pa").with_header("content-length", body.len().to_string().as_bytes()));
            }
        }
        if rec.uri.starts_with(TSA_URL) {
            return Ok(Reply { status: 200, headers: vec![("content-type".into(), b"application/timestamp-reply".to_vec())], body: vec![0x30, 0x03, 0x02, 0x01, 0x02] });
        }
        Ok(Reply::status(404))
    })
}

fn ctx_with(cfg: &Cfg, mock: &Mock) -> Result<Context, String> {
    Ok(Context::new().with_settings(cfg.settings().as_str()).map_err(|e| format!("settings: {e}"))?.with_resolver(mock.clone()).with_resolver_async(mock.clone()))
}

thread_local! {
    static RT: tokio::runtime::Runtime = tokio::runtime::Builder::new_current_thread().enable_all().build().expect("tokio runtime");
}

fn sign_asset(ctx: Context, src: &[u8], format: &str, signer: &dyn Signer, remote: Option<&str>, no_embed: bool, ingredient: Option<&TestAsset>) -> Result<(Vec<u8>, Vec<u8>), c2pa::Error> {
    let mut b = Builder::from_context(ctx).with_definition(json!({"title": "c28", "assertions": [{"label": "org.verif.test", "data": {"k": 1}}]}))?;
    b.set_intent(BuilderIntent::Edit);
    if let Some(u) = remote {
        b.set_remote_url(u);
    }
    if no_embed {
        b.set_no_embed(true);
    }
    if let Some(i) = ingredient {
        let mut s = Cursor::new(i.bytes.as_ref().clone());
        b.add_ingredient_from_stream(json!({"title": "ing", "relationship": "componentOf"}).to_string(), &i.format, &mut s)?;
    }
    let mut s = Cursor::new(src.to_vec());
    let mut d = Cursor::new(Vec::new());
    let m = b.sign(signer, format, &mut s, &mut d)?;
    Ok((d.into_inner(), m))
}

fn build_assets(run: &mut Run) -> Vec<TestAsset> {
    let mut out = Vec::new();
    let off = Cfg::all_off();
    let base = assets::tiny_jpeg(None, false, &[]);
    let signer = signers::test_signer("ed25519");
    let prep_mock = responder(vec![]);
    let mk = |kind: &'static str, name: &str, bytes: Vec<u8>| TestAsset { kind, name: name.into(), format: "jpg".into(), bytes: Arc::new(bytes), xmp_url: None, embedded: false, ocsp_url: None, remote_store: None, fixture: false };

    out.push(mk("unsigned", "tiny.jpg", base.clone()));
    // XMP provenance that is not an http(s) URL must never be fetched
    for (i, u) in ["file:///etc/passwd", "ftp://manifests.verif.example/x.c2pa", "manifests.verif.example/x.c2pa", "javascript:alert(1)"].iter().enumerate() {
        let xmp = format!("<?xpacket begin=\"\" id=\"W5M0MpCehiHzreSzNTczkc9d\"?><x:xmpmeta xmlns:x=\"adobe:ns:meta/\"><rdf:RDF xmlns:rdf=\"http://www.w3.org/1999/02/22-rdf-syntax-ns#\"><rdf:Description rdf:about=\"\" xmlns:dcterms=\"http://purl.org/dc/terms/\" dcterms:provenance=\"{u}\"/></rdf:RDF></x:xmpmeta><?xpacket end=\"w\"?>");
        let mut a = mk("unsigned-xmp-nonhttp", &format!("nonhttp{i}.jpg"), assets::tiny_jpeg(Some(&xmp), false, &[]));
        a.xmp_url = Some(u.to_string());
        out.push(a);
    }
    // unsigned asset whose XMP points at an http URL (remote-only with nothing to serve)
    {
        let u = "https://manifests.verif.example/store/missing.c2pa";
        let xmp = format!("<?xpacket begin=\"\" id=\"W5M0MpCehiHzreSzNTczkc9d\"?><x:xmpmeta xmlns:x=\"adobe:ns:meta/\"><rdf:RDF xmlns:rdf=\"http://www.w3.org/1999/02/22-rdf-syntax-ns#\"><rdf:Description rdf:about=\"\" xmlns:dcterms=\"http://purl.org/dc/terms/\" dcterms:provenance=\"{u}\"/></rdf:RDF></x:xmpmeta><?xpacket end=\"w\"?>");
        let mut a = mk("remote-only", "remote_missing.jpg", assets::tiny_jpeg(Some(&xmp), false, &[]));
        a.xmp_url = Some(u.to_string());
        out.push(a);
    }
    let mut prep = |what: &str, r: Result<(Vec<u8>, Vec<u8>), c2pa::Error>, run: &mut Run| -> Option<(Vec<u8>, Vec<u8>)> {
        match r {
            Ok(x) => Some(x),
            Err(e) => {
                run.inconclusive(format!("asset preparation failed ({what}): {e}"));
                None
            }
        }
    };
    if let Ok(ctx) = ctx_with(&off, &prep_mock) {
        if let Some((b, _)) = prep("embedded", sign_asset(ctx, &base, "jpg", signer.as_ref(), None, false, None), run) {
            let mut a = mk("embedded", "embedded.jpg", b);
            a.embedded = true;
            out.push(a);
        }
    }
    if let Ok(ctx) = ctx_with(&off, &prep_mock) {
        if let Some((b, m)) = prep("remote-only", sign_asset(ctx, &base, "jpg", signer.as_ref(), Some(REMOTE_URL), true, None), run) {
            let mut a = mk("remote-only", "remote_only.jpg", b);
            a.xmp_url = Some(REMOTE_URL.into());
            a.remote_store = Some(Arc::new(m));
            out.push(a);
        }
    }
    if let Ok(ctx) = ctx_with(&off, &prep_mock) {
        if let Some((b, m)) = prep("remote+embedded", sign_asset(ctx, &base, "jpg", signer.as_ref(), Some(REMOTE_URL_EMB), false, None), run) {
            let mut a = mk("remote+embedded", "remote_embedded.jpg", b);
            a.xmp_url = Some(REMOTE_URL_EMB.into());
            a.embedded = true;
            a.remote_store = Some(Arc::new(m));
            out.push(a);
        }
    }
    // certificate with an AIA/OCSP URL issued by the harness PKI
    {
        let root_k = Key::pooled(KeyKind::P256, 280);
        let root = pki::issue(&CertSpec::ca("C28 Root", None), &root_k, None);
        let ee_k = Key::pooled(KeyKind::P256, 281);
        let mut spec = CertSpec::ee("C28 Signer with AIA");
        spec.push_ext(Ext::AiaOcsp(OCSP_URL.into()));
        let ee = pki::issue(&spec, &ee_k, Some((&root, &root_k)));
        let chain = format!("{}{}", ee.pem(), root.pem());
        match c2pa::create_signer::from_keys(chain.as_bytes(), &ee_k.private_pem(), c2pa::SigningAlg::Es256, None) {
            Ok(s) => {
                if let Ok(ctx) = ctx_with(&off, &prep_mock) {
                    if let Some((b, _)) = prep("aia-cert", sign_asset(ctx, &base, "jpg", s.as_ref(), None, false, None), run) {
                        let mut a = mk("embedded-aia-cert", "aia.jpg", b);
                        a.embedded = true;
                        a.ocsp_url = Some(OCSP_URL.into());
                        out.push(a);
                    }
                }
            }
            Err(e) => run.inconclusive(format!("cannot build a signer from the harness PKI: {e}")),
        }
    }
    let n_prep = prep_mock.count();
    if n_prep > 0 {
        run.violation(
            "sign|no-tsa|all-settings-off|unexpected-request",
            &format!("{n_prep} HTTP request(s) while signing the test assets with every network setting off: {:?}", prep_mock.records().iter().map(|r| r.uri.clone()).collect::<Vec<_>>()),
            json!({"requests": prep_mock.records().iter().map(|r| r.uri.clone()).collect::<Vec<_>>()}),
        );
    }
    // fixtures
    for (name, kind) in [("C.jpg", "fixture-embedded"), ("CA.jpg", "fixture-embedded"), ("ocsp.jpg", "fixture-embedded-ocsp"), ("cloud.jpg", "fixture-remote-only"), ("libpng-test_with_url.png", "fixture-xmp-url"), ("C_with_CAWG_data.jpg", "fixture-cawg"), ("no_manifest.jpg", "fixture-unsigned")] {
        if let Some(b) = assets::fixture(name) {
            if b.is_empty() {
                continue;
            }
            let fmt = if name.ends_with(".png") { "png" } else { "jpg" };
            out.push(TestAsset { kind, name: name.into(), format: fmt.into(), bytes: Arc::new(b), xmp_url: None, embedded: !kind.contains("remote-only") && !kind.contains("unsigned") && !kind.contains("xmp-url"), ocsp_url: None, remote_store: None, fixture: true });
        }
    }
    let id_dir = vmon::evidence::repo_root().join("sdk/src/identity/tests/fixtures/claim_aggregation");
    for (rel, kind) in [("ica_validation/unresolvable_did.jpg", "fixture-cawg-did-web"), ("adobe_connected_identities.jpg", "fixture-cawg-did-web"), ("ica_validation/success.jpg", "fixture-cawg-did-jwk")] {
        if let Ok(b) = std::fs::read(id_dir.join(rel)) {
            if !b.is_empty() {
                out.push(TestAsset { kind, name: rel.into(), format: "jpg".into(), bytes: Arc::new(b), xmp_url: None, embedded: true, ocsp_url: None, remote_store: None, fixture: true });
            }
        }
    }
    out
}

#[derive(Clone, Debug)]
struct Case {
    op: &'static str, // read-sync | read-async | ingredient+sign
    asset: usize,
    cfg: Cfg,
}

struct Outcome {
    requests: Vec<Rec>,
    /// "ok:<state>" | "err:<Kind>" | "panic:…"
    result: String,
    /// payload of Error::RemoteManifestUrl, when that was the error
    remote_manifest_url: Option<String>,
    signer_calls: Vec<String>,
}

fn execute(c: &Case, a: &TestAsset) -> Outcome {
    let mut served = Vec::new();
    if let (Some(u), Some(s)) = (&a.xmp_url, &a.remote_store) {
        served.push((u.clone(), s.clone()));
    }
    let mock = responder(served);
    let mut rmu = None;
    let mut signer_calls = Vec::new();
    let ctx = match ctx_with(&c.cfg, &mock) {
        Ok(c) => c,
        Err(e) => return Outcome { requests: vec![], result: format!("harness:{e}"), remote_manifest_url: None, signer_calls },
    };
    let result = match c.op {
        "read-sync" | "read-async" | "read-file" => {
            let fmt = a.format.clone();
            let bytes = a.bytes.as_ref().clone();
            let asynch = c.op == "read-async";
            let from_file = c.op == "read-file";
            let r = report::catch_sdk(move || {
                if from_file {
                    // the file-based entry point (an asset on disk, no side-car next to it)
                    let dir = tempfile::tempdir().map_err(c2pa::Error::IoError)?;
                    let p = dir.path().join(format!("asset.{fmt}"));
                    std::fs::write(&p, &bytes).map_err(c2pa::Error::IoError)?;
                    Reader::from_context(ctx).with_file(&p)
                } else if asynch {
                    RT.with(|rt| rt.block_on(Reader::from_context(ctx).with_stream_async(&fmt, Cursor::new(bytes))))
                } else {
                    Reader::from_context(ctx).with_stream(&fmt, Cursor::new(bytes))
                }
            });
            match r {
                Err(p) => format!("panic:{p}"),
                Ok(Ok(rd)) => format!("ok:{:?}", rd.validation_state()),
                Ok(Err(e)) => {
                    if let c2pa::Error::RemoteManifestUrl(u) = &e {
                        rmu = Some(u.clone());
                    }
                    format!("err:{}", report::err_kind(&e))
                }
            }
        }
        _ => {
            let mut ts = signers::TestSigner::new("ed25519");
            if c.cfg.tsa {
                ts.tsa_url = Some(TSA_URL.into());
            }
            let calls = ts.calls.clone();
            let base = assets::tiny_png(true, &[]);
            let r = report::catch_sdk(|| sign_asset(ctx, &base, "png", &ts, None, false, Some(a)));
            signer_calls = calls.lock().map(|c| c.clone()).unwrap_or_default();
            match r {
                Err(p) => format!("panic:{p}"),
                Ok(Ok(_)) => "ok:signed".to_string(),
                Ok(Err(e)) => {
                    if let c2pa::Error::RemoteManifestUrl(u) = &e {
                        rmu = Some(u.clone());
                    }
                    format!("err:{}", report::err_kind(&e))
                }
            }
        }
    };
    Outcome { requests: mock.records(), result, remote_manifest_url: rmu, signer_calls }
}

#[derive(Default)]
struct Verdict {
    violations: Vec<(String, String)>,
    class: String,
    counters: BTreeMap<String, u64>,
    notes: Vec<String>,
}

fn url_class(a: &TestAsset, uri: &str, method: &str) -> &'static str {
    if a.xmp_url.as_deref() == Some(uri) {
        return "remote-manifest";
    }
    if let Some(o) = &a.ocsp_url {
        // same scheme + authority as the responder named by the certificate (the SDK appends the
        // base64 request to the URL; see `notes` for what happens to the responder's path)
        let origin = |u: &str| vmon::httpmon::split_uri(u);
        let (x, y) = (origin(o), origin(uri));
        if x.scheme == y.scheme && x.host == y.host && x.port == y.port && x.host.is_some() {
            return "ocsp";
        }
    }
    if uri.starts_with(TSA_URL) {
        return "tsa";
    }
    if uri.contains("/.well-known/did.json") || uri.ends_with("/did.json") {
        return "did-web";
    }
    if a.fixture {
        // URLs of fixtures are not derivable by the harness: classify by shape only
        if method == "POST" {
            return "fixture-post";
        }
        return "fixture-get";
    }
    "unexpected-url"
}

fn judge(c: &Case, a: &TestAsset, o: &Outcome) -> Verdict {
    let mut v = Verdict::default();
    let vec = c.cfg.vector();
    let is_ingredient_op = c.op == "ingredient+sign";
    let mut seen: Vec<&'static str> = Vec::new();
    for r in &o.requests {
        let cls = url_class(a, &r.uri, &r.method);
        seen.push(cls);
        *v.counters.entry(format!("requests:{cls}")).or_insert(0) += 1;
        let allowed = match cls {
            // the URL is the asset's own XMP provenance URL and remote fetching is switched on
            "remote-manifest" => c.cfg.rmf,
            "ocsp" => c.cfg.ocsp || (is_ingredient_op && c.cfg.csf > 0),
            "tsa" => c.cfg.tsa,
            "did-web" => false,
            // fixtures: a GET to a URL the harness cannot derive can only be a remote-manifest fetch or an
            // OCSP request, so one of those settings must be on
            "fixture-get" => c.cfg.rmf || c.cfg.ocsp || (is_ingredient_op && c.cfg.csf > 0),
            "fixture-post" => c.cfg.tsa,
            _ => false,
        };
        if !allowed {
            let sig = if cls == "did-web" {
                format!("{}|did-web-fetch|no-network-setting-asks-for-it", if is_ingredient_op { "ingredient" } else { "read" })
            } else {
                format!("{}|{}|{}|{}", c.op.split('-').next().unwrap_or(c.op), a.kind, cls, if c.cfg.rmf || c.cfg.ocsp || c.cfg.csf > 0 || c.cfg.tsa { "other-setting-on" } else { "all-settings-off" })
            };
            v.violations.push((sig, format!("{} of {} ({}) with [{}] sent {} {} although no enabled setting/signer asks for a {} request", c.op, a.name, a.kind, vec, r.method, r.uri, cls)));
        }
    }
    for r in &o.requests {
        if let Some(ou) = &a.ocsp_url {
            if url_class(a, &r.uri, &r.method) == "ocsp" && !r.uri.starts_with(&format!("{}/", ou.trim_end_matches('/'))) {
                v.notes.push(format!("ocsp-get-does-not-keep-responder-path: AIA `{ou}` requested as `{}…`", r.uri.chars().take(48).collect::<String>()));
            }
        }
    }
    seen.sort();
    seen.dedup();
    // remote-manifest error contract
    let remote_only = a.xmp_url.is_some() && !a.embedded;
    let http_url = a.xmp_url.as_deref().map(|u| u.starts_with("http://") || u.starts_with("https://")).unwrap_or(false);
    if !c.cfg.rmf && !is_ingredient_op && remote_only && http_url {
        match &o.remote_manifest_url {
            Some(u) if Some(u.as_str()) == a.xmp_url.as_deref() => {}
            Some(u) => v.violations.push((format!("{}|remote-manifest-error|wrong-url", c.op), format!("RemoteManifestUrl carries `{u}` but the asset references `{}`", a.xmp_url.clone().unwrap_or_default()))),
            None => v.violations.push((format!("{}|remote-manifest-error|{}", c.op, o.result.split(':').take(2).collect::<Vec<_>>().join(":")), format!("remote-only asset {} read with remote_manifest_fetch=false returned {} instead of Error::RemoteManifestUrl({})", a.name, o.result, a.xmp_url.clone().unwrap_or_default()))),
        }
    }
    if a.kind == "fixture-remote-only" && !c.cfg.rmf && !is_ingredient_op {
        // fixture: the URL must literally occur in the file
        match &o.remote_manifest_url {
            Some(u) if u.starts_with("http") && a.bytes.windows(u.len()).any(|w| w == u.as_bytes()) => v.notes.push(format!("fixture remote URL {u}")),
            Some(u) => v.violations.push((format!("{}|remote-manifest-error|url-not-in-asset", c.op), format!("RemoteManifestUrl carries `{u}` which does not occur in {}", a.name))),
            None => v.violations.push((format!("{}|remote-manifest-error|{}", c.op, o.result.split(':').take(2).collect::<Vec<_>>().join(":")), format!("fixture {} (remote manifest only) read with remote_manifest_fetch=false returned {}", a.name, o.result))),
        }
    }
    if o.result.starts_with("panic") {
        v.violations.push((format!("{}|panic", c.op), o.result.clone()));
    }
    let res = o.result.split(':').take(2).collect::<Vec<_>>().join(":");
    v.class = format!("{}|{}|{}|requests={}|{}", c.op, a.kind, vec, if seen.is_empty() { "none".to_string() } else { seen.join("+") }, res);
    if !o.signer_calls.is_empty() {
        *v.counters.entry("signer_send_timestamp_request_calls".into()).or_insert(0) += o.signer_calls.iter().filter(|c| c.as_str() == "send_timestamp_request").count() as u64;
    }
    v
}

// ------------------------------------------------------------------------------------------------
// second observer: strace over a child that uses the DEFAULT resolvers

fn child_main(assets_list: &[TestAsset], positive_port: Option<u16>, group: &str) {
    // every enabling setting off, no custom resolver
    let off = Cfg::all_off();
    for a in assets_list {
        // the did:web fixtures are traced separately so that their (known) lookups keep their own signature
        if (a.kind == "fixture-cawg-did-web") != (group == "didweb") {
            continue;
        }
        for asynch in [false, true] {
            let Ok(ctx) = Context::new().with_settings(off.settings().as_str()) else { continue };
            let fmt = a.format.clone();
            let bytes = a.bytes.as_ref().clone();
            let r = report::catch_sdk(move || {
                if asynch {
                    RT.with(|rt| rt.block_on(Reader::from_context(ctx).with_stream_async(&fmt, Cursor::new(bytes)))).map(|_| ())
                } else {
                    Reader::from_context(ctx).with_stream(&fmt, Cursor::new(bytes)).map(|_| ())
                }
            });
            println!("child: read {} async={} -> {}", a.name, asynch, match r { Ok(Ok(())) => "ok".to_string(), Ok(Err(e)) => report::err_kind(&e), Err(p) => format!("panic {p}") });
        }
        if let Ok(ctx) = Context::new().with_settings(off.settings().as_str()) {
            let ts = signers::TestSigner::new("ed25519");
            let base = assets::tiny_png(true, &[]);
            let r = report::catch_sdk(|| sign_asset(ctx, &base, "png", &ts, None, false, Some(a)).map(|_| ()));
            println!("child: ingredient+sign {} -> {}", a.name, match r { Ok(Ok(())) => "ok".to_string(), Ok(Err(e)) => report::err_kind(&e), Err(p) => format!("panic {p}") });
        }
    }
    // positive control: remote manifest fetch ON towards a loopback listener must show up in strace
    if let Some(port) = positive_port {
        let url = format!("http://127.0.0.1:{port}/positive-control.c2pa");
        let xmp = format!("<?xpacket begin=\"\" id=\"W5M0MpCehiHzreSzNTczkc9d\"?><x:xmpmeta xmlns:x=\"adobe:ns:meta/\"><rdf:RDF xmlns:rdf=\"http://www.w3.org/1999/02/22-rdf-syntax-ns#\"><rdf:Description rdf:about=\"\" xmlns:dcterms=\"http://purl.org/dc/terms/\" dcterms:provenance=\"{url}\"/></rdf:RDF></x:xmpmeta><?xpacket end=\"w\"?>");
        let bytes = assets::tiny_jpeg(Some(&xmp), false, &[]);
        let mut on = Cfg::all_off();
        on.rmf = true;
        if let Ok(ctx) = Context::new().with_settings(on.settings().as_str()) {
            let r = Reader::from_context(ctx).with_stream("jpg", Cursor::new(bytes));
            println!("child: positive control -> {}", match r { Ok(_) => "ok".to_string(), Err(e) => report::err_kind(&e) });
        }
    }
}

fn strace_observer(run: &mut Run) {
    strace_group(run, "main");
    strace_group(run, "didweb");
}

fn strace_group(run: &mut Run, group: &str) {
    let exe = match std::env::current_exe() {
        Ok(e) => e,
        Err(e) => return run.inconclusive(format!("strace observer: current_exe: {e}")),
    };
    // loopback listener for the positive control
    let listener = std::net::TcpListener::bind("127.0.0.1:0").ok();
    let port = listener.as_ref().and_then(|l| l.local_addr().ok()).map(|a| a.port());
    if let Some(l) = listener {
        std::thread::spawn(move || {
            for s in l.incoming() {
                if let Ok(mut s) = s {
                    use std::io::{Read, Write};
                    let mut b = [0u8; 1024];
                    let _ = s.set_read_timeout(Some(std::time::Duration::from_secs(2)));
                    let _ = s.read(&mut b);
                    let _ = s.write_all(b"HTTP/1.1 404 Not Found\r\nContent-Length: 0\r\nConnection: close\r\n\r\n");
                }
            }
        });
    }
    let dir = match tempfile::tempdir() {
        Ok(d) => d,
        Err(e) => return run.inconclusive(format!("strace observer: tempdir: {e}")),
    };
    let log = dir.path().join("strace.log");
    let out = std::process::Command::new("strace")
        .args(["-f", "-e", "trace=network", "-o"])
        .arg(&log)
        .arg(&exe)
        .arg("--strace-child")
        .arg(port.map(|p| p.to_string()).unwrap_or_else(|| "0".into()))
        .arg(group)
        .env("VERIF_JOBS", "1")
        .output();
    let out = match out {
        Ok(o) => o,
        Err(e) => {
            run.engine("strace", false, json!({"reason": format!("cannot start strace: {e}")}));
            return run.inconclusive(format!("strace observer: cannot start strace: {e}"));
        }
    };
    let text = std::fs::read_to_string(&log).unwrap_or_default();
    let stderr = String::from_utf8_lossy(&out.stderr).to_string();
    if text.is_empty() || stderr.contains("PTRACE") || stderr.contains("ptrace") && stderr.contains("not permitted") {
        run.engine("strace", false, json!({"reason": "ptrace not permitted or empty trace", "stderr": stderr.chars().take(300).collect::<String>()}));
        return run.inconclusive("strace observer: ptrace is not permitted in this sandbox (or the trace is empty)");
    }
    let child_lines = String::from_utf8_lossy(&out.stdout).lines().filter(|l| l.starts_with("child:")).count();
    let mut inet_calls = 0u64;
    let mut loopback_calls = 0u64;
    let mut unix_calls = 0u64;
    let mut offenders: Vec<String> = Vec::new();
    let mut positive_seen = false;
    for line in text.lines() {
        let is_call = line.contains("connect(") || line.contains("sendto(") || line.contains("sendmsg(") || line.contains("sendmmsg(");
        if !is_call {
            continue;
        }
        if line.contains("sa_family=AF_UNIX") {
            unix_calls += 1;
            continue;
        }
        if line.contains("sa_family=AF_INET") {
            inet_calls += 1;
            let loopback = line.contains("inet_addr(\"127.") || line.contains("inet_pton(AF_INET6, \"::1\"") || line.contains("\"::ffff:127.");
            let dns = line.contains("sin_port=htons(53)") || line.contains("sin6_port=htons(53)");
            if let Some(p) = port {
                if line.contains(&format!("sin_port=htons({p})")) && loopback {
                    positive_seen = true;
                }
            }
            if loopback && !dns {
                loopback_calls += 1;
                continue;
            }
            if offenders.len() < 10 {
                offenders.push(line.chars().take(200).collect());
            }
        }
    }
    run.count("strace_inet_calls", inet_calls);
    run.count("strace_loopback_calls", loopback_calls);
    run.count("strace_unix_calls", unix_calls);
    run.engine(&format!("strace:{group}"), true, json!({"child_operations": child_lines, "trace_lines": text.lines().count(), "positive_control_seen": positive_seen, "child_exit": out.status.code()}));
    if child_lines == 0 {
        return run.inconclusive("strace observer: the child performed no operation");
    }
    if port.is_some() && !positive_seen {
        return run.inconclusive("strace observer: positive control (fetch from a loopback listener with remote_manifest_fetch=true) did not appear in the trace — observer blind, verdict withheld");
    }
    run.nontrivial(format!("strace:{group}|all-settings-off|default-resolvers|child_ops>={}|dns-or-non-loopback-inet-calls={}", child_lines / 10 * 10, offenders.len().min(3)));
    run.nontrivial(format!("strace:{group}|positive-control|loopback-connect-seen"));
    run.sample(&format!("strace:{group}"), 1, json!({"child_operations": child_lines, "offending_lines": offenders, "inet_calls": inet_calls, "loopback_calls": loopback_calls, "unix_calls": unix_calls}));
    if !offenders.is_empty() {
        if group == "didweb" {
            // same cause as the recording observer's did:web finding (default resolver => DNS lookup / connect)
            run.violation("read|did-web-fetch|no-network-setting-asks-for-it", &format!("strace: reading the did:web CAWG fixtures with every enabling setting off performs DNS/connect calls: {:?}", offenders), json!({"observer": "strace", "lines": offenders}));
        } else {
            run.violation("strace|all-settings-off|non-loopback-connect", &format!("network syscalls to non-loopback inet addresses (or DNS) with every enabling setting off: {:?}", offenders), json!({"lines": offenders}));
        }
    }
}

fn main() {
    let mut run = Run::from_args("C28", "exploration");
    report::quiet_panics();

    if let Some(i) = std::env::args().position(|a| a == "--strace-child") {
        let port: Option<u16> = std::env::args().nth(i + 1).and_then(|p| p.parse().ok()).filter(|p| *p != 0);
        let mut sink = Run::from_args("C28", "exploration");
        let list = build_assets(&mut sink);
        let group = std::env::args().nth(i + 2).unwrap_or_else(|| "main".into());
        child_main(&list, port, &group);
        std::process::exit(0);
    }

    run.rule = "case = (operation in {read-sync, read-async, add-ingredient+sign}) x (asset in {unsigned, XMP with non-http provenance, embedded, remote-only, remote+embedded, remote-only with nothing to serve, AIA/OCSP certificate, 10 fixtures incl. cloud-manifest / OCSP / CAWG did:web}) x every combination of (remote_manifest_fetch, ocsp_fetch, certificate_status_fetch none/active/all, auto_timestamp_assertion, signer TSA URL) [+ decode_identity_assertions off for CAWG fixtures]; all requests go to one recording resolver (sync+async). Exhaustive over that grid. Non-trivial = the operation got past settings parsing and touched the asset; distinct = (op, asset kind, settings vector, set of request classes seen, result kind).".into();
    run.exhaustive = true;
    run.assumptions = vec![
        "the recording resolver sees every request the SDK routes through Context::resolver()/resolver_async(); requests made with a private client are only visible to the strace observer (thorough tier)".into(),
        "for generated assets the legitimate URLs are known exactly (XMP provenance URL, AIA OCSP URL, signer TSA URL); for fixtures only the gating by settings is judged, plus 'the RemoteManifestUrl payload occurs literally in the file'".into(),
        "did:web resolution for CAWG identity assertions is not one of the three enabling mechanisms the statement lists; a did:web request with all three off is reported under its own signature".into(),
        "builder.certificate_status_fetch counts as an OCSP-fetch setting for the add-ingredient operation".into(),
    ];

    if run.replay.is_some() {
        println!("replay: C28 is an exhaustive grid of fixed cases; the witness is re-executed by the normal run below");
    }
    let assets_list = build_assets(&mut run);
    let mut cases = Vec::new();
    for (ai, a) in assets_list.iter().enumerate() {
        for op in ["read-sync", "read-async", "read-file", "ingredient+sign"] {
            for bits in 0..16u32 {
                for csf in 0..3u8 {
                    let cfg = Cfg { rmf: bits & 1 != 0, ocsp: bits & 2 != 0, csf, auto_ts: bits & 4 != 0, tsa: bits & 8 != 0, decode_identity: true };
                    // settings that cannot influence a read are not multiplied for reads
                    if op != "ingredient+sign" && (csf != 0 || cfg.auto_ts || cfg.tsa) {
                        continue;
                    }
                    // keep big fixtures to the informative corner of the grid
                    if a.fixture && op == "ingredient+sign" && !(bits == 0 || bits == 15 || (bits == 2 && csf == 0) || (bits == 0 && csf > 0)) {
                        continue;
                    }
                    cases.push(Case { op, asset: ai, cfg });
                    if a.kind.contains("cawg") && bits < 4 && csf == 0 {
                        let mut c2 = cfg;
                        c2.decode_identity = false;
                        cases.push(Case { op, asset: ai, cfg: c2 });
                    }
                }
            }
        }
    }
    let results = par::par_map(cases.len(), |i| {
        let a = &assets_list[cases[i].asset];
        let o = execute(&cases[i], a);
        let v = judge(&cases[i], a, &o);
        (o.result, o.requests.iter().map(|r| format!("{} {}", r.method, r.uri)).collect::<Vec<_>>(), v)
    });
    let mut notes: BTreeMap<String, u64> = BTreeMap::new();
    for (i, (result, reqs, v)) in results.into_iter().enumerate() {
        run.eval();
        let a = &assets_list[cases[i].asset];
        if result.starts_with("harness:") {
            run.inconclusive(format!("case could not run: {result}"));
            continue;
        }
        run.nontrivial(v.class.clone());
        run.count("requests_recorded", reqs.len() as u64);
        for (k, n) in &v.counters {
            run.count(k, *n);
        }
        for n in v.notes {
            *notes.entry(n).or_insert(0) += 1;
        }
        let cj = json!({"op": cases[i].op, "asset": a.name, "asset_kind": a.kind, "settings": cases[i].cfg.vector(), "result": result, "requests": reqs});
        run.sample(&format!("{}|{}|{}", cases[i].op, a.kind, if reqs.is_empty() { "no-requests" } else { "requests" }), 1, cj.clone());
        for (sig, what) in &v.violations {
            run.violation(sig, what, cj.clone());
        }
    }
    run.set("assets", json!(assets_list.iter().map(|a| json!({"name": a.name, "kind": a.kind, "len": a.bytes.len(), "xmp_url": a.xmp_url, "embedded": a.embedded, "ocsp_url": a.ocsp_url})).collect::<Vec<_>>()));
    run.set("notes", json!(notes));
    run.engine("release", true, json!({"threads": par::workers(), "cases": cases.len()}));
    if !run.quick() || std::env::var("VERIF_C28_STRACE").is_ok() {
        strace_observer(&mut run);
    } else {
        run.engine("strace", false, json!({"reason": "thorough tier only (set VERIF_C28_STRACE=1 to force)"}));
    }
    run.finish(40);
}
