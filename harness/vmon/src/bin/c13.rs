//! C13 — range hashing equals the digest of exactly the selected bytes.
//!
//! Oracle: a reference model written from the property statement (no SDK code): build the byte
//! sequence position by position (marker at p => BE64(p); included byte => data[p]) and hash it
//! with this crate's own sha2.  Workload: exhaustive-small grid + seeded random cases, every case
//! run at several internal chunk sizes through the `hash_stream_with_buf` hook (chunk size 1 makes
//! one worker-thread hand-off per byte) and through the public `hash_stream_by_alg`.
use c2pa::{hash_stream_by_alg, verif_hooks, HashRange};
use serde_json::json;
use sha2::{Digest, Sha256, Sha384, Sha512};
use std::io::Cursor;
use vmon::{par, report, Rng, Run};

#[derive(Clone, Debug)]
struct Case {
    n: usize,
    data_seed: u64,
    /// (start, len, marker)
    ranges: Vec<(u64, u64, bool)>,
    excl: bool,
    alg: &'static str,
    buf: usize,
}

#[derive(Debug, PartialEq)]
enum Expect {
    Digest(Vec<u8>),
    MustErr,
    /// statement does not constrain this input: only "no panic, deterministic"
    Unjudged(&'static str),
    ErrOrDigest(Vec<u8>),
}

fn digest(alg: &str, bytes: &[u8]) -> Vec<u8> {
    match alg {
        "sha256" => Sha256::digest(bytes).to_vec(),
        "sha384" => Sha384::digest(bytes).to_vec(),
        _ => Sha512::digest(bytes).to_vec(),
    }
}

fn data_of(c: &Case) -> Vec<u8> {
    Rng::new(c.data_seed, "c13data").bytes(c.n)
}

fn reference(c: &Case, data: &[u8]) -> Expect {
    let n = c.n as u64;
    if n == 0 {
        return Expect::ErrOrDigest(digest(c.alg, b""));
    }
    // ranges reaching past the end (or overflowing) must be rejected
    let mut zero_len_beyond = false;
    for (s, l, marker) in &c.ranges {
        if *marker && c.excl {
            continue;
        }
        match s.checked_add(*l) {
            None => return Expect::MustErr,
            Some(e) if e > n => {
                if *l == 0 {
                    zero_len_beyond = true;
                } else {
                    return Expect::MustErr;
                }
            }
            _ => {}
        }
    }
    if zero_len_beyond {
        return Expect::Unjudged("zero-length range positioned past the end");
    }
    let markers: Vec<u64> = c.ranges.iter().filter(|r| r.2 && c.excl).map(|r| r.0).collect();
    {
        let mut m = markers.clone();
        m.sort();
        m.dedup();
        if m.len() != markers.len() {
            return Expect::Unjudged("duplicate markers");
        }
    }
    if markers.iter().any(|p| *p >= n) {
        return Expect::Unjudged("marker outside the data");
    }
    let mut out = Vec::new();
    if c.excl {
        let mut inc = vec![true; c.n];
        for (s, l, marker) in &c.ranges {
            if *marker {
                continue;
            }
            for p in *s..(*s + *l) {
                inc[p as usize] = false;
            }
        }
        let first = inc.iter().position(|x| *x);
        let last = inc.iter().rposition(|x| *x);
        for p in &markers {
            let p = *p as usize;
            let in_domain = inc[p] || matches!((first, last), (Some(f), Some(l)) if f < p && p < l);
            if !in_domain {
                return Expect::Unjudged("marker outside the included span");
            }
        }
        for p in 0..c.n {
            if markers.contains(&(p as u64)) {
                out.extend_from_slice(&(p as u64).to_be_bytes());
            }
            if inc[p] {
                out.push(data[p]);
            }
        }
    } else {
        // inclusion: bytes of each range in order of start; a marker belongs to its own range
        let mut rs: Vec<(u64, u64, bool)> = c.ranges.iter().filter(|r| r.1 > 0).cloned().collect();
        if rs.is_empty() && !c.ranges.is_empty() {
            return Expect::Unjudged("inclusion list with only empty ranges");
        }
        if c.ranges.is_empty() {
            return Expect::Digest(digest(c.alg, data));
        }
        rs.sort_by_key(|r| r.0);
        for w in rs.windows(2) {
            if w[0].0 + w[0].1 > w[1].0 {
                return Expect::Unjudged("overlapping inclusion ranges");
            }
        }
        for (s, l, marker) in rs {
            if marker {
                out.extend_from_slice(&s.to_be_bytes());
            }
            out.extend_from_slice(&data[s as usize..(s + l) as usize]);
        }
    }
    Expect::Digest(digest(c.alg, &out))
}

fn to_hash_ranges(c: &Case) -> Option<Vec<HashRange>> {
    if c.ranges.is_empty() && c.data_seed % 2 == 0 {
        return None;
    }
    Some(
        c.ranges
            .iter()
            .map(|(s, l, m)| {
                let mut r = HashRange::new(*s, *l);
                if *m {
                    r.set_bmff_offset(*s);
                }
                r
            })
            .collect(),
    )
}

fn shape_class(c: &Case) -> String {
    let n = c.n as u64;
    let mut f = Vec::new();
    let rs: Vec<&(u64, u64, bool)> = c.ranges.iter().filter(|r| !r.2).collect();
    if c.n == 0 {
        f.push("empty-stream");
    }
    if rs.is_empty() {
        f.push("no-ranges");
    }
    if rs.iter().any(|r| r.1 == 0) {
        f.push("zero-len");
    }
    if rs.windows(2).any(|w| w[0].0 > w[1].0) {
        f.push("unsorted");
    }
    let mut sorted: Vec<(u64, u64)> = rs.iter().map(|r| (r.0, r.1)).collect();
    sorted.sort();
    if sorted.windows(2).any(|w| w[0] == w[1]) {
        f.push("duplicate");
    }
    if sorted.windows(2).any(|w| w[0].0.checked_add(w[0].1) == Some(w[1].0)) {
        f.push("adjacent");
    }
    if sorted
        .windows(2)
        .any(|w| w[0].1 > 0 && w[1].1 > 0 && w[0].0.checked_add(w[0].1).map(|e| e > w[1].0).unwrap_or(true))
    {
        f.push("overlap");
    }
    let over: Vec<bool> = sorted.iter().map(|r| r.0.checked_add(r.1).map(|e| e > n).unwrap_or(true)).collect();
    if over.iter().any(|x| *x) {
        if over.last() == Some(&true) {
            f.push("overrun-last");
        }
        if over[..over.len().saturating_sub(1)].iter().any(|x| *x) {
            f.push("overrun-nonlast");
        }
    }
    if sorted.iter().any(|r| r.0.checked_add(r.1).is_none()) {
        f.push("u64-overflow");
    }
    if sorted.iter().any(|r| r.1 > 0 && r.0 == 0 && r.0 + r.1.min(n) >= n) {
        f.push("covers-all");
    }
    if c.ranges.iter().any(|r| r.2) {
        f.push("markers");
    }
    format!("{}|{}", if c.excl { "excl" } else { "incl" }, f.join("+"))
}

/// Coarse cause class used in witness signatures (never the raw offsets):
///  * `nonlast-overrun`  — a range reaching past the end that is not the one with the largest start
///  * `last-overrun`     — only the range with the largest start reaches past the end
///  * `marker-on-1byte-piece` — a marker offset coincides with a one-byte piece of included data
///  * `plain`            — none of the above
fn cause_class(c: &Case) -> String {
    let n = c.n as u64;
    let mut f: Vec<&str> = Vec::new();
    let max_start = c.ranges.iter().map(|r| r.0).max();
    let over = |r: &(u64, u64, bool)| r.0.checked_add(r.1).map(|e| e > n).unwrap_or(true);
    let mut sorted = c.ranges.clone();
    sorted.sort_by_key(|r| r.0);
    if let Some(last) = sorted.last() {
        if c.ranges.iter().any(|r| !(r.2 && c.excl) && over(r) && (Some(r.0) != max_start || r != last)) {
            f.push("nonlast-overrun");
        } else if over(last) {
            f.push("last-overrun");
        }
    }
    let marker_pos: Vec<u64> = c.ranges.iter().filter(|r| r.2).map(|r| r.0).collect();
    if c.excl {
        let mut inc = vec![true; c.n];
        for (s, l, m) in &c.ranges {
            if *m {
                continue;
            }
            let e = s.saturating_add(*l).min(n);
            for p in (*s).min(n)..e {
                inc[p as usize] = false;
            }
        }
        for p in &marker_pos {
            if *p < n && inc[*p as usize] {
                let q = *p + 1;
                if q >= n || !inc[q as usize] || marker_pos.contains(&q) {
                    f.push("marker-on-1byte-piece");
                    break;
                }
            }
        }
    } else if c.ranges.iter().any(|r| r.1 == 1 && marker_pos.contains(&r.0)) {
        f.push("marker-on-1byte-piece");
    }
    if f.is_empty() {
        f.push("plain");
    }
    f.join("+")
}

fn buf_class(c: &Case) -> &'static str {
    if c.buf == 1 {
        "buf1"
    } else if c.buf < c.n {
        "buf<n"
    } else if c.buf == c.n {
        "buf=n"
    } else {
        "buf>n"
    }
}

struct Res {
    class: String,
    /// (sig, what)
    violation: Option<(String, String)>,
    unjudged: Option<&'static str>,
    outcome: &'static str,
    handoffs: u64,
}

fn run_case(c: &Case) -> Res {
    let data = data_of(c);
    let exp = reference(c, &data);
    let shape = shape_class(c);
    let mut steps: Vec<(u32, u32)> = Vec::new();
    let r = report::catch_sdk(|| {
        let mut cur = Cursor::new(data.clone());
        let a = verif_hooks::hash_stream_with_buf(c.alg, &mut cur, to_hash_ranges(c), c.excl, c.buf.max(1), &mut |s, t| {
            steps.push((s, t));
            Ok(())
        });
        let mut cur = Cursor::new(data.clone());
        let b = hash_stream_by_alg(c.alg, &mut cur, to_hash_ranges(c), c.excl);
        (a, b)
    });
    let cause = cause_class(c);
    let mode = if c.excl { "excl" } else { "incl" };
    let mk = |defect: &str, what: String| Some((format!("{}|{}|{}", mode, defect, cause), what));
    let (violation, outcome): (Option<(String, String)>, &'static str) = match r {
        Err(p) => (mk("panic", format!("panic: {p}")), "panic"),
        Ok((a, b)) => {
            let same = match (&a, &b) {
                (Ok(x), Ok(y)) => x == y,
                (Err(_), Err(_)) => true,
                _ => false,
            };
            if !same {
                (mk("chunk-dependence", format!("hook(buf={}) gave {:?} but public API gave {:?}", c.buf, a.as_ref().map(hex::encode).map_err(|e| e.to_string()), b.as_ref().map(hex::encode).map_err(|e| e.to_string()))), "diverge")
            } else {
                match (&exp, &a) {
                    (Expect::Digest(d), Ok(x)) if d == x => (None, "ok-match"),
                    (Expect::Digest(d), Ok(x)) => (mk("mismatch", format!("expected {} got {}", hex::encode(d), hex::encode(x))), "mismatch"),
                    (Expect::Digest(_), Err(e)) => (mk("err-on-valid", format!("valid ranges rejected: {e}")), "err"),
                    (Expect::MustErr, Err(_)) => (None, "err-required"),
                    (Expect::MustErr, Ok(x)) => (mk("ok-on-overrun", format!("range past end accepted, digest {}", hex::encode(x))), "ok-on-overrun"),
                    (Expect::ErrOrDigest(_), Err(_)) => (None, "err-allowed"),
                    (Expect::ErrOrDigest(d), Ok(x)) if d == x => (None, "ok-match"),
                    (Expect::ErrOrDigest(d), Ok(x)) => (mk("mismatch", format!("expected {} got {}", hex::encode(d), hex::encode(x))), "mismatch"),
                    (Expect::Unjudged(_), Ok(_)) => (None, "unjudged-ok"),
                    (Expect::Unjudged(_), Err(_)) => (None, "unjudged-err"),
                }
            }
        }
    };
    // progress invariants on the hook's callback log (cheap, also feeds C23's evidence)
    let mut violation = violation;
    if violation.is_none() && matches!(exp, Expect::Digest(_)) {
        for w in steps.windows(2) {
            if w[1].0 <= w[0].0 {
                violation = mk("progress-nonincreasing", format!("steps {:?}", steps));
                break;
            }
        }
        if let Some((s, t)) = steps.iter().find(|(s, t)| *s == 0 || (*t != 0 && s > t)) {
            violation = mk("progress-range", format!("step {s} total {t}"));
        }
    }
    Res {
        class: format!("{}|{}|{}", shape, outcome, buf_class(c)),
        violation,
        unjudged: if let Expect::Unjudged(r) = exp { Some(r) } else { None },
        outcome,
        handoffs: steps.len() as u64,
    }
}

fn case_json(c: &Case) -> serde_json::Value {
    json!({"n": c.n, "data_seed": c.data_seed, "ranges": c.ranges.iter().map(|r| json!([r.0.to_string(), r.1.to_string(), r.2])).collect::<Vec<_>>(), "exclusion": c.excl, "alg": c.alg, "max_hash_buf": c.buf})
}

fn grid_cases(tier_quick: bool) -> Vec<Case> {
    let mut out = Vec::new();
    let ns: &[usize] = if tier_quick { &[0, 1, 2, 3, 5, 8] } else { &[0, 1, 2, 3, 4, 6, 9, 11, 16, 24] };
    for &n in ns {
        let nn = n as u64;
        let mut starts = vec![0u64, 1, 2, nn / 2, nn.saturating_sub(2), nn.saturating_sub(1), nn, nn + 1, u64::MAX];
        starts.sort();
        starts.dedup();
        let mut lens = vec![0u64, 1, 2, nn / 2, nn.saturating_sub(1), nn, nn + 1, 1000, u64::MAX];
        lens.sort();
        lens.dedup();
        let mut rs: Vec<(u64, u64, bool)> = Vec::new();
        for s in &starts {
            for l in &lens {
                rs.push((*s, *l, false));
            }
        }
        let bufs: Vec<usize> = vec![n.max(1), n.max(1), 2, n.max(1), n + 1, n.max(1), 1, n.max(1)];
        for excl in [true, false] {
            // 0, 1 and 2 ranges exhaustively over the grid
            let mut sets: Vec<Vec<(u64, u64, bool)>> = vec![vec![]];
            for a in &rs {
                sets.push(vec![*a]);
            }
            for a in &rs {
                for b in &rs {
                    sets.push(vec![*a, *b]);
                }
            }
            // 3 ranges over the in-bounds part of the grid
            let small: Vec<(u64, u64, bool)> = rs.iter().filter(|r| r.0 <= nn + 1 && r.1 <= nn + 1).cloned().collect();
            if n <= (if tier_quick { 3 } else { 6 }) {
                for a in &small {
                    for b in &small {
                        for c in &small {
                            sets.push(vec![*a, *b, *c]);
                        }
                    }
                }
            }
            // markers (as the SDK builds them: HashRange(p,1) + bmff_offset=p); inclusion markers sit on their range
            let mpos: Vec<u64> = {
                let mut v = vec![0, 1, nn / 2, nn.saturating_sub(1)];
                v.retain(|p| *p < nn.max(1));
                v.sort();
                v.dedup();
                v
            };
            let mut with_markers = Vec::new();
            if excl {
                for set in sets.iter().filter(|s| s.len() <= 2) {
                    for m in 1..(1u32 << mpos.len()) {
                        let mut s2 = set.clone();
                        for (i, p) in mpos.iter().enumerate() {
                            if m & (1 << i) != 0 {
                                s2.push((*p, 1, true));
                            }
                        }
                        with_markers.push(s2);
                    }
                }
            } else {
                for set in sets.iter().filter(|s| !s.is_empty() && s.len() <= 2) {
                    for m in 1..(1u32 << set.len()) {
                        let mut s2 = set.clone();
                        for i in 0..set.len() {
                            if m & (1 << i) != 0 {
                                s2[i].2 = true;
                            }
                        }
                        with_markers.push(s2);
                    }
                }
            }
            sets.extend(with_markers);
            for (i, set) in sets.into_iter().enumerate() {
                let buf = bufs[i % bufs.len()];
                out.push(Case { n, data_seed: (n as u64) * 1000 + (i as u64 % 7), ranges: set, excl, alg: "sha256", buf });
            }
        }
    }
    out
}

fn random_case(rng: &mut Rng) -> Case {
    let n = match rng.below(10) {
        0 => rng.usize(4),
        1..=5 => rng.usize(64),
        6..=8 => rng.usize(600),
        _ => rng.usize(4097),
    };
    let nn = n as u64;
    let excl = rng.chance(2, 3);
    let k = rng.usize(7);
    let mut ranges = Vec::new();
    let pos = |rng: &mut Rng| -> u64 {
        match rng.below(12) {
            0 => 0,
            1 => nn,
            2 => nn.saturating_sub(1),
            3 => nn + 1 + rng.below(5),
            4 => u64::MAX - rng.below(3),
            _ => rng.below(nn + 1),
        }
    };
    for _ in 0..k {
        let s = pos(rng);
        let l = match rng.below(12) {
            0 => 0,
            1 => u64::MAX - rng.below(3),
            2 => nn.saturating_sub(s.min(nn)),
            3 => nn.saturating_sub(s.min(nn)) + 1,
            _ => rng.below(nn.saturating_sub(s.min(nn)) + 1).min(rng.below(nn / 2 + 2)),
        };
        let marker = !excl && rng.chance(1, 5) && l > 0;
        ranges.push((s, l, marker));
    }
    if excl && rng.chance(1, 3) {
        for _ in 0..rng.usize(4) + 1 {
            let p = if rng.chance(1, 10) { nn + rng.below(3) } else { rng.below(nn.max(1)) };
            ranges.push((p, 1, true));
        }
    }
    if rng.chance(1, 2) {
        rng.shuffle(&mut ranges);
    }
    let bufs = [1usize, 2, 3, 7, 64, 1024, n.saturating_sub(1).max(1), n.max(1), n + 1];
    let mut buf = *rng.pick(&bufs);
    if n / buf > 48 {
        buf = (n / 24).max(1); // bound the number of worker-thread hand-offs per case
    }
    let alg = *rng.pick(&["sha256", "sha256", "sha384", "sha512"]);
    Case { n, data_seed: rng.next_u64() % 1_000_000, ranges, excl, alg, buf }
}

fn main() {
    let mut run = Run::from_args("C13", "exploration");
    report::quiet_panics();
    run.rule = "cases = exhaustive grid of <=3 ranges over boundary starts/lengths (incl. u64::MAX, zero-length, overrun) x markers on tiny streams, plus seeded random cases (0..4096 bytes, 0..6 ranges + markers, 3 algorithms, chunk sizes 1..n+1); each run through the hook (chosen chunk size) and the public API. Non-trivial+distinct = distinct (mode, range-shape flags, outcome, chunk-size class) among judged cases.".into();
    run.assumptions = vec![
        "reference digest computed with the harness's own sha2 over a position-by-position model".into(),
        "markers outside the included span, duplicate markers, overlapping inclusion ranges and zero-length ranges beyond the end are generated but not judged (statement does not constrain them)".into(),
    ];

    if let Some(p) = run.replay.clone() {
        let v: serde_json::Value = serde_json::from_slice(&std::fs::read(&p).expect("replay file")).expect("json");
        let w = &v["witness"];
        let c = Case {
            n: w["n"].as_u64().unwrap() as usize,
            data_seed: w["data_seed"].as_u64().unwrap(),
            ranges: w["ranges"].as_array().unwrap().iter().map(|r| (r[0].as_str().unwrap().parse().unwrap(), r[1].as_str().unwrap().parse().unwrap(), r[2].as_bool().unwrap())).collect(),
            excl: w["exclusion"].as_bool().unwrap(),
            alg: match w["alg"].as_str().unwrap() { "sha384" => "sha384", "sha512" => "sha512", _ => "sha256" },
            buf: w["max_hash_buf"].as_u64().unwrap() as usize,
        };
        let r = run_case(&c);
        println!("replay: class={} violation={:?}", r.class, r.violation);
        std::process::exit(if r.violation.is_some() { 1 } else { 0 });
    }

    // sanitizer engines beside the main workload: Miri (UB + data races in the worker hand-off, seeded
    // schedules) in both tiers, ThreadSanitizer in thorough; both on the C-free vmon-miri build
    let mut engines = Vec::new();
    if !vmon::engines::engines_disabled() {
        if run.quick() {
            engines.push(("miri", "c13_smoke", vmon::engines::spawn_engine("run_miri.sh", &["c13_smoke", "0..1"], vec![("VERIF_MIRI_TIMEOUT", "900".into())])));
        } else {
            engines.push(("miri", "c13", vmon::engines::spawn_engine("run_miri.sh", &["c13", "0..8"], vec![("VERIF_MIRI_TIMEOUT", "7200".into())])));
            engines.push(("tsan", "c13", vmon::engines::spawn_engine("run_tsan.sh", &["c13", "5"], vec![])));
        }
    }

    let mut cases = grid_cases(run.quick());
    let grid_n = cases.len();
    let n_random = run.tier.pick(40_000, 2_000_000);
    let mut rng = Rng::new(run.seed, "c13");
    for _ in 0..n_random {
        cases.push(random_case(&mut rng));
    }
    let results = par::par_map(cases.len(), |i| run_case(&cases[i]));
    let mut unjudged: std::collections::BTreeMap<&'static str, u64> = Default::default();
    for (i, r) in results.iter().enumerate() {
        run.eval();
        run.count("worker_handoff_callbacks", r.handoffs);
        run.count(&format!("outcome:{}", r.outcome), 1);
        if let Some(u) = r.unjudged {
            *unjudged.entry(u).or_insert(0) += 1;
            run.sample(&format!("unjudged:{u}"), 1, case_json(&cases[i]));
        } else {
            run.nontrivial(r.class.clone());
            run.sample(r.outcome, 2, case_json(&cases[i]));
        }
        if let Some((sig, what)) = &r.violation {
            run.violation(sig, what, case_json(&cases[i]));
        }
    }
    run.set("grid_cases", json!(grid_n));
    run.set("random_cases", json!(n_random));
    run.set("unjudged", json!(unjudged));
    run.engine("release", true, json!({"threads": par::workers()}));
    for (name, filter, h) in engines {
        vmon::engines::record_engine(&mut run, name, filter, h);
    }
    run.finish(20);
}
