//! C20 — redaction removes exactly the requested assertions and stays verifiable.
//!
//! Route A (public API): chains of 1–3 signed manifests over tiny assets, every level carrying 3–5
//! redactable assertions (CBOR / JSON kinds, duplicate labels `__1`, labels that are prefixes of each
//! other, claim thumbnail, databox) each with a unique planted marker; a final Update/Edit manifest
//! redacts a subset S (every subset on the small chains).  Oracle: output Valid/Trusted, active
//! manifest's `redactions()` == S as a set, marker(t) absent from the output bytes for t ∈ S and
//! present for t ∉ S (and still listed by the Reader under its manifest), own assertions untouched.
//! Route B (forbidden targets): redacting an ingredient's actions / hard binding, or an own assertion,
//! through the Builder must fail at build time or not read Valid; the same through the `craft_store`
//! hook (claim lists the redaction; ingredient intact or assertion really removed) must not read Valid.
//! Route C (post-hoc): deleting / zeroing / altering an assertion box of an ingredient manifest in a
//! signed side-car store without a redaction entry (with and without other, legitimate redactions of
//! the same manifest) must not read Valid.
use c2pa::verif_hooks::ext_store::{craft_store, CraftAction, CraftEdge, CraftManifest, CraftSpec};
use c2pa::{BuilderIntent, DigitalSourceType, Reader};
use serde_json::{json, Value};
use std::collections::BTreeSet;
use std::io::Cursor;
use vmon::storegen::{self as sg, Edit};
use vmon::{assets, jumbf, par, report, signers, Rng, Run};

#[derive(Clone, Debug)]
struct Target {
    level: usize,
    /// JUMBF label inside the assertion store / databox store (with `__n` instance suffix)
    jlabel: String,
    /// box under the manifest: "c2pa.assertions" or "c2pa.databoxes"
    store: &'static str,
    kind: &'static str,
    marker: String,
}

#[derive(Clone, Debug)]
struct Level {
    asset: Vec<u8>,
    label: String,
    targets: Vec<Target>,
    /// redactions this level itself requested (mid-chain redaction)
    own_redactions: Vec<String>,
}

#[derive(Clone, Debug)]
struct Chain {
    name: String,
    fmt: &'static str,
    levels: Vec<Level>,
}

fn find(hay: &[u8], needle: &[u8]) -> bool {
    !needle.is_empty() && hay.windows(needle.len()).any(|w| w == needle)
}

fn uri(label: &str, t: &Target) -> String {
    format!("self#jumbf=/c2pa/{}/{}/{}", label, t.store, t.jlabel)
}

fn read(fmt: &str, asset: &[u8]) -> c2pa::Result<Reader> {
    Reader::from_context(sg::context(&json!({}))).with_stream(fmt, Cursor::new(asset.to_vec()))
}

/// (label, kind) pool: prefix-sharing labels and duplicates on purpose.
const POOL: [(&str, &str); 5] = [("org.verif.a", "cbor"), ("org.verif.ab", "json"), ("org.verif.a", "cbor"), ("org.verif.a.b", "json"), ("com.verif.z", "cbor")];

fn build_chain(seed: u64, name: &str, fmt: &'static str, src: &[u8], ks: &[usize], thumb: bool, databox: bool, mid_update: bool, mid_redact: bool) -> Result<Chain, String> {
    let signer = signers::test_signer("ed25519");
    let mut rng = Rng::new(seed, &format!("c20chain{name}"));
    let mut levels: Vec<Level> = Vec::new();
    let mut cur = src.to_vec();
    for (li, k) in ks.iter().enumerate() {
        let mut targets = Vec::new();
        let mut assertions = Vec::new();
        let mut counts: std::collections::BTreeMap<&str, usize> = Default::default();
        for (ai, (label, kind)) in POOL.iter().take(*k).enumerate() {
            let marker = format!("VMK{}L{}A{}{}", name.len(), li, ai, hex::encode(rng.bytes(8)));
            let inst = counts.entry(label).or_insert(0);
            let jlabel = if *inst == 0 { label.to_string() } else { format!("{}__{}", label, inst) };
            *inst += 1;
            let mut a = json!({"label": label, "data": {"marker": marker, "level": li}});
            if *kind == "json" {
                a["kind"] = json!("Json");
            }
            assertions.push(a);
            targets.push(Target { level: li, jlabel, store: "c2pa.assertions", kind, marker });
        }
        let mut def = json!({"title": format!("c20 {name} L{li}"), "assertions": assertions});
        let mut own_redactions = Vec::new();
        if li == 1 && mid_redact {
            // this level redacts the last target of level 0
            let l0 = &levels[0];
            if let Some(t) = l0.targets.last() {
                let u = uri(&l0.label, t);
                def["redactions"] = json!([u]);
                def["assertions"].as_array_mut().unwrap().push(json!({"label": "c2pa.actions", "data": {"actions": [{"action": "c2pa.redacted", "reason": "c2pa.PII.present", "parameters": {"redacted": u}}]}}));
                own_redactions.push(u);
            }
        }
        let use_thumb = thumb && li == 0;
        let use_db = databox && li == 0;
        let thumb_marker = format!("VMKTHUMB{}", hex::encode(rng.bytes(8)));
        let db_marker = format!("VMKDBOX{}", hex::encode(rng.bytes(8)));
        if use_thumb {
            def["thumbnail"] = json!({"format": "image/jpeg", "identifier": "thumb.jpg"});
        }
        if use_db {
            def["ingredients"] = json!([{"title": "prompt", "format": "text/plain", "relationship": "inputTo", "data": {"format": "text/plain", "identifier": "prompt.txt"}}]);
        }
        let intent = if li == 0 {
            BuilderIntent::Create(DigitalSourceType::Empty)
        } else if mid_update {
            BuilderIntent::Update
        } else {
            BuilderIntent::Edit
        };
        let signed = report::catch_sdk(|| -> c2pa::Result<sg::Signed> {
            let mut b = sg::builder(&json!({}), def.clone(), intent.clone())?;
            if use_thumb {
                let mut t = assets::tiny_jpeg(None, false, &[]);
                t.extend_from_slice(thumb_marker.as_bytes());
                b.add_resource("thumb.jpg", Cursor::new(t))?;
            }
            if use_db {
                b.add_resource("prompt.txt", Cursor::new(format!("prompt {db_marker}").into_bytes()))?;
            }
            sg::sign(&mut b, signer.as_ref(), fmt, &cur)
        })
        .map_err(|p| format!("panic signing level {li}: {p}"))?
        .map_err(|e| format!("sign level {li}: {e:?}"))?;
        let rd = read(fmt, &signed.asset).map_err(|e| format!("read level {li}: {e:?}"))?;
        let label = rd.active_label().ok_or("no active label")?.to_string();
        let m = rd.active_manifest().ok_or("no active manifest")?;
        let refs: Vec<String> = m.assertion_references().map(|r| r.url()).collect();
        if use_thumb {
            if let Some(u) = refs.iter().find(|u| u.contains("c2pa.thumbnail.claim")) {
                targets.push(Target { level: li, jlabel: u.rsplit('/').next().unwrap_or("").to_string(), store: "c2pa.assertions", kind: "thumbnail", marker: thumb_marker.clone() });
            }
        }
        if use_db {
            // the databox lives in c2pa.databoxes; find its label with the independent walker
            if let Ok(st) = c2pa::jumbf_io::load_jumbf_from_memory(fmt, &signed.asset) {
                if let Some(root) = jumbf::parse_store(&st) {
                    let mut all = Vec::new();
                    root.walk(&mut all);
                    if let Some(b) = all.iter().find(|b| &b.typ == b"jumb" && b.path.contains(&label) && b.path.contains("/c2pa.databoxes/")) {
                        targets.push(Target { level: li, jlabel: b.label.clone().unwrap_or_default(), store: "c2pa.databoxes", kind: "databox", marker: db_marker.clone() });
                    }
                }
            }
        }
        for t in &targets {
            if t.store == "c2pa.assertions" && !refs.iter().any(|u| u.ends_with(&format!("/{}", t.jlabel))) {
                return Err(format!("level {li}: assertion {} not found among {:?}", t.jlabel, refs));
            }
            if !find(&signed.asset, t.marker.as_bytes()) {
                return Err(format!("level {li}: marker of {} not present after signing", t.jlabel));
            }
        }
        cur = signed.asset.clone();
        levels.push(Level { asset: signed.asset, label, targets, own_redactions });
    }
    Ok(Chain { name: name.into(), fmt, levels })
}

#[derive(Clone, Debug)]
struct ACase {
    chain: usize,
    /// indices into the flattened target list
    subset: Vec<usize>,
    update: bool,
}

struct ARes {
    class: String,
    violations: Vec<(String, String)>,
    gen_fail: Option<String>,
    sample: Value,
}

fn flat_targets(ch: &Chain) -> Vec<(String, Target)> {
    let mut v = Vec::new();
    let mid: Vec<String> = ch.levels.iter().flat_map(|l| l.own_redactions.clone()).collect();
    for l in &ch.levels {
        for t in &l.targets {
            if mid.contains(&uri(&l.label, t)) {
                continue; // already redacted by an intermediate level
            }
            v.push((l.label.clone(), t.clone()));
        }
    }
    v
}

fn run_a(ch: &Chain, c: &ACase) -> ARes {
    let signer = signers::test_signer("ed25519");
    let ft = flat_targets(ch);
    let req: Vec<String> = c.subset.iter().map(|i| uri(&ft[*i].0, &ft[*i].1)).collect();
    let own_marker = format!("VMKOWN{}", c.subset.iter().map(|i| i.to_string()).collect::<Vec<_>>().join("_"));
    let mut assertions = vec![json!({"label": "org.verif.own", "data": {"marker": own_marker}})];
    if !req.is_empty() {
        let acts: Vec<Value> = req.iter().map(|u| json!({"action": "c2pa.redacted", "reason": "c2pa.PII.present", "parameters": {"redacted": u}})).collect();
        assertions.push(json!({"label": "c2pa.actions", "data": {"actions": acts}}));
    }
    let mut def = json!({"title": "c20 redactor", "assertions": assertions});
    if !req.is_empty() {
        def["redactions"] = json!(req);
    }
    let depth = ch.levels.len();
    let kinds: BTreeSet<&str> = c.subset.iter().map(|i| ft[*i].1.kind).collect();
    let lv: BTreeSet<usize> = c.subset.iter().map(|i| ft[*i].1.level).collect();
    let route = if c.update { "update" } else { "edit" };
    let cls = |outcome: &str| format!("redact|d{}|{}|{}|levels{:?}|n{}|{}|{}", depth, ch.fmt, route, lv, c.subset.len().min(3), kinds.iter().cloned().collect::<Vec<_>>().join("+"), outcome);
    let src = &ch.levels.last().unwrap().asset;
    let signed = report::catch_sdk(|| -> c2pa::Result<sg::Signed> {
        let mut b = sg::builder(&json!({}), def.clone(), if c.update { BuilderIntent::Update } else { BuilderIntent::Edit })?;
        sg::sign(&mut b, signer.as_ref(), ch.fmt, src)
    });
    let sample = json!({"chain": ch.name, "requested": req, "route": route});
    let signed = match signed {
        Err(p) => return ARes { class: cls("sign-panic"), violations: vec![(format!("d{depth}|{}|{route}|sign-panic", kinds.iter().cloned().collect::<Vec<_>>().join("+")), format!("panic while signing with redactions: {p}"))], gen_fail: None, sample },
        Ok(Err(e)) => return ARes { class: cls("sign-error"), violations: vec![], gen_fail: Some(format!("{}: {e:?}", ch.name)), sample },
        Ok(Ok(s)) => s,
    };
    let mut v = Vec::new();
    let kind_s = if kinds.is_empty() { "none".to_string() } else { kinds.iter().cloned().collect::<Vec<_>>().join("+") };
    let sig = |defect: &str| format!("d{depth}|{kind_s}|{route}|{defect}");
    let out = report::catch_sdk(|| read(ch.fmt, &signed.asset));
    let rd = match out {
        Err(p) => return ARes { class: cls("read-panic"), violations: vec![(sig("read-panic"), format!("panic reading: {p}"))], gen_fail: None, sample },
        Ok(Err(e)) => return ARes { class: cls("read-error"), violations: vec![(sig("not-valid"), format!("output of a legitimate redaction cannot be read: {e:?}"))], gen_fail: None, sample },
        Ok(Ok(r)) => r,
    };
    let state = format!("{:?}", rd.validation_state());
    if state != "Valid" && state != "Trusted" {
        let o = report::outcome_of(Ok(rd));
        return ARes { class: cls(&state), violations: vec![(sig("not-valid"), format!("output of a legitimate redaction reads {state}: {:?}", o.failure_codes()))], gen_fail: None, sample };
    }
    // (b) redaction list
    let got: BTreeSet<String> = rd.active_manifest().and_then(|m| m.redactions()).map(|r| r.iter().cloned().collect()).unwrap_or_default();
    let want: BTreeSet<String> = req.iter().cloned().collect();
    if got != want {
        v.push((sig("redaction-list"), format!("manifest.redactions() = {got:?}, requested {want:?}")));
    }
    // (c)/(d) markers
    for (i, (mlabel, t)) in ft.iter().enumerate() {
        let present = find(&signed.asset, t.marker.as_bytes());
        let redacted = c.subset.contains(&i);
        if redacted && present {
            v.push((format!("{}|{route}|payload-still-present", ch.fmt), format!("marker of redacted {} ({} assertion of level {} of a depth-{depth} chain) still in the output bytes", t.jlabel, t.kind, t.level)));
        }
        if !redacted && !present {
            v.push((format!("d{depth}|{}|{route}|collateral-removal", t.kind), format!("marker of non-redacted {} (level {}) disappeared (redacting {:?})", t.jlabel, t.level, req)));
        }
        // the Reader's view of that manifest
        if t.store == "c2pa.assertions" {
            if let Some(m) = rd.get_manifest(mlabel) {
                let listed = m.assertion_references().any(|r| r.url().ends_with(&format!("/{}", t.jlabel)));
                let data_there = serde_json::to_string(&m.assertions().iter().filter_map(|a| a.value().ok().cloned()).collect::<Vec<_>>()).unwrap_or_default().contains(&t.marker);
                if !redacted && t.kind != "thumbnail" && !data_there {
                    v.push((format!("d{depth}|{}|{route}|collateral-removal", t.kind), format!("Reader no longer shows non-redacted {} under {}", t.jlabel, mlabel)));
                }
                if redacted && data_there {
                    v.push((format!("{}|{route}|payload-still-readable", ch.fmt), format!("Reader still shows the data of redacted {} ({})", t.jlabel, t.kind)));
                }
                let _ = listed;
            } else {
                v.push((sig("manifest-lost"), format!("ingredient manifest {mlabel} missing from the output")));
            }
        }
    }
    if !find(&signed.asset, own_marker.as_bytes()) {
        v.push((sig("own-assertion-lost"), "the redacting manifest's own assertion is missing".into()));
    }
    // intermediate redactions must still be listed where they were made and stay removed
    for l in &ch.levels {
        if !l.own_redactions.is_empty() {
            let got: BTreeSet<String> = rd.get_manifest(&l.label).and_then(|m| m.redactions()).map(|r| r.iter().cloned().collect()).unwrap_or_default();
            let want: BTreeSet<String> = l.own_redactions.iter().cloned().collect();
            if got != want {
                v.push((sig("mid-redaction-list"), format!("intermediate manifest lists {got:?}, had {want:?}")));
            }
        }
    }
    ARes { class: cls(&state), violations: v, gen_fail: None, sample }
}

// ---- route B: forbidden targets ----------------------------------------------------------------
struct BRes {
    class: String,
    violation: Option<(String, String)>,
    note: Value,
}

fn forbidden_builder(ch: &Chain, kind: &str, update: bool) -> BRes {
    let signer = signers::test_signer("ed25519");
    let parent = ch.levels.last().unwrap();
    let rd = match read(ch.fmt, &parent.asset) {
        Ok(r) => r,
        Err(e) => return BRes { class: format!("forbidden|builder|{kind}|harness-read-error"), violation: None, note: json!(format!("{e:?}")) },
    };
    let refs: Vec<String> = rd.active_manifest().map(|m| m.assertion_references().map(|r| r.url()).collect()).unwrap_or_default();
    let own_label = "urn:c2pa:11111111-2222-4333-8444-555555555555";
    let target = match kind {
        "actions" => refs.iter().find(|u| u.contains("c2pa.actions")).map(|u| format!("self#jumbf=/c2pa/{}/c2pa.assertions/{}", parent.label, u.rsplit('/').next().unwrap())),
        "hash" => refs.iter().find(|u| u.contains("c2pa.hash.")).map(|u| format!("self#jumbf=/c2pa/{}/c2pa.assertions/{}", parent.label, u.rsplit('/').next().unwrap())),
        _ => Some(format!("self#jumbf=/c2pa/{own_label}/c2pa.assertions/org.verif.own")),
    };
    let Some(target) = target else {
        return BRes { class: format!("forbidden|builder|{kind}|no-target"), violation: None, note: json!(refs) };
    };
    let mut def = json!({"title": "c20 forbidden", "redactions": [target], "assertions": [
        {"label": "org.verif.own", "data": {"x": 1}},
        {"label": "c2pa.actions", "data": {"actions": [{"action": "c2pa.redacted", "reason": "c2pa.PII.present", "parameters": {"redacted": target}}]}}]});
    if kind == "own" {
        def["label"] = json!(own_label);
    }
    let route = if update { "update" } else { "edit" };
    let signed = report::catch_sdk(|| -> c2pa::Result<sg::Signed> {
        let mut b = sg::builder(&json!({}), def.clone(), if update { BuilderIntent::Update } else { BuilderIntent::Edit })?;
        sg::sign(&mut b, signer.as_ref(), ch.fmt, &parent.asset)
    });
    match signed {
        Err(p) => BRes { class: format!("forbidden|builder|{kind}|{route}|panic"), violation: Some((format!("forbidden|{kind}|builder|panic"), p)), note: json!(target) },
        Ok(Err(e)) => BRes { class: format!("forbidden|builder|{kind}|{route}|build-error:{}", report::err_kind(&e)), violation: None, note: json!(target) },
        Ok(Ok(s)) => {
            let o = report::read_bytes_catch(sg::context(&json!({})), ch.fmt, &s.asset);
            let v = if o.accepted() { Some((format!("forbidden|{kind}|builder-{route}|accepted"), format!("redaction of {target} was built and reads {}", o.state))) } else { None };
            BRes { class: format!("forbidden|builder|{kind}|{route}|built-then-{}", o.state), violation: v, note: json!({"target": target, "failures": o.failure_codes()}) }
        }
    }
}

fn craft_spec(redaction: Option<&str>, remove: Option<&str>, own: bool) -> CraftSpec {
    let m0 = CraftManifest {
        key: "m0".into(),
        claim_version: 2,
        actions: vec![CraftAction { action: "c2pa.created".into(), edges: vec![], source_type_empty: true }],
        json_assertions: vec![("org.verif.note".into(), "{\"marker\":\"VMKCRAFT0\"}".into())],
        hard_binding: true,
        real_binding: true,
        remove_after_sign: remove.map(|r| vec![r.to_string()]).unwrap_or_default(),
        ..Default::default()
    };
    let m1 = CraftManifest {
        key: "m1".into(),
        claim_version: 2,
        edges: vec![CraftEdge { target: "m0".into(), relationship: "parentOf".into(), hash: "correct".into(), version: 3, no_manifest_ref: false }],
        actions: vec![CraftAction { action: "c2pa.opened".into(), edges: vec![0], source_type_empty: false }],
        json_assertions: vec![("org.verif.own".into(), "{\"marker\":\"VMKCRAFT1\"}".into())],
        hard_binding: true,
        redactions: redaction.map(|r| vec![if own { r.replace("{T}", "{m1}") } else { r.replace("{T}", "{m0}") }]).unwrap_or_default(),
        ..Default::default()
    };
    CraftSpec { manifests: vec![m0, m1], embed: false }
}

fn craft_read(spec: &CraftSpec) -> Result<(report::Outcome, Vec<u8>), String> {
    let asset = assets::tiny_jpeg(None, false, &[]);
    let signer = signers::test_signer("ed25519");
    let ctx = sg::context(&json!({"verify": {"verify_after_sign": false}}));
    let out = report::catch_sdk(|| craft_store(spec, signer.as_ref(), "image/jpeg", &asset, &ctx)).map_err(|p| format!("craft panic: {p}"))?.map_err(|e| format!("craft: {e:?}"))?;
    let store = out.store.clone();
    let o = match report::catch_sdk(|| report::outcome_of(Reader::from_context(sg::context(&json!({}))).with_manifest_data_and_stream(&out.store, "image/jpeg", Cursor::new(asset.clone())))) {
        Ok(o) => o,
        Err(p) => report::Outcome { state: "Panic".into(), error: Some(p), report: Value::Null, codes: vec![] },
    };
    Ok((o, store))
}

// ---- route C: post-hoc edits --------------------------------------------------------------------
struct CRes {
    class: String,
    violation: Option<(String, String)>,
    trivial: bool,
}

fn main() {
    let mut run = Run::from_args("C20", "exploration");
    report::quiet_panics();
    run.rule = "A: chains of depth 1-3 over tiny jpg/png/mp4 (3-5 marked assertions per level: cbor/json kinds, duplicate and prefix-sharing labels, claim thumbnail, databox; optional intermediate update manifest; optional intermediate redaction) x every subset of targets (sampled on the depth-3 chains in the quick tier) x Update|Edit intent; B: forbidden targets (ingredient actions, ingredient hard binding, own assertion) through the Builder and through craft_store (ingredient intact / assertion really removed); C: post-hoc delete/zero/alter of each ingredient assertion box in a signed side-car store, with and without a legitimate redaction of another assertion of the same manifest. Non-trivial+distinct = distinct (route, depth, format, intent, levels touched, target kinds, outcome).".into();
    run.assumptions = vec![
        "markers are unique random ASCII strings stored in assertion payloads; manifests are not compressed, so a byte search over the output asset decides presence".into(),
        "a Builder error for a *legitimate* redaction request is counted as generator failure (generator_failures), not judged; the archive round-trip route of the design is not driven".into(),
        "forbidden redactions may be refused at build time or read as Invalid; both satisfy the statement".into(),
    ];
    let quick = run.quick();
    let tiny = assets::tiny_assets();
    let asset_of = |f: &str| tiny.iter().find(|a| a.format == f).unwrap().clone();

    // ---- chains
    struct ChainSpec(&'static str, &'static str, Vec<usize>, bool, bool, bool, bool);
    let mut specs = vec![
        ChainSpec("j5", "jpg", vec![5], false, false, false, false),
        ChainSpec("j3tb", "jpg", vec![3], true, true, false, false),
        ChainSpec("p4", "png", vec![4], false, false, false, false),
        ChainSpec("m3", "mp4", vec![3], false, false, false, false),
        ChainSpec("j33", "jpg", vec![3, 3], false, false, false, false),
        ChainSpec("j33u", "jpg", vec![3, 2], false, false, true, false),
        ChainSpec("j43r", "jpg", vec![4, 3], false, false, false, true),
        ChainSpec("j333", "jpg", vec![3, 3, 3], false, false, false, false),
        ChainSpec("m32u", "mp4", vec![3, 2], false, false, true, false),
    ];
    if !quick {
        specs.push(ChainSpec("p5t", "png", vec![5], true, false, false, false));
        specs.push(ChainSpec("m33", "mp4", vec![3, 3], false, false, false, true));
        specs.push(ChainSpec("j543", "jpg", vec![5, 4, 3], true, true, false, false));
    }
    let built = par::par_map(specs.len(), |i| {
        let s = &specs[i];
        build_chain(run.seed, s.0, s.1, &asset_of(s.1).bytes, &s.2, s.3, s.4, s.5, s.6)
    });
    let mut chains = Vec::new();
    for (i, b) in built.into_iter().enumerate() {
        match b {
            Ok(c) => chains.push(c),
            Err(e) => {
                run.count("generator_failures", 1);
                run.sample("generator-failure:chain", 4, json!({"chain": specs[i].0, "error": e}));
            }
        }
    }
    run.set("chains_built", json!(chains.iter().map(|c| format!("{}:{}", c.name, c.levels.iter().map(|l| l.targets.len().to_string()).collect::<Vec<_>>().join("/"))).collect::<Vec<_>>()));

    // ---- route A cases
    let mut acases = Vec::new();
    let mut rng = Rng::new(run.seed, "c20subsets");
    for (ci, ch) in chains.iter().enumerate() {
        let n = flat_targets(ch).len();
        let total = 1u64 << n;
        let cap = run.tier.pick(64u64, 4096u64);
        let masks: Vec<u64> = if total <= cap {
            (0..total).collect()
        } else {
            let mut m: BTreeSet<u64> = [0, total - 1].into_iter().collect();
            for i in 0..n {
                m.insert(1 << i);
            }
            while (m.len() as u64) < cap {
                m.insert(rng.below(total));
            }
            m.into_iter().collect()
        };
        let exhaustive = total <= cap;
        run.count(if exhaustive { "chains_with_every_subset" } else { "chains_with_sampled_subsets" }, 1);
        for (k, mask) in masks.iter().enumerate() {
            let subset: Vec<usize> = (0..n).filter(|i| mask & (1 << i) != 0).collect();
            let both = ch.levels.len() == 1 && n <= 5;
            if both {
                acases.push(ACase { chain: ci, subset: subset.clone(), update: true });
                acases.push(ACase { chain: ci, subset, update: false });
            } else {
                acases.push(ACase { chain: ci, subset, update: k % 2 == 0 });
            }
        }
    }
    let ares = par::par_map(acases.len(), |i| run_a(&chains[acases[i].chain], &acases[i]));
    for r in ares {
        run.eval();
        if let Some(g) = &r.gen_fail {
            run.count("generator_failures", 1);
            run.sample("generator-failure:redaction-refused", 4, json!({"error": g, "case": r.sample}));
            continue;
        }
        run.nontrivial(r.class.clone());
        run.sample(if r.violations.is_empty() { "A:held" } else { "A:violated" }, 2, json!({"class": r.class, "case": r.sample}));
        for (sig, what) in &r.violations {
            run.violation(sig, what, r.sample.clone());
        }
    }

    // ---- route B
    if let Some(ch) = chains.first() {
        for kind in ["actions", "hash", "own"] {
            for update in [true, false] {
                run.eval();
                let r = forbidden_builder(ch, kind, update);
                run.nontrivial(r.class.clone());
                run.sample("B:builder", 6, json!({"class": r.class, "note": r.note}));
                if let Some((sig, what)) = &r.violation {
                    run.violation(sig, what, json!({"route": "builder", "kind": kind, "update": update, "note": r.note}));
                }
            }
        }
    }
    // craft route: discover the assertion labels of a crafted ingredient first
    match craft_read(&craft_spec(None, None, false)) {
        Err(e) => run.inconclusive(format!("craft route unavailable: {e}")),
        Ok((o, store)) => {
            run.eval();
            run.nontrivial(format!("craft|control-no-redaction|{}", o.state));
            if !o.accepted() {
                run.inconclusive(format!("crafted control store (no redaction) is not accepted: {} {:?}", o.state, o.failure_codes()));
            }
            let root = jumbf::parse_store(&store);
            let mut labels: Vec<String> = Vec::new();
            if let Some(root) = &root {
                if let Some(m0) = jumbf::manifests(root).first() {
                    let mut all = Vec::new();
                    m0.walk(&mut all);
                    for b in all {
                        if &b.typ == b"jumb" && b.path.contains("/c2pa.assertions/") {
                            labels.push(b.label.clone().unwrap_or_default());
                        }
                    }
                }
            }
            run.set("crafted_ingredient_assertions", json!(labels));
            let actions = labels.iter().find(|l| l.starts_with("c2pa.actions")).cloned();
            let hash = labels.iter().find(|l| l.starts_with("c2pa.hash.")).cloned();
            // legit control: redact org.verif.note for real
            let legit = craft_read(&craft_spec(Some("self#jumbf=/c2pa/{T}/c2pa.assertions/org.verif.note"), Some("org.verif.note"), false));
            if let Ok((o, st)) = &legit {
                run.eval();
                run.nontrivial(format!("craft|control-legit-redaction|{}", o.state));
                run.sample("B:craft-control", 1, json!({"state": o.state, "failures": o.failure_codes(), "marker_present": find(st, b"VMKCRAFT0")}));
                if !o.accepted() {
                    run.count("craft_control_not_valid", 1);
                }
            }
            let mut variants: Vec<(&str, String, Option<String>, bool)> = Vec::new();
            if let Some(a) = &actions {
                variants.push(("actions", format!("self#jumbf=/c2pa/{{T}}/c2pa.assertions/{a}"), None, false));
                variants.push(("actions", format!("self#jumbf=/c2pa/{{T}}/c2pa.assertions/{a}"), Some(a.clone()), false));
            }
            if let Some(h) = &hash {
                variants.push(("hash", format!("self#jumbf=/c2pa/{{T}}/c2pa.assertions/{h}"), None, false));
                variants.push(("hash", format!("self#jumbf=/c2pa/{{T}}/c2pa.assertions/{h}"), Some(h.clone()), false));
            }
            // hard-binding labels in all their spellings (versioned BMFF labels, box hash), whether or not the
            // ingredient carries such an assertion: listing them as redacted is never allowed
            for (k, l) in [("hash-bmff-v3", "c2pa.hash.bmff.v3"), ("hash-bmff-v2", "c2pa.hash.bmff.v2"), ("hash-bmff", "c2pa.hash.bmff"), ("hash-boxes", "c2pa.hash.boxes"), ("hash-data", "c2pa.hash.data")] {
                variants.push((k, format!("self#jumbf=/c2pa/{{T}}/c2pa.assertions/{l}"), None, false));
            }
            variants.push(("own", "self#jumbf=/c2pa/{T}/c2pa.assertions/org.verif.own".to_string(), None, true));
            for (kind, red, remove, own) in variants {
                run.eval();
                let removed = if remove.is_some() { "removed" } else { "intact" };
                match craft_read(&craft_spec(Some(&red), remove.as_deref(), own)) {
                    Err(e) => {
                        run.count("craft_errors", 1);
                        run.sample("craft-error", 3, json!({"kind": kind, "error": e}));
                    }
                    Ok((o, _)) => {
                        run.nontrivial(format!("forbidden|craft|{kind}|{removed}|{}", o.state));
                        run.sample("B:craft", 6, json!({"kind": kind, "ingredient": removed, "state": o.state, "failures": o.failure_codes()}));
                        if o.accepted() {
                            run.violation(&format!("forbidden|{kind}|craft-{removed}|accepted"), &format!("a claim listing the redaction {red} (ingredient assertion {removed}) reads {}", o.state), json!({"route": "craft", "kind": kind, "redaction": red, "remove_after_sign": remove}));
                        }
                    }
                }
            }
            // removal without a redaction entry, at the Claim API level
            for l in labels.iter() {
                run.eval();
                if let Ok((o, _)) = craft_read(&craft_spec(None, Some(l), false)) {
                    let k = if l.starts_with("c2pa.actions") { "actions" } else if l.starts_with("c2pa.hash") { "hash" } else if l.starts_with("c2pa.ingredient") { "ingredient" } else { "user" };
                    run.nontrivial(format!("unlisted-removal|craft|{k}|{}", o.state));
                    if o.accepted() {
                        run.violation(&format!("unlisted-removal|{k}|craft|accepted"), &format!("ingredient assertion {l} removed without redaction entry, store reads {}", o.state), json!({"route": "craft", "removed": l}));
                    }
                }
            }
        }
    }

    // ---- route C: post-hoc edits of a side-car store
    {
        let ch_i = chains.iter().position(|c| c.levels.len() == 1 && c.levels[0].targets.len() >= 4);
        if let Some(ci) = ch_i {
            let ch = &chains[ci];
            let signer = signers::test_signer("ed25519");
            let parent = &ch.levels[0];
            for with_redaction in [false, true] {
                let red_t = &parent.targets[0];
                let mut def = json!({"title": "c20 posthoc", "assertions": [{"label": "org.verif.own", "data": {"x": 1}}]});
                if with_redaction {
                    let u = uri(&parent.label, red_t);
                    def["redactions"] = json!([u]);
                    def["assertions"].as_array_mut().unwrap().push(json!({"label": "c2pa.actions", "data": {"actions": [{"action": "c2pa.redacted", "reason": "c2pa.PII.present", "parameters": {"redacted": u}}]}}));
                }
                let signed = report::catch_sdk(|| -> c2pa::Result<sg::Signed> {
                    let mut b = sg::builder(&json!({}), def.clone(), BuilderIntent::Edit)?;
                    b.set_no_embed(true);
                    sg::sign(&mut b, signer.as_ref(), ch.fmt, &parent.asset)
                });
                let Ok(Ok(s)) = signed else {
                    run.count("generator_failures", 1);
                    run.sample("generator-failure:sidecar", 2, json!(format!("{:?}", signed.map(|r| r.map(|_| ()).map_err(|e| format!("{e:?}"))))));
                    continue;
                };
                let read_sc = |store: &[u8]| report::catch_sdk(|| report::outcome_of(Reader::from_context(sg::context(&json!({}))).with_manifest_data_and_stream(store, ch.fmt, Cursor::new(s.asset.clone()))));
                let ctrl = read_sc(&s.store);
                run.eval();
                let ok = matches!(&ctrl, Ok(o) if o.accepted());
                run.nontrivial(format!("posthoc|control|redaction={with_redaction}|{}", ctrl.as_ref().map(|o| o.state.clone()).unwrap_or("Panic".into())));
                if !ok {
                    run.inconclusive(format!("post-hoc control (unedited side-car store, redaction={with_redaction}) not accepted: {:?}", ctrl.map(|o| (o.state.clone(), o.failure_codes()))));
                    continue;
                }
                let Some(root) = jumbf::parse_store(&s.store) else { continue };
                let mut all = Vec::new();
                root.walk(&mut all);
                // every assertion superbox of the *ingredient* manifest
                let boxes: Vec<&jumbf::JBox> = all.iter().cloned().filter(|b| &b.typ == b"jumb" && b.path.contains(&format!("{}/c2pa.assertions/", parent.label))).collect();
                let mut results: Vec<CRes> = Vec::new();
                for b in &boxes {
                    let lab = b.label.clone().unwrap_or_default();
                    let k = if lab.starts_with("c2pa.actions") { "actions" } else if lab.starts_with("c2pa.hash") { "hash" } else if lab.starts_with("c2pa.") { "c2pa-other" } else { "user" };
                    let content = b.children.iter().find(|c| &c.typ != b"jumd");
                    let mut edits: Vec<(&str, Vec<u8>)> = vec![("delete", sg::apply_edit(&s.store, &root, b.start, &Edit::Delete))];
                    if let Some(c) = content {
                        edits.push(("zero", sg::apply_edit(&s.store, &root, c.start, &Edit::ZeroPayload)));
                        let mut v = s.store.clone();
                        let p = c.payload_start() + (c.end() - c.payload_start()) / 2;
                        v[p] ^= 0x01;
                        edits.push(("alter", v));
                    }
                    for (ename, bytes) in edits {
                        let r = read_sc(&bytes);
                        let (state, fails) = match &r {
                            Ok(o) => (o.state.clone(), o.failure_codes()),
                            Err(p) => ("Panic".to_string(), vec![p.clone()]),
                        };
                        let accepted = state == "Valid" || state == "Trusted";
                        let v = if state == "Panic" {
                            Some((format!("posthoc|{k}|{ename}|panic"), format!("panic: {fails:?}")))
                        } else if accepted {
                            Some((format!("posthoc|{k}|{ename}|redaction-present={with_redaction}|accepted"), format!("{ename} of ingredient assertion {lab} without redaction entry reads {state}")))
                        } else {
                            None
                        };
                        results.push(CRes { class: format!("posthoc|{k}|{ename}|redaction={with_redaction}|{state}"), violation: v.map(|(a, b)| (a, format!("{b}; edited assertion {lab}"))), trivial: false });
                    }
                }
                for r in results {
                    run.eval();
                    if !r.trivial {
                        run.nontrivial(r.class.clone());
                    }
                    run.sample("C:posthoc", 3, json!({"class": r.class}));
                    if let Some((sig, what)) = &r.violation {
                        run.violation(sig, what, json!({"route": "posthoc", "class": r.class, "with_redaction": with_redaction}));
                    }
                }
            }
        } else {
            run.inconclusive("no depth-1 chain available for the post-hoc route");
        }
    }

    run.engine("release", true, json!({"threads": par::workers()}));
    run.finish(30);
}
