//! RIFF (Multimedia Programming Interface and Data Specifications 1.0) parser: one or more top-level
//! `RIFF` chunks (AVI 2.0 uses `RIFF AVIX` continuations), each `id(4) size(4 LE) form(4) children…`,
//! children `id size data [pad byte if size is odd]`, `LIST` chunks nest.  Well-formed = sizes of the
//! children add up exactly to the parent's size, pad bytes present, the top-level chunks cover the file.
//! The C2PA manifest store is the payload of a `C2PA` chunk that is a direct child of the first RIFF.
use super::{le32, sha, Container, Elem, Parsed};

#[derive(Clone, Debug)]
pub struct Chunk {
    pub id: [u8; 4],
    pub start: usize,
    /// declared size (without header and pad)
    pub size: usize,
    /// form/list type for RIFF/LIST
    pub form: Option<[u8; 4]>,
    pub children: Vec<Chunk>,
    pub padded: bool,
    /// LIST whose body could not be parsed as chunks (kept opaque)
    pub opaque: bool,
}

impl Chunk {
    pub fn total(&self) -> usize {
        8 + self.size + self.padded as usize
    }
    pub fn id_str(&self) -> String {
        String::from_utf8_lossy(&self.id).to_string()
    }
}

fn parse_children(data: &[u8], mut o: usize, end: usize, depth: usize, strict: bool) -> Result<Vec<Chunk>, String> {
    let mut out = Vec::new();
    while o < end {
        if end - o < 8 {
            return Err(format!("{} stray bytes at {o} inside a list", end - o));
        }
        let mut id = [0u8; 4];
        id.copy_from_slice(&data[o..o + 4]);
        let size = le32(data, o + 4).unwrap() as usize;
        let body_end = o.checked_add(8 + size).ok_or("overflow")?;
        if body_end > end {
            return Err(format!("chunk {} at {o} (size {size}) runs past its parent (end {end})", String::from_utf8_lossy(&id)));
        }
        let padded = size % 2 == 1;
        if padded && body_end + 1 > end {
            return Err(format!("chunk {} at {o} has odd size {size} but no pad byte", String::from_utf8_lossy(&id)));
        }
        let mut c = Chunk { id, start: o, size, form: None, children: vec![], padded, opaque: false };
        if (&id == b"LIST" || &id == b"RIFF") && size >= 4 {
            let mut f = [0u8; 4];
            f.copy_from_slice(&data[o + 8..o + 12]);
            c.form = Some(f);
            if depth < 16 {
                match parse_children(data, o + 12, body_end, depth + 1, false) {
                    Ok(k) => c.children = k,
                    Err(e) => {
                        if strict {
                            return Err(e);
                        }
                        c.opaque = true;
                    }
                }
            } else {
                c.opaque = true;
            }
        }
        o = body_end + padded as usize;
        out.push(c);
    }
    Ok(out)
}

/// Parses the top-level RIFF chunks.
pub fn chunks(data: &[u8]) -> Result<Vec<Chunk>, String> {
    if data.len() < 12 || &data[..4] != b"RIFF" {
        return Err("no RIFF header".into());
    }
    let mut out = Vec::new();
    let mut o = 0usize;
    while o < data.len() {
        if data.len() - o < 12 {
            return Err(format!("{} stray bytes after the last RIFF chunk", data.len() - o));
        }
        if &data[o..o + 4] != b"RIFF" {
            return Err(format!("top-level chunk at {o} is not RIFF"));
        }
        let size = le32(data, o + 4).unwrap() as usize;
        let end = o.checked_add(8 + size).ok_or("overflow")?;
        if end > data.len() {
            return Err(format!("RIFF size {size} at {o} runs past the end of the file ({})", data.len()));
        }
        if size < 4 {
            return Err("RIFF chunk too small for a form type".into());
        }
        let mut form = [0u8; 4];
        form.copy_from_slice(&data[o + 8..o + 12]);
        // direct children of a top-level RIFF must tile it exactly
        let children = parse_children(data, o + 12, end, 1, false)?;
        let padded = size % 2 == 1 && end < data.len();
        out.push(Chunk { id: *b"RIFF", start: o, size, form: Some(form), children, padded, opaque: false });
        o = end + padded as usize;
    }
    Ok(out)
}

pub fn parse(data: &[u8]) -> Result<Parsed, String> {
    let tops = chunks(data)?;
    let mut p = Parsed::default();
    for (ti, t) in tops.iter().enumerate() {
        p.elems.push(Elem::new(format!("RIFF:{}", String::from_utf8_lossy(&t.form.unwrap())), t.start, 12, t.start, 12));
        for c in &t.children {
            let mut e = Elem::new(
                match c.form {
                    Some(f) => format!("{}:{}", c.id_str(), String::from_utf8_lossy(&f)),
                    None => c.id_str(),
                },
                c.start,
                c.total(),
                c.start + 8,
                c.size,
            );
            if &c.id == b"C2PA" {
                e.is_c2pa = true;
                if ti == 0 {
                    p.containers.push(Container { ranges: vec![(c.start, c.total())], store: data[c.start + 8..c.start + 8 + c.size].to_vec(), store_ranges: vec![(c.start + 8, c.size)], encoded: false, label: "C2PA".into() });
                }
            }
            p.elems.push(e);
        }
        if t.padded {
            p.elems.push(Elem::new("pad", t.start + 8 + t.size, 1, t.start + 8 + t.size, 1));
        }
    }
    Ok(p)
}

fn sig_of(data: &[u8], c: &Chunk, path: &str, out: &mut Vec<(String, String)>) {
    let name = match c.form {
        Some(f) => format!("{path}/{}:{}", c.id_str(), String::from_utf8_lossy(&f)),
        None => format!("{path}/{}", c.id_str()),
    };
    if c.form.is_some() && !c.opaque {
        out.push((name.clone(), "list".into()));
        for k in &c.children {
            sig_of(data, k, &name, out);
        }
    } else {
        out.push((name, sha(&data[c.start + 8..c.start + 8 + c.size])));
    }
}

/// Media content: the chunk tree (ids, form types, payload digests) without the top-level `C2PA`
/// chunk and without the RIFF size field.
pub fn media_sig(data: &[u8]) -> Result<Vec<(String, String)>, String> {
    let tops = chunks(data)?;
    let mut out = Vec::new();
    for (ti, t) in tops.iter().enumerate() {
        let name = format!("RIFF{}:{}", ti, String::from_utf8_lossy(&t.form.unwrap()));
        out.push((name.clone(), "riff".into()));
        for k in &t.children {
            if &k.id == b"C2PA" {
                continue;
            }
            sig_of(data, k, "", &mut out);
        }
    }
    Ok(out)
}
