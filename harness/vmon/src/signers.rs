//! Test signers built from the repository's fixture keys, plus a configurable wrapper.
use crate::evidence::repo_root;
use c2pa::{create_signer, BoxedSigner, Signer, SigningAlg};
use std::sync::{Arc, Mutex};

pub const ALGS: &[(&str, SigningAlg)] = &[
    ("ed25519", SigningAlg::Ed25519),
    ("es256", SigningAlg::Es256),
    ("es384", SigningAlg::Es384),
    ("es512", SigningAlg::Es512),
    ("ps256", SigningAlg::Ps256),
    ("ps384", SigningAlg::Ps384),
    ("ps512", SigningAlg::Ps512),
];

pub fn certs_dir() -> std::path::PathBuf {
    repo_root().join("sdk/tests/fixtures/certs")
}

pub fn cert_pem(alg: &str) -> Vec<u8> {
    std::fs::read(certs_dir().join(format!("{alg}.pub"))).expect("fixture cert")
}

pub fn key_pem(alg: &str) -> Vec<u8> {
    std::fs::read(certs_dir().join(format!("{alg}.pem"))).expect("fixture key")
}

pub fn alg_by_name(name: &str) -> SigningAlg {
    ALGS.iter().find(|(n, _)| *n == name).map(|(_, a)| *a).expect("alg")
}

/// Signer over the fixture key/cert for `alg` ("ed25519", "es256", ... ), no TSA.
pub fn test_signer(alg: &str) -> BoxedSigner {
    create_signer::from_keys(&cert_pem(alg), &key_pem(alg), alg_by_name(alg), None).expect("signer")
}

/// PEM bundle of the fixture roots (the trust anchors that make the fixture signers Trusted).
pub fn trust_anchors_pem() -> String {
    std::fs::read_to_string(certs_dir().join("trust/test_cert_root_bundle.pem")).expect("trust bundle")
}

/// A wrapper that lets a monitor override reserve size, OCSP, TSA reply and record calls.
pub struct TestSigner {
    pub inner: BoxedSigner,
    pub reserve: Option<usize>,
    pub ocsp: Option<Vec<u8>>,
    pub tsa_url: Option<String>,
    pub tsa_reply: Option<Arc<dyn Fn(&[u8]) -> Option<c2pa::Result<Vec<u8>>> + Send + Sync>>,
    pub calls: Arc<Mutex<Vec<String>>>,
}

impl TestSigner {
    pub fn new(alg: &str) -> TestSigner {
        TestSigner {
            inner: test_signer(alg),
            reserve: None,
            ocsp: None,
            tsa_url: None,
            tsa_reply: None,
            calls: Arc::new(Mutex::new(Vec::new())),
        }
    }
    pub fn with_reserve(mut self, r: usize) -> Self {
        self.reserve = Some(r);
        self
    }
    fn log(&self, s: &str) {
        if let Ok(mut c) = self.calls.lock() {
            c.push(s.to_string());
        }
    }
}

impl Signer for TestSigner {
    fn sign(&self, data: &[u8]) -> c2pa::Result<Vec<u8>> {
        self.log("sign");
        self.inner.sign(data)
    }
    fn alg(&self) -> SigningAlg {
        self.inner.alg()
    }
    fn certs(&self) -> c2pa::Result<Vec<Vec<u8>>> {
        self.inner.certs()
    }
    fn reserve_size(&self) -> usize {
        self.reserve.unwrap_or_else(|| self.inner.reserve_size())
    }
    fn time_authority_url(&self) -> Option<String> {
        self.tsa_url.clone()
    }
    fn send_timestamp_request(&self, message: &[u8]) -> Option<c2pa::Result<Vec<u8>>> {
        self.log("send_timestamp_request");
        match &self.tsa_reply {
            Some(f) => f(message),
            None => None,
        }
    }
    fn ocsp_val(&self) -> Option<Vec<u8>> {
        self.log("ocsp_val");
        self.ocsp.clone()
    }
}
