//! C07 — embedding round trip: write / read / replace / remove manifest stores.
//!
//! Drives `c2pa::jumbf_io::{save_jumbf_to_stream, save_jumbf_to_memory, load_jumbf_from_stream,
//! load_jumbf_from_memory}` and the hook `verif_hooks::remove_jumbf_from_stream` through operation
//! sequences of length <= 4 over {write(S_i), remove} on tiny synthetic assets and fixtures in the
//! states {clean, already signed, with XMP}.  Judges with (a) byte equality of the loaded store and
//! (b) the independent container parsers of `vmon::fmt` (well-formedness, number of manifest
//! containers, independently extracted store bytes).
use serde_json::json;
use vmon::embedkit::{self as kit, Subject};
use vmon::{assets, fmt, par, Rng, Run};

#[derive(Clone, Debug)]
enum Op {
    /// (len, seed, fill, raw)
    Write(usize, u64, u8, bool),
    Remove,
}

#[derive(Clone, Debug)]
struct Case {
    subj: usize,
    ops: Vec<Op>,
    via_stream: bool,
}

#[derive(Default)]
struct Res {
    evals: u64,
    classes: Vec<String>,
    counters: Vec<(String, u64)>,
    /// (sig, what)
    violations: Vec<(String, String)>,
    /// write-step defect: (coarse defect, ctx, size class, step) — input of the witness minimiser
    wdefect: Option<(String, String, String, usize)>,
}

fn op_json(o: &Op) -> serde_json::Value {
    match o {
        Op::Write(l, s, f, r) => json!({"op": "write", "len": l, "seed": s, "fill": f, "raw": r}),
        Op::Remove => json!({"op": "remove"}),
    }
}

fn case_json(c: &Case, s: &Subject) -> serde_json::Value {
    json!({"asset": s.name, "format": s.format, "state": s.state, "origin": s.origin, "asset_len": s.bytes.len(), "via_stream": c.via_stream, "ops": c.ops.iter().map(op_json).collect::<Vec<_>>()})
}

fn store_for(o: &Op) -> (Vec<u8>, &'static str) {
    match o {
        Op::Write(l, s, f, raw) => {
            if *raw {
                (kit::raw_store(*l, *s), "raw")
            } else {
                kit::make_store(*l, *s, *f)
            }
        }
        Op::Remove => (vec![], "none"),
    }
}

fn dump(k: usize, bytes: &[u8]) {
    if let Ok(d) = std::env::var("C07_DUMP") {
        let _ = std::fs::create_dir_all(&d);
        let _ = std::fs::write(format!("{d}/step{k}.bin"), bytes);
    }
}

fn run_case(c: &Case, s: &Subject) -> Res {
    let mut r = Res::default();
    let fam = fmt::family(s.format).unwrap_or("?");
    let mut cur = s.bytes.clone();
    let p0 = match fmt::parse(s.format, &cur) {
        Ok(p) => p,
        Err(e) => {
            r.counters.push((format!("trivial:input-rejected-by-independent-parser:{}:{}", s.name, e.chars().take(60).collect::<String>()), 1));
            return r;
        }
    };
    let mut has = !p0.containers.is_empty();
    // what the previous step was, for the class string
    let mut prev = if has { "initial-manifest" } else { "no-manifest" };
    let mut sdk_made = false;
    for (k, op) in c.ops.iter().enumerate() {
        r.evals += 1;
        match op {
            Op::Write(len, ..) => {
                let (store, kind) = store_for(op);
                let ctx = match prev {
                    "no-manifest" => "first-write",
                    "initial-manifest" => "replace-initial",
                    "write" => "replace",
                    _ => "write-after-remove",
                };
                let sc = kit::size_class(*len);
                if kind == "raw" && kit::needs_jumbf_store(fam) {
                    r.counters.push((format!("trivial:non-jumbf-store-not-representable:{fam}"), 1));
                    return r;
                }
                let out = match kit::save(s.format, &cur, &store, c.via_stream) {
                    Ok(o) => o,
                    Err(e) if kit::is_panic(&e) => {
                        r.violations.push((format!("{fam}|panic-in-write|{sc}"), format!("step {k}: {e}")));
                        return r;
                    }
                    Err(e) => {
                        if sdk_made {
                            r.violations.push((format!("{fam}|write-error-on-own-output|{ctx}"), format!("step {k}: write({len}) on a file the SDK itself produced failed: {e}")));
                        } else if kind == "raw" {
                            r.counters.push((format!("trivial:non-jumbf-store-rejected:{fam}:{e}"), 1));
                        } else if s.origin == "tiny" && s.state != "layout" {
                            // the tiny assets are written by our own encoders from the format specs: valid by construction
                            r.violations.push((format!("{fam}|write-refused:{e}|{}", s.name), format!("step {k}: first write({len}) refused on a valid asset: {e}")));
                        } else {
                            r.counters.push((format!("unjudged:write-refused:{fam}:{}:{e}", s.name), 1));
                        }
                        return r;
                    }
                };
                if std::env::var("C07_DUMP").is_ok() {
                    dump(k + 100, &out);
                }
                let defect: Option<(String, String)> = (|| {
                    match kit::load(s.format, &out, !c.via_stream) {
                        Ok(b) if b == store => {}
                        Ok(b) => return Some(("readback-fails".to_string(), format!("load-mismatch: loaded {} bytes, wrote {} (first difference at {:?})", b.len(), store.len(), b.iter().zip(store.iter()).position(|(x, y)| x != y)))),
                        Err(e) if kit::is_panic(&e) => return Some(("panic-in-load".to_string(), e)),
                        Err(e) => return Some(("readback-fails".to_string(), format!("load after write failed: {e}"))),
                    }
                    let p = match fmt::parse(s.format, &out) {
                        Ok(p) => p,
                        Err(e) => return Some(("ill-formed-after-write".to_string(), format!("independent parser rejects the output: {e}"))),
                    };
                    if p.containers.len() != 1 {
                        return Some((format!("containers={}", p.containers.len().min(3)), format!("independent parser finds {} manifest containers after {ctx}", p.containers.len())));
                    }
                    if p.containers[0].store != store {
                        return Some(("readback-fails".to_string(), format!("independent-store-mismatch: container holds {} bytes != written {}", p.containers[0].store.len(), store.len())));
                    }
                    None
                })();
                if let Some((d, what)) = defect {
                    r.violations.push((format!("{fam}|{d}|{ctx}|{sc}"), format!("step {k} write({len},{kind}): {what}")));
                    r.wdefect = Some((d, ctx.to_string(), sc.to_string(), k));
                    return r;
                }
                r.classes.push(format!("{fam}|{}|{sc}|{kind}|{ctx}|ok", s.state));
                dump(k, &out);
                cur = out;
                has = true;
                prev = "write";
                sdk_made = true;
            }
            Op::Remove => {
                let ctx = match prev {
                    "no-manifest" | "remove" => "remove-nothing",
                    "initial-manifest" => "remove-initial",
                    _ => "remove-after-write",
                };
                let out = match kit::remove(s.format, &cur) {
                    Ok(o) => o,
                    Err(e) if kit::is_panic(&e) => {
                        r.violations.push((format!("{fam}|panic-in-remove"), format!("step {k}: {e}")));
                        return r;
                    }
                    Err(e) => {
                        if has {
                            r.violations.push((format!("{fam}|remove-error:{e}"), format!("step {k} ({ctx}): remove on an asset with a manifest failed: {e}")));
                        } else {
                            r.counters.push((format!("unjudged:remove-without-manifest-refused:{fam}:{e}"), 1));
                        }
                        return r;
                    }
                };
                let defect: Option<(String, String)> = (|| {
                    let p = match fmt::parse(s.format, &out) {
                        Ok(p) => p,
                        Err(e) => return Some(("ill-formed-after-remove".to_string(), format!("independent parser rejects the output: {e}"))),
                    };
                    if fam != "c2pa" && p.has_c2pa() {
                        return Some(("remove-leaves-container".to_string(), format!("{} manifest container(s) / {} C2PA element(s) still present ({} -> {} bytes)", p.containers.len(), p.elems.iter().filter(|e| e.is_c2pa).count(), cur.len(), out.len())));
                    }
                    match kit::load(s.format, &out, c.via_stream) {
                        Err(e) if e == "JumbfNotFound" => {}
                        Err(e) if kit::is_panic(&e) => return Some(("panic-in-load".to_string(), e)),
                        Err(e) => return Some((format!("load-after-remove:{e}"), format!("load after remove gave {e}, expected JumbfNotFound"))),
                        Ok(b) => {
                            if fam == "c2pa" && b.is_empty() {
                            } else {
                                return Some(("load-after-remove:Ok".to_string(), format!("load after remove returned {} bytes", b.len())));
                            }
                        }
                    }
                    // still accepted by the format handler: a fresh write must work and round-trip
                    if out.len() <= 400_000 && fam != "c2pa" {
                        let (st, _) = kit::make_store(77, 4242, 0);
                        match kit::save(s.format, &out, &st, false) {
                            Ok(o2) => match kit::load(s.format, &o2, false) {
                                Ok(b) if b == st => {}
                                other => return Some(("handler-misreads-after-remove".to_string(), format!("write+load on the stripped asset gave {:?}", other.map(|b| b.len())))),
                            },
                            Err(e) => return Some(("handler-rejects-after-remove".to_string(), format!("write on the stripped asset failed: {e}"))),
                        }
                    }
                    None
                })();
                if let Some((d, what)) = defect {
                    // removing nothing is only judged for "output still fine", same signature space
                    let _ = ctx;
                    r.violations.push((format!("{fam}|{d}"), format!("step {k} remove ({ctx}): {what}")));
                    return r;
                }
                r.classes.push(format!("{fam}|{}|-|-|{ctx}|ok", s.state));
                dump(k, &out);
                cur = out;
                has = false;
                prev = "remove";
                sdk_made = true;
            }
        }
    }
    r
}

/// Runs a case; for a write-step defect decides whether the step context and the store length belong
/// to the cause class (re-runs: the failing write alone on the same subject; the same ops with every
/// length set to 100) and builds the signature from what is left.
fn judge_case(c: &Case, subjects: &[Subject]) -> Res {
    let s = &subjects[c.subj];
    let mut r = run_case(c, s);
    if let Some((d, ctx, sc, k)) = r.wdefect.clone() {
        let fam = fmt::family(s.format).unwrap_or("?");
        let alone = Case { subj: c.subj, ops: vec![c.ops[k].clone()], via_stream: c.via_stream };
        let clean = subjects.iter().find(|x| x.name == s.name && x.state == "clean").unwrap_or(s);
        let any_ctx = run_case(&alone, clean).wdefect.map(|w| w.0 == d).unwrap_or(false);
        let resized = Case {
            subj: c.subj,
            ops: c.ops.iter().map(|o| if let Op::Write(_, sd, f, _) = o { Op::Write(100, *sd, *f, false) } else { Op::Remove }).collect(),
            via_stream: c.via_stream,
        };
        let any_size = run_case(&resized, s).wdefect.map(|w| w.0 == d).unwrap_or(false);
        let sig = format!("{fam}|{d}|{}|{}", if any_ctx { "any-ctx" } else { ctx.as_str() }, if any_size { "any-size" } else { sc.as_str() });
        if let Some(v) = r.violations.last_mut() {
            v.0 = sig;
        }
    }
    r
}

fn shapes(max_len: usize) -> Vec<Vec<bool>> {
    // true = write, false = remove
    let mut out = Vec::new();
    for l in 1..=max_len {
        for m in 0..(1u32 << l) {
            out.push((0..l).map(|i| m & (1 << i) != 0).collect());
        }
    }
    out
}

fn main() {
    let mut run = Run::from_args("C07", "exploration");
    vmon::report::quiet_panics();
    run.rule = "case = (asset in a state, op sequence of length <=4 over {write(S_i), remove}, API flavour). Every boundary store length is written once to every tiny subject ([W]) and as a replacement ([W,W]); every op shape (30) is run per subject with lengths drawn from the boundary pool; fixtures get a subset. A step counts as non-trivial when the SDK accepted the operation and all oracles were evaluated; distinct = (family, state, size class, store kind, step context).".into();
    run.assumptions = vec![
        "an asset is 'valid' when the independent parser of vmon::fmt accepts it; assets it rejects are skipped (trivial)".into(),
        "stores are JUMBF superboxes labelled c2pa with random filler (>= 50 bytes) or raw bytes; raw stores are not judged for jpeg/jxl, whose containers identify the manifest by its JUMBF description box".into(),
        "a first write refused by the SDK with an error is counted (unjudged:write-refused), not judged; an error on a file the SDK itself produced is a violation".into(),
        "SVG manifests must be canonical padded base64 (RFC 4648); PNG CRCs, RIFF sizes/pad bytes, JPEG APP11 Z/En/LBox consistency, TIFF offsets, ID3 sync-safe sizes, BMFF box tiling are required by the independent parser".into(),
    ];
    let quick = run.quick();
    let tiny = kit::extended_tiny_assets();
    let fixtures = assets::fixture_assets(run.tier.pick(450_000, 5_000_000));
    let mut subjects = kit::subjects(&tiny, "tiny", true);
    let n_tiny_subjects = subjects.len();
    subjects.extend(kit::subjects(&fixtures, "fixture", true));
    // layouts with a harness-written C2PA box behind the media
    for a in kit::hostile_bmff_assets() {
        subjects.push(Subject { name: a.name, format: a.format, state: "layout", origin: "tiny", bytes: a.bytes });
    }
    let sizes = kit::boundary_sizes(quick);
    let mut rng = Rng::new(run.seed, "c07");
    let mut cases: Vec<Case> = Vec::new();
    let all_shapes = shapes(4);
    for (si, s) in subjects.iter().enumerate() {
        let tiny_subject = s.origin == "tiny";
        let fam = fmt::family(s.format).unwrap_or("?");
        // 1. every boundary size: [W(n)] and [W(m), W(n)] and [W(n), R]
        let size_list: Vec<usize> = if tiny_subject {
            sizes.clone()
        } else {
            let k = run.tier.pick(10, 40);
            let mut v: Vec<usize> = (0..k).map(|_| *rng.pick(&sizes)).collect();
            v.extend([64000, 64001, 65535]);
            v
        };
        for (j, n) in size_list.iter().enumerate() {
            let seed = rng.next_u64() % 1_000_000;
            let fill = if j % 7 == 5 { 2 } else { 0 };
            cases.push(Case { subj: si, ops: vec![Op::Write(*n, seed, fill, false)], via_stream: j % 2 == 0 });
            if tiny_subject || j % 3 == 0 {
                let m = *rng.pick(&sizes);
                cases.push(Case { subj: si, ops: vec![Op::Write(m, seed + 1, 0, false), Op::Write(*n, seed, 0, false)], via_stream: j % 2 == 1 });
                cases.push(Case { subj: si, ops: vec![Op::Write(*n, seed, 0, false), Op::Remove], via_stream: j % 2 == 0 });
            }
        }
        // raw stores at a few lengths for the families whose container does not look into the store
        if !kit::needs_jumbf_store(fam) {
            for n in [1usize, 2, 3, 4, 7, 8, 255, 256, 65535, 65536] {
                cases.push(Case { subj: si, ops: vec![Op::Write(n, rng.next_u64() % 1_000_000, 0, true), Op::Write(n + 1, 5, 0, true), Op::Remove], via_stream: n % 2 == 0 });
            }
        }
        // 2. every op shape
        let reps = if tiny_subject { run.tier.pick(1, 24) } else { run.tier.pick(1, 3) };
        for sh in &all_shapes {
            if !tiny_subject && quick && sh.len() == 4 && rng.chance(2, 3) {
                continue;
            }
            for _ in 0..reps {
                let ops: Vec<Op> = sh
                    .iter()
                    .map(|w| {
                        if *w {
                            let n = if rng.chance(1, 4) { *rng.pick(&[64000usize, 64001, 65517, 65518, 65535, 65536, 128001]) } else { *rng.pick(&sizes) };
                            Op::Write(n.min(if tiny_subject { 300_000 } else { 70_000 }), rng.next_u64() % 1_000_000, 0, false)
                        } else {
                            Op::Remove
                        }
                    })
                    .collect();
                cases.push(Case { subj: si, ops, via_stream: rng.bool() });
            }
        }
    }

    if let Some(p) = run.replay.clone() {
        let v: serde_json::Value = serde_json::from_slice(&std::fs::read(&p).expect("replay file")).expect("json");
        let w = &v["witness"];
        let si = subjects.iter().position(|s| s.name == w["asset"].as_str().unwrap_or("") && s.state == w["state"].as_str().unwrap_or("")).expect("subject of the witness");
        let ops = w["ops"]
            .as_array()
            .unwrap()
            .iter()
            .map(|o| if o["op"] == "remove" { Op::Remove } else { Op::Write(o["len"].as_u64().unwrap() as usize, o["seed"].as_u64().unwrap(), o["fill"].as_u64().unwrap() as u8, o["raw"].as_bool().unwrap()) })
            .collect();
        let c = Case { subj: si, ops, via_stream: w["via_stream"].as_bool().unwrap_or(false) };
        let r = judge_case(&c, &subjects);
        println!("replay: classes={:?} violations={:?}", r.classes, r.violations);
        std::process::exit(if r.violations.is_empty() { 0 } else { 1 });
    }

    let results = par::par_map(cases.len(), |i| judge_case(&cases[i], &subjects));
    let mut seen_sig_subject: std::collections::BTreeSet<(String, String)> = Default::default();
    for (i, r) in results.iter().enumerate() {
        let s = &subjects[cases[i].subj];
        run.evals(r.evals);
        for c in &r.classes {
            run.nontrivial(c.clone());
        }
        for (k, n) in &r.counters {
            run.count(k, *n);
        }
        if !r.classes.is_empty() {
            let kind = format!("{}:{}", fmt::family(s.format).unwrap_or("?"), cases[i].ops.len());
            run.sample(&kind, 1, case_json(&cases[i], s));
        }
        for (sig, what) in &r.violations {
            if seen_sig_subject.insert((sig.clone(), s.name.clone())) {
                run.count(&format!("violating-subjects:{sig}"), 1);
            }
            run.violation(sig, &format!("{} [{} {}]: {}", s.name, s.format, s.state, what), case_json(&cases[i], s));
        }
    }
    run.set("subjects", json!(subjects.len()));
    run.set("tiny_subjects", json!(n_tiny_subjects));
    run.set("cases", json!(cases.len()));
    run.set("boundary_sizes", json!(sizes));
    let mut by_state: std::collections::BTreeMap<String, usize> = Default::default();
    for s in &subjects {
        *by_state.entry(format!("{}:{}", fmt::family(s.format).unwrap_or("?"), s.state)).or_insert(0) += 1;
    }
    run.set("subjects_by_family_state", json!(by_state));
    run.engine("release", true, json!({"threads": par::workers()}));
    run.finish(60);
}
