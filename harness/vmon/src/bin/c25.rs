//! C25 — settings updates follow JSON-merge semantics and fail atomically.
//!
//! Drives (public API only): `Settings::new/with_json/with_toml/update_from_str/with_value/set_value/
//! get_value` and the deprecated thread-local reader `Settings::to_toml` (only to observe that
//! instance methods leave the thread-local configuration alone).
//!
//! Oracle:
//!  * overlay: expected = deserialize(merge_ref(serialize(S), D)) where `merge_ref` is the harness's own
//!    recursive merge (objects key by key, anything else replaces) and (de)serialisation goes through
//!    the public serde impls of `Settings`.  SDK Ok(R) must equal the expectation; SDK Ok where the
//!    merged document does not deserialise is a violation; SDK Err where it does is accepted only if
//!    the *complete* expected document is also refused when laid over the defaults (i.e. validation
//!    refuses it consistently) — otherwise "valid merge rejected".
//!  * path: `S.with_value(p, v)` Ok(R)  =>  `R.get_value(p)` equals v up to an explicit, counted
//!    normalisation table (enum case folding, 5 vs 5.0, null == absent, object value contained in the
//!    completed object).
//!  * atomicity: after a failing `update_from_str` / `set_value` the receiver equals its old value;
//!    the mutating forms agree with the builder forms.
//!  * equivalent JSON and TOML documents (rendered by the harness's own toml crate) give equal results.
//!  * the thread-local configuration is byte-identical before and after every batch of instance calls.
use c2pa::settings::Settings;
use serde_json::{json, Map, Value};
use std::collections::BTreeMap;
use vmon::{par, report, Rng, Run};

// ---------- reference model ----------

fn merge_ref(target: &mut Value, overlay: &Value) {
    match (target, overlay) {
        (Value::Object(t), Value::Object(o)) => {
            for (k, ov) in o {
                match t.get_mut(k) {
                    Some(tv) => merge_ref(tv, ov),
                    None => {
                        t.insert(k.clone(), ov.clone());
                    }
                }
            }
        }
        (t, o) => *t = o.clone(),
    }
}

fn to_v(s: &Settings) -> Value {
    serde_json::to_value(s).expect("Settings serialises")
}

fn json_to_toml(v: &Value) -> Option<toml::Value> {
    Some(match v {
        Value::Null => return None,
        Value::Bool(b) => toml::Value::Boolean(*b),
        Value::Number(n) => {
            if let Some(i) = n.as_i64() {
                toml::Value::Integer(i)
            } else if n.is_u64() {
                return None;
            } else {
                let f = n.as_f64()?;
                if !f.is_finite() {
                    return None;
                }
                toml::Value::Float(f)
            }
        }
        Value::String(s) => toml::Value::String(s.clone()),
        Value::Array(a) => toml::Value::Array(a.iter().map(json_to_toml).collect::<Option<Vec<_>>>()?),
        Value::Object(o) => {
            let mut t = toml::Table::new();
            for (k, x) in o {
                t.insert(k.clone(), json_to_toml(x)?);
            }
            toml::Value::Table(t)
        }
    })
}

/// TOML text equivalent to the JSON document, if one exists (top level must be a table, no nulls,
/// integers within i64) and our own toml crate reads it back to the same document.
fn toml_text(doc: &Value) -> Option<String> {
    if !doc.is_object() {
        return None;
    }
    let t = json_to_toml(doc)?;
    let text = toml::to_string(&t).ok()?;
    let back: toml::Value = toml::from_str(&text).ok()?;
    if back != t {
        return None;
    }
    // floats must survive as the same JSON number
    let back_json = serde_json::to_value(&back).ok()?;
    if &back_json != doc {
        return None;
    }
    Some(text)
}

// ---------- schema learnt from the live defaults ----------

#[derive(Clone)]
struct Leaf {
    path: String,
    pool: Vec<Value>,
}

struct Schema {
    leaves: Vec<Leaf>,
    objects: Vec<(String, Value)>,
    by_key: BTreeMap<String, Vec<Value>>,
}

fn walk(v: &Value, prefix: &str, leaves: &mut BTreeMap<String, Vec<Value>>, objects: &mut BTreeMap<String, Value>) {
    match v {
        Value::Object(m) if !m.is_empty() || prefix.is_empty() => {
            if !prefix.is_empty() {
                objects.entry(prefix.to_string()).or_insert_with(|| v.clone());
            }
            for (k, x) in m {
                let p = if prefix.is_empty() { k.clone() } else { format!("{prefix}.{k}") };
                walk(x, &p, leaves, objects);
            }
        }
        other => {
            let e = leaves.entry(prefix.to_string()).or_default();
            if !e.contains(other) {
                e.push(other.clone());
            }
        }
    }
}

fn learn_schema(docs: &[Value]) -> Schema {
    let mut leaves = BTreeMap::new();
    let mut objects = BTreeMap::new();
    for d in docs {
        walk(d, "", &mut leaves, &mut objects);
    }
    // a path that is an object in one document and a leaf (null) in another is kept as both
    let mut by_key: BTreeMap<String, Vec<Value>> = BTreeMap::new();
    for (p, pool) in &leaves {
        let k = p.rsplit('.').next().unwrap_or(p).to_string();
        for v in pool {
            if !v.is_null() {
                let e = by_key.entry(k.clone()).or_default();
                if !e.contains(v) && e.len() < 6 {
                    e.push(v.clone());
                }
            }
        }
    }
    Schema { leaves: leaves.into_iter().map(|(path, pool)| Leaf { path, pool }).collect(), objects: objects.into_iter().collect(), by_key }
}

fn type_name(v: &Value) -> &'static str {
    match v {
        Value::Null => "null",
        Value::Bool(_) => "bool",
        Value::Number(n) if n.is_f64() => "float",
        Value::Number(_) => "int",
        Value::String(_) => "string",
        Value::Array(_) => "array",
        Value::Object(_) => "object",
    }
}

/// (value, value class)
fn gen_value(rng: &mut Rng, leaf: &Leaf, schema: &Schema) -> (Value, &'static str) {
    let cur = rng.pick(&leaf.pool).clone();
    let typed: Vec<&Value> = leaf.pool.iter().filter(|v| !v.is_null()).collect();
    let key = leaf.path.rsplit('.').next().unwrap_or("");
    match rng.below(16) {
        0..=6 => {
            // same type as a value seen at this path (or at a key of the same name)
            let base = if !typed.is_empty() { (*rng.pick(&typed)).clone() } else if let Some(p) = schema.by_key.get(key) { rng.pick(p).clone() } else { cur.clone() };
            match &base {
                Value::Bool(b) => (Value::Bool(if rng.bool() { !*b } else { *b }), "valid-type"),
                Value::Number(n) if n.is_f64() => (json!(rng.below(100) as f64 / 4.0), "valid-type"),
                Value::Number(n) => {
                    let x = n.as_u64().unwrap_or(1);
                    (json!(*rng.pick(&[0u64, 1, 2, 5, 10, 32, 100, 1000, x, x + 1, x.saturating_sub(1)])), "valid-type")
                }
                Value::String(s) => {
                    if s.len() < 40 && rng.chance(1, 3) {
                        (Value::String(s.to_uppercase()), "case-variant")
                    } else if rng.chance(1, 6) {
                        (Value::String(format!("{}x", &s[..s.len().min(20)])), "other-string")
                    } else {
                        (base.clone(), "valid-type")
                    }
                }
                Value::Array(a) => {
                    let mut a = a.clone();
                    if rng.bool() && !a.is_empty() {
                        a.pop();
                    }
                    (Value::Array(a), "valid-type")
                }
                Value::Null => (*rng.pick(&[&json!("text"), &json!(7), &json!(true), &json!(["a", "b"]), &json!({"name": "x"})])).clone().pipe(|v| (v, "guess-for-optional")),
                Value::Object(_) => (base.clone(), "valid-type"),
            }
        }
        7 | 8 => (Value::Null, "null"),
        9 | 10 => {
            let wrong = match type_name(&cur) {
                "bool" => json!("true"),
                "int" | "float" => json!("12"),
                "string" => json!(17),
                "array" => json!("not-an-array"),
                _ => json!([1, "a"]),
            };
            (wrong, "wrong-type")
        }
        11 => ((*rng.pick(&[&json!(u64::MAX), &json!(i64::MIN), &json!(-1), &json!(1e30), &json!(4294967296u64), &json!(1.5)])).clone(), "extreme-number"),
        12 => ((*rng.pick(&[&json!([]), &json!([1, "a", null]), &json!(["x"])])).clone(), "array"),
        13 => (json!({"unexpected": {"nested": 1}}), "object-for-leaf"),
        _ => (cur, "current-value"),
    }
}

trait Pipe: Sized {
    fn pipe<R>(self, f: impl FnOnce(Self) -> R) -> R {
        f(self)
    }
}
impl<T> Pipe for T {}

fn nest(path: &str, v: Value) -> Value {
    let mut out = v;
    for seg in path.rsplit('.') {
        let mut m = Map::new();
        m.insert(seg.to_string(), out);
        out = Value::Object(m);
    }
    out
}

struct Doc {
    value: Value,
    /// value classes present
    classes: Vec<&'static str>,
    /// structural classes present
    shapes: Vec<&'static str>,
}

/// A document made only of values of the type already seen at the path (3..=6 leaves).
fn gen_valid_doc(rng: &mut Rng, schema: &Schema) -> Doc {
    let mut doc = Value::Object(Map::new());
    let mut classes = Vec::new();
    let k = 3 + rng.usize(4);
    for _ in 0..k {
        let leaf = rng.pick(&schema.leaves);
        let typed: Vec<&Value> = leaf.pool.iter().filter(|v| !v.is_null()).collect();
        if typed.is_empty() {
            continue;
        }
        let v = match *rng.pick(&typed) {
            Value::Bool(b) => Value::Bool(if rng.chance(2, 3) { !*b } else { *b }),
            Value::Number(n) if !n.is_f64() => json!(n.as_u64().unwrap_or(1).saturating_add(rng.below(3))),
            Value::String(s) if s.len() < 40 && rng.chance(1, 4) => Value::String(s.to_uppercase()),
            other => other.clone(),
        };
        merge_ref(&mut doc, &nest(&leaf.path, v));
        classes.push("valid-type");
    }
    classes.dedup();
    Doc { value: doc, classes, shapes: vec!["schema-leaf", "all-valid-types"] }
}

fn gen_doc(rng: &mut Rng, schema: &Schema) -> Doc {
    let mut doc = Value::Object(Map::new());
    let mut classes = Vec::new();
    let mut shapes = Vec::new();
    if rng.chance(2, 5) {
        return gen_valid_doc(rng, schema);
    }
    match rng.below(40) {
        0 => {
            // not an object at the top
            let v = (*rng.pick(&[&json!(null), &json!([1, 2]), &json!("text"), &json!(5), &json!(true)])).clone();
            return Doc { value: v, classes: vec!["top-level-scalar"], shapes: vec!["top-nonobject"] };
        }
        1 => return Doc { value: json!({}), classes: vec!["empty"], shapes: vec!["empty-doc"] },
        _ => {}
    }
    let k = 1 + rng.usize(5);
    for _ in 0..k {
        let leaf = rng.pick(&schema.leaves);
        let (v, c) = gen_value(rng, leaf, schema);
        merge_ref(&mut doc, &nest(&leaf.path, v));
        classes.push(c);
        shapes.push("schema-leaf");
    }
    if rng.chance(1, 5) {
        let (p, _) = rng.pick(&schema.objects);
        let key = *rng.pick(&["zz_unknown", "", "Verify", "enabled "]);
        merge_ref(&mut doc, &nest(&format!("{p}.{key}"), json!({"a": [1, 2], "b": null})));
        shapes.push("unknown-key");
    }
    if rng.chance(1, 8) {
        merge_ref(&mut doc, &nest(*rng.pick(&["zz_top", "Version", "builder2"]), json!(1)));
        shapes.push("unknown-key");
    }
    if rng.chance(1, 10) {
        let leaf = rng.pick(&schema.leaves);
        merge_ref(&mut doc, &nest(&format!("{}.inner", leaf.path), json!(1)));
        shapes.push("through-scalar");
    }
    if rng.chance(1, 12) {
        let (p, _) = rng.pick(&schema.objects);
        merge_ref(&mut doc, &nest(p, (*rng.pick(&[&json!(null), &json!(3), &json!("s"), &json!([])])).clone()));
        shapes.push("section-replaced-by-scalar");
    }
    if rng.chance(1, 25) {
        let depth = *rng.pick(&[60usize, 64, 65, 70, 120, 126, 127, 129, 200]);
        let mut v = json!(1);
        for _ in 0..depth {
            v = json!({ "d": v });
        }
        let (p, _) = rng.pick(&schema.objects);
        merge_ref(&mut doc, &nest(&format!("{p}.zz_deep"), v));
        shapes.push("deep-nesting");
    }
    if rng.chance(1, 15) {
        merge_ref(&mut doc, &json!({"version": *rng.pick(&[0u64, 1, 2, 99, u32::MAX as u64, u32::MAX as u64 + 1])}));
        shapes.push("version");
    }
    classes.sort();
    classes.dedup();
    shapes.sort();
    shapes.dedup();
    Doc { value: doc, classes, shapes }
}

// ---------- judging ----------

#[derive(Default)]
struct Out {
    evals: u64,
    classes: BTreeMap<String, u64>,
    counters: BTreeMap<String, u64>,
    /// sig -> (what, witness, size, count)
    violations: BTreeMap<String, (String, Value, usize, u64)>,
    samples: Vec<(String, Value)>,
}

impl Out {
    fn bump(&mut self, k: &str) {
        *self.counters.entry(k.to_string()).or_insert(0) += 1;
    }
    fn class(&mut self, k: String) {
        *self.classes.entry(k).or_insert(0) += 1;
    }
    fn violation(&mut self, sig: String, what: String, wit: Value) {
        let size = wit.to_string().len();
        match self.violations.get_mut(&sig) {
            Some(e) => {
                e.3 += 1;
                if size < e.2 {
                    *e = (what, wit, size, e.3);
                }
            }
            None => {
                self.violations.insert(sig, (what, wit, size, 1));
            }
        }
    }
    fn sample(&mut self, kind: &str, v: Value) {
        if self.samples.iter().filter(|s| s.0 == kind).count() < 1 && v.to_string().len() < 1500 {
            self.samples.push((kind.to_string(), v));
        }
    }
    fn merge(&mut self, o: Out) {
        self.evals += o.evals;
        for (k, v) in o.classes {
            *self.classes.entry(k).or_insert(0) += v;
        }
        for (k, v) in o.counters {
            *self.counters.entry(k).or_insert(0) += v;
        }
        for (sig, (w, wit, sz, n)) in o.violations {
            match self.violations.get_mut(&sig) {
                Some(e) => {
                    e.3 += n;
                    if sz < e.2 {
                        *e = (w, wit, sz, e.3);
                    }
                }
                None => {
                    self.violations.insert(sig, (w, wit, sz, n));
                }
            }
        }
        for s in o.samples {
            if self.samples.iter().filter(|x| x.0 == s.0).count() < 2 {
                self.samples.push(s);
            }
        }
    }
}

fn first_diff(a: &Value, b: &Value, path: String) -> Option<String> {
    match (a, b) {
        (Value::Object(x), Value::Object(y)) => {
            for (k, xv) in x {
                let p = if path.is_empty() { k.clone() } else { format!("{path}.{k}") };
                match y.get(k) {
                    Some(yv) => {
                        if let Some(d) = first_diff(xv, yv, p) {
                            return Some(d);
                        }
                    }
                    None => return Some(p),
                }
            }
            for k in y.keys() {
                if !x.contains_key(k) {
                    return Some(if path.is_empty() { k.clone() } else { format!("{path}.{k}") });
                }
            }
            None
        }
        _ => {
            if a == b {
                None
            } else {
                Some(path)
            }
        }
    }
}

fn get_path<'a>(v: &'a Value, path: &str) -> Option<&'a Value> {
    let mut cur = v;
    for seg in path.split('.') {
        cur = cur.as_object()?.get(seg)?;
    }
    Some(cur)
}

fn short(v: &Value) -> Value {
    // witnesses: shorten long strings (PEM bundles) so that replay files stay readable
    match v {
        Value::String(s) if s.len() > 120 => Value::String(format!("{}…[{} bytes]", &s[..60], s.len())),
        Value::Array(a) => Value::Array(a.iter().map(short).collect()),
        Value::Object(o) => Value::Object(o.iter().map(|(k, x)| (k.clone(), short(x))).collect()),
        o => o.clone(),
    }
}

fn kind_of_path(schema: &Schema, p: &str) -> &'static str {
    if schema.leaves.iter().any(|l| l.path == p) {
        "schema-leaf"
    } else if schema.objects.iter().any(|o| o.0 == p) {
        "schema-section"
    } else {
        "unknown-path"
    }
}

type SdkRes = Result<Result<Settings, String>, String>;

fn call(f: impl FnOnce() -> c2pa::Result<Settings>) -> SdkRes {
    report::catch_sdk(|| f().map_err(|e| e.to_string()))
}

struct Ctx<'a> {
    schema: &'a Schema,
    base_name: &'static str,
}

/// One overlay step.  Returns the next state (the SDK's result when it is judged equal to the model).
fn overlay_step(cx: &Ctx, s: &Settings, doc: &Doc, use_toml: bool, out: &mut Out) -> Option<Settings> {
    let json_text = doc.value.to_string();
    let toml = toml_text(&doc.value);
    let (fmt, text) = match (&toml, use_toml) {
        (Some(t), true) => ("toml", t.clone()),
        _ => ("json", json_text.clone()),
    };
    let api = if fmt == "toml" { "with_toml" } else { "with_json" };
    let shape = doc.shapes.join("+");
    let vclass = doc.classes.join("+");
    let wit = |extra: Value| json!({"op": "overlay", "base": cx.base_name, "format": fmt, "document": short(&doc.value), "detail": extra, "document_full": doc.value, "state_before": to_v(s)});
    // --- model
    let parsed_ok = if fmt == "json" { serde_json::from_str::<Value>(&text).is_ok() } else { toml::from_str::<toml::Value>(&text).is_ok() };
    let mut merged = to_v(s);
    merge_ref(&mut merged, &doc.value);
    let expected: Result<Settings, String> = if !parsed_ok { Err("document does not parse".into()) } else { serde_json::from_value::<Settings>(merged).map_err(|e| e.to_string()) };
    // --- SDK
    out.evals += 1;
    let r1 = call(|| if fmt == "toml" { s.with_toml(&text) } else { s.with_json(&text) });
    let r1 = match r1 {
        Ok(r) => r,
        Err(p) => {
            out.violation(format!("{api}|{shape}|{vclass}|panic"), format!("panic: {p}"), wit(json!(null)));
            return None;
        }
    };
    let mut next = None;
    match (&r1, &expected) {
        (Ok(r), Ok(e)) => {
            if r == e && to_v(r) == to_v(e) {
                out.class(format!("{api}|{}|{shape}|{vclass}|ok-equals-merge-model", cx.base_name));
                out.sample("overlay-ok", json!({"base": cx.base_name, "format": fmt, "document": short(&doc.value)}));
                next = Some(r.clone());
            } else {
                let d = first_diff(&to_v(r), &to_v(e), String::new()).unwrap_or_default();
                let in_doc = get_path(&doc.value, &d);
                out.violation(
                    format!("{api}|{}|{}|result-differs-from-merge", kind_of_path(cx.schema, &d), in_doc.map(type_name).unwrap_or("absent-from-overlay")),
                    format!("{api}: result differs from merge(current, document) at '{d}': got {} want {}", get_path(&to_v(r), &d).map(|v| short(v).to_string()).unwrap_or("<absent>".into()), get_path(&to_v(e), &d).map(|v| short(v).to_string()).unwrap_or("<absent>".into())),
                    wit(json!({"path": d})),
                );
            }
        }
        (Ok(_), Err(why)) => {
            out.violation(format!("{api}|{shape}|{vclass}|undeserialisable-merge-accepted"), format!("{api} returned Ok although merge(current, document) is not a valid Settings document: {why}"), wit(json!({"why": why})));
        }
        (Err(sdk_err), Ok(e)) => {
            // refused: is the complete expected document refused as well (validation)?
            out.evals += 1;
            let full = to_v(e).to_string();
            match call(|| Settings::new().with_json(&full)) {
                Ok(Err(_)) => {
                    out.class(format!("{api}|{}|{shape}|{vclass}|refused-consistently(validation)", cx.base_name));
                    out.bump("refused_by_validation");
                    out.sample("overlay-refused-by-validation", json!({"document": short(&doc.value), "error": sdk_err}));
                }
                Ok(Ok(_)) => out.violation(format!("{api}|{shape}|{vclass}|valid-merge-rejected"), format!("{api} failed ({sdk_err}) but the merged document is accepted when given as a whole"), wit(json!({"error": sdk_err}))),
                Err(p) => out.violation(format!("{api}|{shape}|{vclass}|panic"), format!("panic: {p}"), wit(json!(null))),
            }
        }
        (Err(_), Err(_)) => {
            out.class(format!("{api}|{}|{shape}|{vclass}|err-as-model", cx.base_name));
            out.sample("overlay-err", json!({"base": cx.base_name, "format": fmt, "document": short(&doc.value), "model": expected.as_ref().err()}));
        }
    }
    // --- mutating form: agreement + atomicity
    out.evals += 1;
    let mut s2 = s.clone();
    match report::catch_sdk(|| s2.update_from_str(&text, fmt).map_err(|e| e.to_string())) {
        Err(p) => out.violation(format!("update_from_str|{shape}|{vclass}|panic"), format!("panic: {p}"), wit(json!(null))),
        Ok(Ok(())) => match &r1 {
            Ok(r) if *r == s2 => out.class(format!("update_from_str|{}|{shape}|ok-same-as-{api}", cx.base_name)),
            Ok(_) => out.violation(format!("update_from_str|{shape}|{vclass}|differs-from-{api}"), "update_from_str and the builder form give different settings".into(), wit(json!(null))),
            Err(e) => out.violation(format!("update_from_str|{shape}|{vclass}|ok-where-{api}-fails"), format!("update_from_str succeeded, {api} failed: {e}"), wit(json!(null))),
        },
        Ok(Err(e)) => {
            if s2 != *s || to_v(&s2) != to_v(s) {
                let d = first_diff(&to_v(&s2), &to_v(s), String::new()).unwrap_or_default();
                out.violation(format!("update_from_str|{}|{vclass}|not-atomic", kind_of_path(cx.schema, &d)), format!("update_from_str failed ({e}) but changed the receiver at '{d}'"), wit(json!({"path": d})));
            } else if r1.is_ok() {
                out.violation(format!("update_from_str|{shape}|{vclass}|fails-where-{api}-ok"), format!("update_from_str failed ({e}) where {api} succeeded"), wit(json!(null)));
            } else {
                out.class(format!("update_from_str|{}|{shape}|{vclass}|err-receiver-unchanged", cx.base_name));
                out.bump("atomicity_checks_on_failed_update_from_str");
            }
            // the legacy thread-local form of the same update (Settings::from_string, which the C API's
            // c2pa_load_settings uses): on a fresh thread, a refused document must leave the
            // thread-local settings as they were
            let (t2, f2) = (text.clone(), fmt.to_string());
            let r = std::thread::spawn(move || {
                let before = thread_local_snapshot();
                #[allow(deprecated)]
                let r = report::catch_sdk(|| Settings::from_string(&t2, &f2).map(|_| ()).map_err(|e| e.to_string()));
                (before, r, thread_local_snapshot())
            })
            .join();
            if let Ok((before, r, after)) = r {
                out.evals += 1;
                match r {
                    Err(p) => out.violation(format!("legacy-from_string|{shape}|{vclass}|panic"), format!("panic: {p}"), wit(json!(null))),
                    Ok(Err(e)) if before != after => out.violation(format!("legacy-from_string|{shape}|{vclass}|not-atomic"), format!("Settings::from_string failed ({e}) but changed the thread-local settings"), wit(json!({"before": before, "after": after}))),
                    Ok(Err(_)) => {
                        out.class(format!("legacy-from_string|{shape}|{vclass}|err-thread-local-unchanged"));
                        out.bump("atomicity_checks_on_failed_legacy_from_string");
                    }
                    Ok(Ok(())) => out.bump("legacy_from_string_accepts_on_defaults"),
                }
            }
        }
    }
    // --- the other format
    if let Some(t) = &toml {
        out.evals += 1;
        let (other_api, r3) = if fmt == "json" { ("with_toml", call(|| s.with_toml(t))) } else { ("with_json", call(|| s.with_json(&json_text))) };
        match (r3, &r1) {
            (Err(p), _) => out.violation(format!("{other_api}|{shape}|{vclass}|panic"), format!("panic: {p}"), wit(json!({"toml": t}))),
            (Ok(Ok(a)), Ok(b)) if a == *b => {
                out.class(format!("json-vs-toml|{}|{shape}|{vclass}|equal", cx.base_name));
                out.sample("json-vs-toml", json!({"json": short(&doc.value), "toml": if t.len() < 600 { json!(t) } else { json!("(long)") }}));
            }
            (Ok(Err(_)), Err(_)) => out.class(format!("json-vs-toml|{}|{shape}|{vclass}|both-err", cx.base_name)),
            (Ok(a), b) => {
                let d = match (&a, b) {
                    (Ok(x), Ok(y)) => first_diff(&to_v(x), &to_v(y), String::new()).unwrap_or_default(),
                    _ => "(one fails)".into(),
                };
                let tn = get_path(&doc.value, &d).map(type_name).unwrap_or("-");
                out.violation(format!("json-vs-toml|{}|{tn}|results-differ", if d.starts_with('(') { "ok-vs-err" } else { kind_of_path(cx.schema, &d) }), format!("equivalent JSON and TOML documents give different results at {d}: json-side {:?} toml-side {:?}", b.as_ref().map(|_| "Ok").map_err(|e| e.clone()), a.as_ref().map(|_| "Ok").map_err(|e| e.clone())), wit(json!({"toml": t, "path": d})));
            }
        }
    } else {
        out.bump("toml_not_representable");
    }
    next
}

/// v (what was set) against what reading returns, up to the documented/explicit normalisations.
fn norm_eq(v: &Value, got: &Value, norms: &mut Vec<&'static str>) -> bool {
    match (v, got) {
        (Value::Null, Value::Null) => true,
        (Value::Bool(a), Value::Bool(b)) => a == b,
        (Value::Number(a), Value::Number(b)) => {
            if a == b {
                true
            } else if a.as_f64() == b.as_f64() {
                norms.push("int-vs-float");
                true
            } else {
                false
            }
        }
        (Value::String(a), Value::String(b)) => {
            if a == b {
                true
            } else if a.to_lowercase() == b.to_lowercase() {
                norms.push("enum-case-folding");
                true
            } else {
                false
            }
        }
        (Value::Array(a), Value::Array(b)) => a.len() == b.len() && a.iter().zip(b).all(|(x, y)| norm_eq(x, y, norms)),
        (Value::Object(a), Value::Object(b)) => {
            if b.len() > a.len() {
                norms.push("object-completed-with-defaults");
            }
            a.iter().all(|(k, x)| match b.get(k) {
                Some(y) => norm_eq(x, y, norms),
                None => {
                    if x.is_null() {
                        norms.push("null-is-absent");
                        true
                    } else {
                        false
                    }
                }
            })
        }
        _ => false,
    }
}

fn path_step(cx: &Ctx, s: &Settings, path: &str, v: &Value, pclass: &'static str, vclass: &'static str, out: &mut Out) -> Option<Settings> {
    let note = if pclass == "degenerate-path" { "degenerate path (empty segment); the same defect shows with any key that is not in the schema, e.g. 'core.zz_unknown' — such a witness is preferred when both occur, hence this long note" } else { "" };
    let wit = |extra: Value| json!({"op": "path", "base": cx.base_name, "path": path, "value": short(v), "detail": extra, "value_full": v, "state_before": to_v(s), "note": note});
    out.evals += 1;
    let r1 = match call(|| s.with_value(path, v.clone())) {
        Ok(r) => r,
        Err(p) => {
            out.violation(format!("with_value|{pclass}|{vclass}|panic"), format!("panic: {p}"), wit(json!(null)));
            return None;
        }
    };
    let mut next = None;
    match &r1 {
        Ok(r) => {
            out.evals += 1;
            let got = report::catch_sdk(|| r.get_value::<Value>(path).map_err(|e| e.to_string()));
            let mut norms = Vec::new();
            match got {
                Err(p) => out.violation(format!("get_value|{pclass}|{vclass}|panic"), format!("panic: {p}"), wit(json!(null))),
                Ok(Ok(g)) if norm_eq(v, &g, &mut norms) => {
                    // "object completed with defaults" must really be *defaults*: the members the caller did not
                    // supply may not depend on what was stored at the path before (metamorphic check against the
                    // same call on fresh default settings)
                    if norms.contains(&"object-completed-with-defaults") {
                        if let Ok(Ok(fresh)) = report::catch_sdk(|| Settings::new().with_value(path, v.clone()).and_then(|f| f.get_value::<Value>(path))) {
                            if let (Value::Object(vo), Value::Object(go), Value::Object(fo)) = (v, &g, &fresh) {
                                let differs: Vec<&String> = go.keys().filter(|k| !vo.contains_key(*k) && go.get(*k) != fo.get(*k)).collect();
                                if !differs.is_empty() {
                                    out.violation(
                                        format!("with_value|{pclass}|object|members-not-supplied-keep-previous-value"),
                                        format!("with_value('{path}', {}) reads back {} but the same call on default settings reads back {}: members {:?} were not supplied and kept their previous values", short(v), short(&g), short(&fresh), differs),
                                        wit(json!({"read": short(&g), "read_on_defaults": short(&fresh)})),
                                    );
                                }
                            }
                        }
                    }
                    norms.sort();
                    norms.dedup();
                    for n in &norms {
                        out.bump(&format!("normalisation:{n}"));
                    }
                    out.class(format!("with_value|{}|{pclass}|{vclass}|read-back-equal{}", cx.base_name, if norms.is_empty() { String::new() } else { format!("({})", norms.join(",")) }));
                    out.sample("with_value-ok", json!({"path": path, "value": short(v), "read": short(&g)}));
                    next = Some(r.clone());
                }
                Ok(Err(e)) if v.is_null() => {
                    out.bump("normalisation:null-is-absent");
                    out.class(format!("with_value|{}|{pclass}|{vclass}|null-reads-as-absent", cx.base_name));
                    let _ = e;
                    next = Some(r.clone());
                }
                Ok(Ok(g)) => out.violation(format!("with_value|{pclass}|{vclass}|read-back-differs"), format!("with_value('{path}', {}) succeeded but get_value returns {}", short(v), short(&g)), wit(json!({"read": short(&g)}))),
                Ok(Err(e)) => out.violation(
                    if matches!(pclass, "unknown-key-in-section" | "unknown-top-level" | "degenerate-path") { "with_value|path-not-in-schema|any|accepted-but-unreadable".to_string() } else { format!("with_value|{pclass}|{vclass}|accepted-but-unreadable") }, format!("with_value('{path}', {}) succeeded but get_value('{path}') fails: {e}", short(v)), wit(json!({"get_error": e}))),
            }
            // frame: everything else unchanged (reported, not judged: the statement is silent)
            let mut a = to_v(r);
            let mut b = to_v(s);
            let top = path.split('.').next().unwrap_or("");
            if let (Some(x), Some(y)) = (a.as_object_mut(), b.as_object_mut()) {
                x.remove(top);
                y.remove(top);
            }
            if a != b {
                out.bump("observed:with_value changed another top-level section (not judged)");
            }
        }
        Err(_) => {
            out.class(format!("with_value|{}|{pclass}|{vclass}|refused", cx.base_name));
        }
    }
    out.evals += 1;
    let mut s2 = s.clone();
    match report::catch_sdk(|| s2.set_value(path, v.clone()).map_err(|e| e.to_string())) {
        Err(p) => out.violation(format!("set_value|{pclass}|{vclass}|panic"), format!("panic: {p}"), wit(json!(null))),
        Ok(Ok(())) => match &r1 {
            Ok(r) if *r == s2 => out.class(format!("set_value|{}|{pclass}|ok-same-as-with_value", cx.base_name)),
            _ => out.violation(format!("set_value|{pclass}|{vclass}|differs-from-with_value"), "set_value and with_value disagree".into(), wit(json!(null))),
        },
        Ok(Err(e)) => {
            if s2 != *s || to_v(&s2) != to_v(s) {
                out.violation(format!("set_value|{pclass}|{vclass}|not-atomic"), format!("set_value failed ({e}) but changed the receiver"), wit(json!(null)));
            } else if r1.is_ok() {
                out.violation(format!("set_value|{pclass}|{vclass}|differs-from-with_value"), format!("set_value failed ({e}) where with_value succeeded"), wit(json!(null)));
            } else {
                out.class(format!("set_value|{}|{pclass}|{vclass}|err-receiver-unchanged", cx.base_name));
                out.bump("atomicity_checks_on_failed_set_value");
            }
        }
    }
    next
}

fn malformed_step(cx: &Ctx, s: &Settings, rng: &mut Rng, doc: &Doc, out: &mut Out) {
    let good = doc.value.to_string();
    let (text, fmt, kind): (String, &str, &'static str) = match rng.below(6) {
        0 => (good[..good.len() / 2].to_string(), "json", "truncated-json"),
        1 => (good.clone(), "yaml", "unsupported-format"),
        2 => (format!("{good} trailing"), "json", "trailing-garbage"),
        3 => ("[verify\nverify_trust = true".to_string(), "toml", "broken-toml"),
        4 => ("verify_trust = true\nverify_trust = false".to_string(), "toml", "duplicate-key-toml"),
        _ => (good.clone(), "toml", "json-text-as-toml"),
    };
    out.evals += 1;
    let mut s2 = s.clone();
    let r = report::catch_sdk(|| s2.update_from_str(&text, fmt).map_err(|e| e.to_string()));
    let wit = json!({"base": cx.base_name, "format": fmt, "text": if text.len() < 400 { text.clone() } else { format!("{}…", &text[..400]) }, "kind": kind});
    let parses = match fmt {
        "json" => serde_json::from_str::<Value>(&text).is_ok(),
        "toml" => toml::from_str::<toml::Value>(&text).is_ok(),
        _ => false,
    };
    match r {
        Err(p) => out.violation(format!("update_from_str|{kind}|malformed|panic"), format!("panic: {p}"), wit),
        Ok(Ok(())) if !parses => out.violation(format!("update_from_str|{kind}|malformed|unparseable-accepted"), "a document that does not parse was accepted".into(), wit),
        Ok(Ok(())) => out.bump("malformed:parsed-after-all"),
        Ok(Err(_)) => {
            if s2 != *s {
                out.violation(format!("update_from_str|{kind}|malformed|not-atomic"), "failed update changed the receiver".into(), wit);
            } else {
                out.class(format!("update_from_str|{}|{kind}|err-receiver-unchanged", cx.base_name));
                out.bump("atomicity_checks_on_unparseable_input");
            }
        }
    }
}

#[allow(deprecated)]
fn thread_local_snapshot() -> String {
    Settings::to_toml().unwrap_or_else(|e| format!("error: {e}"))
}

fn gen_path_value(rng: &mut Rng, schema: &Schema) -> (String, Value, &'static str, &'static str) {
    match rng.below(20) {
        0..=11 => {
            let leaf = rng.pick(&schema.leaves);
            let (v, c) = gen_value(rng, leaf, schema);
            (leaf.path.clone(), v, "schema-leaf", c)
        }
        12 | 13 => {
            // a whole section: a valid sub-object (possibly partial)
            let (p, v) = rng.pick(&schema.objects);
            let mut v = v.clone();
            if let Some(m) = v.as_object_mut() {
                if rng.bool() && m.len() > 1 {
                    let k = m.keys().next().cloned().unwrap();
                    m.remove(&k);
                }
            }
            (p.clone(), v, "schema-section", "sub-object")
        }
        14 | 15 => {
            let (p, _) = rng.pick(&schema.objects);
            let key = *rng.pick(&["zz_unknown", "Enabled", "x y"]);
            let v = (*rng.pick(&[&json!(1), &json!("s"), &json!(true)])).clone();
            (format!("{p}.{key}"), v, "unknown-key-in-section", "scalar")
        }
        16 => ((*rng.pick(&["zz_top", "zz.top.deep", "Verify.verify_trust"])).to_string(), json!(1), "unknown-top-level", "scalar"),
        17 => {
            let leaf = rng.pick(&schema.leaves);
            (format!("{}.inner", leaf.path), json!(1), "through-scalar", "scalar")
        }
        18 => ((*rng.pick(&["", ".", "verify.", ".verify", "verify..verify_trust"])).to_string(), json!(true), "degenerate-path", "scalar"),
        _ => {
            let (p, _) = rng.pick(&schema.objects);
            (p.clone(), (*rng.pick(&[&json!(null), &json!(1), &json!("x")])).clone(), "schema-section", "scalar-for-section")
        }
    }
}

fn main() {
    let mut run = Run::from_args("C25", "exploration");
    report::quiet_panics();
    run.rule = "histories of 1..5 updates on a Settings value (start: defaults, or defaults + the repository's test_settings.json with signer and trust anchors). Updates: overlay documents built from the live schema (paths and value pools learnt by walking serde_json::to_value of the default and the fixture settings): same-type values, case variants, nulls, wrong types, extreme numbers, arrays, objects for leaves, unknown keys, paths through scalars, sections replaced by scalars, nesting up to 200 levels, non-object top level, version numbers; each as JSON and (when representable) TOML; path/value pairs (schema leaves, sections, unknown keys, degenerate paths); unparseable texts. Non-trivial = the SDK call ran and the model gives a verdict; distinct = (api, base, document shape classes, value classes, outcome).".into();
    run.assumptions = vec![
        "serde (de)serialisation of Settings is trusted (the model uses the public Serialize/Deserialize impls); only the merge, path and atomicity behaviour is judged".into(),
        "a refusal of a deserialisable merge is accepted as 'validation' iff the complete expected document is also refused on top of the defaults".into(),
        "the depth cap of the SDK's merge cannot be observed through Settings (schema depth <= 5); documents nested up to 200 levels are generated for robustness".into(),
        "with_value read-back normalisations (each application counted): enum case folding, int vs float, null == absent, object value completed with defaults".into(),
        "with_value changing other sections is counted, not judged (statement silent)".into(),
    ];

    let default_doc = to_v(&Settings::new());
    let rich_text = std::fs::read_to_string(vmon::evidence::repo_root().join("sdk/tests/fixtures/test_settings.json")).ok();
    let rich: Option<Settings> = rich_text.as_ref().and_then(|t| Settings::new().with_json(t).ok());
    if rich.is_none() {
        run.inconclusive("fixture test_settings.json could not be loaded; only the default base is used");
    }
    let mut docs = vec![default_doc.clone()];
    if let Some(r) = &rich {
        docs.push(to_v(r));
    }
    let schema = learn_schema(&docs);
    run.set("schema_leaf_paths", json!(schema.leaves.len()));
    run.set("schema_sections", json!(schema.objects.len()));

    if let Some(p) = run.replay.clone() {
        let v: Value = serde_json::from_slice(&std::fs::read(&p).expect("replay file")).expect("json");
        let w = &v["witness"];
        let Ok(s) = Settings::new().with_json(&w["state_before"].to_string()) else {
            println!("replay: cannot rebuild the state before the step");
            std::process::exit(2);
        };
        let cx = Ctx { schema: &schema, base_name: "replay" };
        let mut out = Out::default();
        match w["op"].as_str() {
            Some("overlay") => {
                let d = Doc { value: w["document_full"].clone(), classes: vec!["replay"], shapes: vec!["replay"] };
                overlay_step(&cx, &s, &d, w["format"] == "toml", &mut out);
            }
            Some("path") => {
                path_step(&cx, &s, w["path"].as_str().unwrap_or(""), &w["value_full"], "replay", "replay", &mut out);
            }
            _ => {
                println!("replay: witness has no replayable step");
                std::process::exit(2);
            }
        }
        for (sig, (what, _, _, _)) in &out.violations {
            println!("replay: {sig} :: {what}");
        }
        println!("replay: {} violation(s)", out.violations.len());
        std::process::exit(if out.violations.is_empty() { 0 } else { 1 });
    }

    // directed cases (run on every invocation): the path API on keys that are not in the schema,
    // and a nested overlay on a state that differs from the defaults
    let mut total = Out::default();
    {
        let cx = Ctx { schema: &schema, base_name: "defaults" };
        let s0 = Settings::new();
        for (p, v, pc) in [("core.zz_unknown", json!(1), "unknown-key-in-section"), ("zz_top", json!(1), "unknown-top-level"), ("verify.verify_trust", json!(false), "schema-leaf"), ("builder.thumbnail", json!({"enabled": false}), "schema-section")] {
            path_step(&cx, &s0, p, &v, pc, "directed", &mut total);
        }
        let primed = Doc { value: json!({"builder": {"thumbnail": {"enabled": false, "long_edge": 77}}, "verify": {"ocsp_fetch": true}}), classes: vec!["directed"], shapes: vec!["directed"] };
        if let Some(s1) = overlay_step(&cx, &s0, &primed, false, &mut total) {
            let d = Doc { value: json!({"builder": {"thumbnail": {"ignore_errors": false}}}), classes: vec!["directed"], shapes: vec!["directed-nested-merge"] };
            overlay_step(&cx, &s1, &d, false, &mut total);
            let d = Doc { value: json!({"version": 2}), classes: vec!["directed"], shapes: vec!["directed-unsupported-version"] };
            overlay_step(&cx, &s1, &d, false, &mut total);
        }
    }
    let n_hist = run.tier.pick(40_000usize, 800_000);
    let chunk = 200usize;
    let seed = run.seed;
    let schema_ref = &schema;
    let rich_ref = &rich;
    let outs = par::par_map(n_hist.div_ceil(chunk), |ci| {
        let mut out = Out::default();
        let tl0 = thread_local_snapshot();
        let mut rng = Rng::new(seed ^ ((ci as u64) << 20), "c25");
        for _ in 0..chunk {
            let use_rich = rich_ref.is_some() && rng.chance(1, 6);
            let cx = Ctx { schema: schema_ref, base_name: if use_rich { "fixture-settings" } else { "defaults" } };
            let mut s = if use_rich { rich_ref.clone().unwrap() } else { Settings::new() };
            // primer: move the state away from the defaults in several sections, so that a lost
            // sibling (replace instead of merge) is visible in later steps
            let d = gen_valid_doc(&mut rng, schema_ref);
            if let Some(n) = overlay_step(&cx, &s, &d, false, &mut out) {
                s = n;
            }
            let steps = 1 + rng.usize(5);
            for _ in 0..steps {
                let next = match rng.below(10) {
                    0..=4 => {
                        let d = gen_doc(&mut rng, schema_ref);
                        let t = rng.chance(1, 3);
                        overlay_step(&cx, &s, &d, t, &mut out)
                    }
                    5..=8 => {
                        let (p, v, pc, vc) = gen_path_value(&mut rng, schema_ref);
                        path_step(&cx, &s, &p, &v, pc, vc, &mut out)
                    }
                    _ => {
                        let d = gen_doc(&mut rng, schema_ref);
                        malformed_step(&cx, &s, &mut rng, &d, &mut out);
                        None
                    }
                };
                if let Some(n) = next {
                    s = n;
                }
            }
        }
        let tl1 = thread_local_snapshot();
        out.evals += 1;
        if tl0 != tl1 {
            out.violation("thread-local|instance-methods|any|thread-local-settings-changed".into(), "the thread-local settings differ after a batch of instance-method calls".into(), json!({"before": tl0, "after": tl1}));
        } else {
            out.class("thread-local|unchanged-after-batch".into());
        }
        out
    });
    for o in outs {
        total.merge(o);
    }
    run.evals(total.evals);
    for (c, k) in total.classes {
        run.nontrivial_n(c, k);
    }
    for (k, v) in total.counters {
        run.count(&k, v);
    }
    for (kind, s) in total.samples {
        run.sample(&kind, 2, s);
    }
    for (sig, (what, wit, _, n)) in total.violations {
        run.count(&format!("violations:{sig}"), n);
        run.violation(&sig, &what, wit);
    }
    run.set("histories", json!(n_hist.div_ceil(chunk) * chunk));
    run.engine("release", true, json!({"threads": par::workers()}));
    run.finish(60);
}
