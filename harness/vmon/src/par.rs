//! Tiny work-sharing helpers over std::thread::scope (no external crates).
use std::sync::atomic::{AtomicUsize, Ordering};
use std::sync::Mutex;

pub fn workers() -> usize {
    std::env::var("VERIF_JOBS")
        .ok()
        .and_then(|s| s.parse().ok())
        .unwrap_or_else(|| std::thread::available_parallelism().map(|n| n.get()).unwrap_or(4))
        .max(1)
}

/// Applies `f` to every index 0..n on a pool of threads; results are returned in index order.
pub fn par_map<T: Send, F: Fn(usize) -> T + Sync>(n: usize, f: F) -> Vec<T> {
    let next = AtomicUsize::new(0);
    let out: Mutex<Vec<(usize, T)>> = Mutex::new(Vec::with_capacity(n));
    let nw = workers().min(n.max(1));
    std::thread::scope(|s| {
        for _ in 0..nw {
            s.spawn(|| {
                let mut local = Vec::new();
                loop {
                    let i = next.fetch_add(1, Ordering::Relaxed);
                    if i >= n {
                        break;
                    }
                    local.push((i, f(i)));
                    if local.len() >= 64 {
                        out.lock().unwrap().append(&mut local);
                    }
                }
                out.lock().unwrap().append(&mut local);
            });
        }
    });
    let mut v = out.into_inner().unwrap();
    v.sort_by_key(|(i, _)| *i);
    v.into_iter().map(|(_, t)| t).collect()
}
