//! JPEG (ITU-T T.81 Annex B) marker-segment parser + JPEG XT / JUMBF-in-APP11 (ISO 19566-5 Annex D)
//! reassembly.
//!
//! Wire format of a JUMBF carrying APP11 segment:
//!   FF EB | Le(2) | CI = 'J' 'P' | En(2) box instance | Z(4) packet sequence (from 1) |
//!   LBox(4) TBox(4) [XLBox(8) if LBox==1] | payload slice
//! LBox/TBox (and XLBox) are repeated in every segment of the same box; the payload of the box is the
//! concatenation of the slices in Z order.
use super::{be16, be32, be64, is_c2pa_superbox, Container, Elem, Parsed};

fn standalone(m: u8) -> bool {
    m == 0x01 || (0xD0..=0xD9).contains(&m)
}

pub fn marker_name(m: u8) -> String {
    match m {
        0xD8 => "SOI".into(),
        0xD9 => "EOI".into(),
        0xDA => "SOS".into(),
        0xDB => "DQT".into(),
        0xC4 => "DHT".into(),
        0xDD => "DRI".into(),
        0xFE => "COM".into(),
        0xE0..=0xEF => format!("APP{}", m - 0xE0),
        0xD0..=0xD7 => format!("RST{}", m - 0xD0),
        0xC0..=0xCF => format!("SOF{}", m - 0xC0),
        _ => format!("M{m:02X}"),
    }
}

struct Seg {
    en: u16,
    z: u32,
    lbox: u32,
    tbox: [u8; 4],
    xl: Option<u64>,
    /// range of the payload slice in the file
    slice: (usize, usize),
    /// range of LBox.. (first segment: where the store starts)
    box_hdr: (usize, usize),
    elem_idx: usize,
}

pub fn parse(data: &[u8]) -> Result<Parsed, String> {
    if data.len() < 4 || data[0] != 0xFF || data[1] != 0xD8 {
        return Err("no SOI at start".into());
    }
    let mut p = Parsed::default();
    let mut segs: Vec<Seg> = Vec::new();
    let mut o = 0usize;
    let n = data.len();
    let mut images = 0usize;
    let mut open = false; // inside SOI..EOI
    while o < n {
        if !open {
            // expect SOI (a further image, e.g. MPF) — anything else is trailing data
            if o + 1 < n && data[o] == 0xFF && data[o + 1] == 0xD8 {
                p.elems.push(Elem::new("SOI", o, 2, o + 2, 0));
                o += 2;
                open = true;
                images += 1;
                continue;
            }
            p.elems.push(Elem::new("trailing", o, n - o, o, n - o));
            o = n;
            break;
        }
        if data[o] != 0xFF {
            return Err(format!("expected marker at {o}, found 0x{:02x}", data[o]));
        }
        let mstart = o;
        let mut q = o + 1;
        while q < n && data[q] == 0xFF {
            q += 1; // fill bytes
        }
        if q >= n {
            return Err("file ends inside a marker".into());
        }
        let m = data[q];
        if m == 0x00 {
            return Err(format!("stuffed zero outside entropy data at {o}"));
        }
        q += 1;
        if m == 0xD9 {
            p.elems.push(Elem::new("EOI", mstart, q - mstart, q, 0));
            o = q;
            open = false;
            continue;
        }
        if standalone(m) {
            p.elems.push(Elem::new(marker_name(m), mstart, q - mstart, q, 0));
            o = q;
            continue;
        }
        let le = be16(data, q).ok_or("truncated segment length")? as usize;
        if le < 2 {
            return Err(format!("segment {} at {mstart} has length {le} < 2", marker_name(m)));
        }
        if q + le > n {
            return Err(format!("segment {} at {mstart} (length {le}) runs past the end of the file", marker_name(m)));
        }
        let pay = (q + 2, le - 2);
        let idx = p.elems.len();
        p.elems.push(Elem::new(marker_name(m), mstart, q + le - mstart, pay.0, pay.1));
        o = q + le;
        if m == 0xEB && pay.1 >= 16 && &data[pay.0..pay.0 + 2] == b"JP" {
            let en = be16(data, pay.0 + 2).unwrap();
            let z = be32(data, pay.0 + 4).unwrap();
            let lbox = be32(data, pay.0 + 8).unwrap();
            let mut tbox = [0u8; 4];
            tbox.copy_from_slice(&data[pay.0 + 12..pay.0 + 16]);
            let (xl, hdr) = if lbox == 1 {
                (Some(be64(data, pay.0 + 16).ok_or("APP11 XLBox truncated")?), 24usize)
            } else {
                (None, 16usize)
            };
            if pay.1 < hdr {
                return Err("APP11 JUMBF segment shorter than its header".into());
            }
            segs.push(Seg { en, z, lbox, tbox, xl, slice: (pay.0 + hdr, pay.1 - hdr), box_hdr: (pay.0 + 8, hdr - 8), elem_idx: idx });
        }
        if m == 0xDA {
            // entropy-coded data: up to the next marker that is neither FF00 nor RSTn (fill FFs belong to the next marker)
            let es = o;
            let mut e = o;
            loop {
                if e >= n {
                    return Err("entropy-coded data runs to the end of the file (no EOI)".into());
                }
                if data[e] == 0xFF {
                    let mut k = e + 1;
                    while k < n && data[k] == 0xFF {
                        k += 1;
                    }
                    if k >= n {
                        return Err("file ends inside a marker in entropy data".into());
                    }
                    let mm = data[k];
                    if mm == 0x00 || (0xD0..=0xD7).contains(&mm) {
                        e = k + 1;
                        continue;
                    }
                    break;
                }
                e += 1;
            }
            if e > es {
                p.elems.push(Elem::new("ECS", es, e - es, es, e - es));
            }
            o = e;
        }
    }
    if open {
        return Err("missing EOI".into());
    }
    if images > 1 {
        p.notes.push(format!("{images} images (SOI..EOI sequences)"));
    }
    // ---- reassemble JUMBF boxes: consecutive runs with the same En and Z = 1,2,3…
    let mut i = 0;
    while i < segs.len() {
        let first = &segs[i];
        if first.z != 1 {
            // a continuation without a start: structural error of the JUMBF carriage
            if first.tbox == *b"jumb" {
                return Err(format!("APP11 box instance {:#06x}: packet sequence starts at {} instead of 1", first.en, first.z));
            }
            i += 1;
            continue;
        }
        let mut j = i + 1;
        while j < segs.len() && segs[j].en == first.en && segs[j].z == segs[j - 1].z + 1 && segs[j].z != 1 {
            if segs[j].lbox != first.lbox || segs[j].tbox != first.tbox || segs[j].xl != first.xl {
                return Err(format!("APP11 box instance {:#06x}: LBox/TBox differ between packets", first.en));
            }
            j += 1;
        }
        let hdr_len = first.box_hdr.1;
        let mut store: Vec<u8> = data[first.box_hdr.0..first.box_hdr.0 + hdr_len].to_vec();
        let mut store_ranges = vec![(first.box_hdr.0, hdr_len + first.slice.1)];
        store.extend_from_slice(&data[first.slice.0..first.slice.0 + first.slice.1]);
        for s in &segs[i + 1..j] {
            store.extend_from_slice(&data[s.slice.0..s.slice.0 + s.slice.1]);
            store_ranges.push(s.slice);
        }
        let declared = first.xl.unwrap_or(first.lbox as u64);
        let c2pa = first.tbox == *b"jumb" && is_c2pa_superbox(&store, false);
        if c2pa {
            if declared != 0 && declared != store.len() as u64 {
                return Err(format!("APP11 C2PA box: LBox {} but {} bytes carried in {} packets", declared, store.len(), j - i));
            }
            // a later segment with the same En that is not contiguous would be a second, broken run
            let mut ranges = Vec::new();
            for s in &segs[i..j] {
                let e = &mut p.elems[s.elem_idx];
                e.is_c2pa = true;
                ranges.push((e.start, e.len));
            }
            // the segments of one box must be adjacent in the file
            for w in segs[i..j].windows(2) {
                if w[1].elem_idx != w[0].elem_idx + 1 {
                    return Err("APP11 C2PA packets are not adjacent".into());
                }
            }
            p.containers.push(Container { ranges, store, store_ranges, encoded: false, label: format!("en={:#06x}", first.en) });
        }
        i = j;
    }
    Ok(p)
}
