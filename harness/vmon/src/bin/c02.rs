//! C02 — tamper evidence: manifest store bytes cannot change undetected.
//!
//! Oracle (from the statement): a mutated store either fails to read, reads Invalid, or reads with
//! *exactly* the original report (which includes signature information) and the original validation
//! codes.  Mutants: every byte of the store x bit patterns, plus JUMBF box-level edits (reorder,
//! duplicate, remove, relabel, toggle, swap manifests) produced by the harness's own JUMBF walker
//! with enclosing size fields fixed up so that the mutant still reaches the SDK's parser.
//! Two delivery routes: sidecar (`with_manifest_data_and_stream`: mutated store + signed asset) and
//! embedded (store bytes patched inside the signed file at the location found by searching the file
//! for the store bytes — no SDK code involved).
use c2pa::{Builder, BuilderIntent, Context, Reader};
use serde_json::{json, Value};
use std::io::Cursor;
use vmon::{assets, jumbf, par, report, signers, Rng, Run};

fn settings(extra: &Value) -> String {
    let mut s = json!({
        "verify": {"verify_trust": true},
        "trust": {"trust_anchors": signers::trust_anchors_pem()},
        "builder": {"thumbnail": {"enabled": false}}
    });
    merge(&mut s, extra);
    s.to_string()
}
fn merge(a: &mut Value, b: &Value) {
    match (a, b) {
        (Value::Object(a), Value::Object(b)) => {
            for (k, v) in b {
                merge(a.entry(k.clone()).or_insert(Value::Null), v);
            }
        }
        (a, b) => *a = b.clone(),
    }
}

struct Subject {
    shape: &'static str,
    format: &'static str,
    signed: Vec<u8>,
    store: Vec<u8>,
    /// offset of the store inside `signed` when it is stored contiguously (tiny assets), else None
    embedded_at: Option<usize>,
    base_sidecar: report::Outcome,
    base_embedded: report::Outcome,
    tree: jumbf::JBox,
}

fn sign(format: &str, src: &[u8], def: Value, intent: BuilderIntent, extra: &Value, ingredients: &[(&str, &str, &[u8])]) -> Result<(Vec<u8>, Vec<u8>), String> {
    let signer = signers::test_signer("ed25519");
    let ctx = Context::new().with_settings(settings(extra).as_str()).map_err(|e| e.to_string())?;
    let mut b = Builder::from_context(ctx).with_definition(def).map_err(|e| e.to_string())?;
    b.set_intent(intent);
    for (json_def, fmt, bytes) in ingredients {
        let mut c = Cursor::new(bytes.to_vec());
        b.add_ingredient_from_stream(json_def.to_string(), fmt, &mut c).map_err(|e| format!("ingredient: {e}"))?;
    }
    let mut s = Cursor::new(src.to_vec());
    let mut d = Cursor::new(Vec::new());
    let store = report::catch_sdk(|| b.sign(signer.as_ref(), format, &mut s, &mut d))?.map_err(|e| format!("sign: {e}"))?;
    Ok((d.into_inner(), store))
}

fn find_sub(h: &[u8], n: &[u8]) -> Option<usize> {
    if n.is_empty() || n.len() > h.len() {
        return None;
    }
    h.windows(n.len()).position(|w| w == n)
}

fn read_sidecar(store: &[u8], format: &str, asset: &[u8]) -> report::Outcome {
    let ctx = Context::new().with_settings(settings(&json!({})).as_str()).expect("settings");
    let st = store.to_vec();
    let f = format.to_string();
    let a = asset.to_vec();
    match report::catch_sdk(move || report::outcome_of(Reader::from_context(ctx).with_manifest_data_and_stream(&st, &f, Cursor::new(a)))) {
        Ok(o) => o,
        Err(p) => report::Outcome { state: "Panic".into(), error: Some(p), report: Value::Null, codes: vec![] },
    }
}

fn read_embedded(format: &str, file: &[u8]) -> report::Outcome {
    let ctx = Context::new().with_settings(settings(&json!({})).as_str()).expect("settings");
    report::read_bytes_catch(ctx, format, file)
}

fn make_subjects(run: &mut Run) -> Vec<Subject> {
    let tiny = assets::tiny_assets();
    let jpg = tiny.iter().find(|a| a.name == "tiny.jpg").unwrap().bytes.clone();
    let png = tiny.iter().find(|a| a.name == "tiny.png").unwrap().bytes.clone();
    let mp4 = tiny.iter().find(|a| a.name == "tiny.mp4").unwrap().bytes.clone();
    let def = |t: &str| json!({"title": t, "assertions": [{"label": "org.verif.note", "data": {"marker": format!("C02-{t}")}}]});
    let mut out = Vec::new();
    let mut push = |shape: &'static str, format: &'static str, r: Result<(Vec<u8>, Vec<u8>), String>, run: &mut Run| match r {
        Ok((signed, store)) => {
            let Some(tree) = jumbf::parse_store(&store) else {
                run.inconclusive(format!("subject {shape}: independent JUMBF walker rejects the SDK's store"));
                return;
            };
            let embedded_at = find_sub(&signed, &store);
            let base_sidecar = read_sidecar(&store, format, &signed);
            let base_embedded = read_embedded(format, &signed);
            if !base_sidecar.accepted() || !base_embedded.accepted() {
                run.inconclusive(format!("subject {shape}: baseline not accepted (sidecar {:?}/{:?}, embedded {:?}/{:?})", base_sidecar.state, base_sidecar.error, base_embedded.state, base_embedded.error));
                return;
            }
            run.sample("subject", 20, json!({"shape": shape, "format": format, "store_len": store.len(), "manifests": jumbf::manifests(&tree).len(), "embedded_contiguously": embedded_at.is_some(), "baseline": base_sidecar.state}));
            out.push(Subject { shape, format, signed, store, embedded_at, base_sidecar, base_embedded, tree });
        }
        Err(e) => run.inconclusive(format!("subject {shape} unusable: {e}")),
    };
    // single manifest (no parent: Create intent), jpeg/png/mp4
    let create = || BuilderIntent::Create(c2pa::DigitalSourceType::DigitalCapture);
    push("single-jpg", "jpg", sign("jpg", &jpg, def("single"), create(), &json!({}), &[]), run);
    push("single-mp4", "mp4", sign("mp4", &mp4, def("single-mp4"), create(), &json!({}), &[]), run);
    // chain: A1 = signed jpg; A2 = edit of A1 (parentOf) -> 2 manifests
    if let Ok((a1, _)) = sign("jpg", &jpg, def("gen1"), create(), &json!({}), &[]) {
        let r2 = sign("jpg", &a1, def("gen2"), BuilderIntent::Edit, &json!({}), &[]);
        if let Ok((a2, _)) = &r2 {
            // chain3 + component: edit of A2 with a signed png as componentOf ingredient -> 4 manifests
            if let Ok((p1, _)) = sign("png", &png, def("comp"), create(), &json!({}), &[]) {
                let ing = json!({"title": "component", "relationship": "componentOf"}).to_string();
                push("chain3+component", "jpg", sign("jpg", a2, def("gen3"), BuilderIntent::Edit, &json!({}), &[(ing.as_str(), "png", p1.as_slice())]), run);
            }
        }
        push("chain2", "jpg", r2, run);
    }
    // redaction: B (edit of A) redacts A's assertion "org.verif.redactme" while B itself carries an
    // assertion with the same label
    {
        let r = (|| -> Result<(Vec<u8>, Vec<u8>), String> {
            let defa = json!({"title": "redact-parent", "assertions": [
                {"label": "org.verif.redactme", "data": {"marker": "C02-parent-secret"}},
                {"label": "org.verif.keep", "data": {"marker": "C02-parent-keep"}}]});
            let (a, _) = sign("jpg", &jpg, defa, BuilderIntent::Create(c2pa::DigitalSourceType::DigitalCapture), &json!({}), &[])?;
            let ctx = Context::new().with_settings(settings(&json!({})).as_str()).map_err(|e| e.to_string())?;
            let ra = Reader::from_context(ctx).with_stream("jpg", Cursor::new(a.clone())).map_err(|e| e.to_string())?;
            let label = ra.active_label().ok_or("no active label")?.to_string();
            let uri = format!("self#jumbf=/c2pa/{label}/c2pa.assertions/org.verif.redactme");
            let defb = json!({"title": "redactor", "redactions": [uri], "assertions": [
                {"label": "org.verif.redactme", "data": {"marker": "C02-own-assertion-with-the-same-label"}}]});
            sign("jpg", &a, defb, BuilderIntent::Edit, &json!({}), &[])
        })();
        push("redaction-same-label", "jpg", r, run);
    }
    // claim v1 with ingredient `data` carried in a data box (hashed URI from the signed ingredient assertion)
    {
        let r = (|| -> Result<(Vec<u8>, Vec<u8>), String> {
            let signer = signers::test_signer("ed25519");
            let ctx = Context::new().with_settings(settings(&json!({})).as_str()).map_err(|e| e.to_string())?;
            let mut b = Builder::from_context(ctx)
                .with_definition(json!({
                    "claim_version": 1,
                    "claim_generator_info": [{"name": "verif", "version": "1.0"}],
                    "title": "databox",
                    "ingredients": [{"title": "prompt", "format": "text/plain", "relationship": "inputTo",
                        "data": {"format": "text/plain", "identifier": "prompt.txt"},
                        "data_types": [{"type": "c2pa.types.generator.prompt"}]}]
                }))
                .map_err(|e| e.to_string())?;
            b.add_resource("prompt.txt", Cursor::new(b"C02 planted databox payload: pirate with bird on shoulder".to_vec())).map_err(|e| e.to_string())?;
            let mut sr = Cursor::new(jpg.clone());
            let mut d = Cursor::new(Vec::new());
            let store = report::catch_sdk(|| b.sign(signer.as_ref(), "jpg", &mut sr, &mut d))?.map_err(|e| format!("sign: {e}"))?;
            Ok((d.into_inner(), store))
        })();
        push("v1-databox", "jpg", r, run);
    }
    // compressed manifests (brob)
    push("compressed-png", "png", sign("png", &png, def("brob"), create(), &json!({"core": {"prefer_compress_manifests": true}}), &[]), run);
    out
}

#[derive(Clone, Debug)]
enum Edit {
    Flip { pos: usize, pat: &'static str },
    /// structural edits on the box (index into the flattened walk order of `jumb`+content boxes)
    SwapSiblings { parent: usize, i: usize },
    Duplicate { bx: usize },
    Remove { bx: usize },
    LabelChar { bx: usize },
    Toggle { bx: usize, bit: u8 },
    ZeroContent { bx: usize },
}

fn flat(tree: &jumbf::JBox) -> Vec<&jumbf::JBox> {
    let mut v = Vec::new();
    tree.walk(&mut v);
    v
}

/// ancestors (by walk index) of the box at walk index `i`
fn ancestors(all: &[&jumbf::JBox], i: usize) -> Vec<usize> {
    let b = all[i];
    (0..all.len()).filter(|j| *j != i && all[*j].start <= b.start && all[*j].end() >= b.end() && !(all[*j].start == b.start && all[*j].len == b.len)).collect()
}

fn fix_sizes(store: &mut [u8], all: &[&jumbf::JBox], anc: &[usize], delta: i64) {
    for a in anc {
        let b = all[*a];
        let sz = u32::from_be_bytes(store[b.start..b.start + 4].try_into().unwrap());
        if sz >= 8 {
            let n = (sz as i64 + delta) as u32;
            store[b.start..b.start + 4].copy_from_slice(&n.to_be_bytes());
        }
    }
}

fn apply(s: &Subject, e: &Edit) -> Option<Vec<u8>> {
    let mut v = s.store.clone();
    let all = flat(&s.tree);
    match e {
        Edit::Flip { pos, pat } => {
            match *pat {
                "xor01" => v[*pos] ^= 0x01,
                "xor80" => v[*pos] ^= 0x80,
                "set00" => v[*pos] = 0,
                _ => v[*pos] = 0xFF,
            }
            Some(v)
        }
        Edit::SwapSiblings { parent, i } => {
            let p = all[*parent];
            let a = p.children.get(*i)?;
            let b = p.children.get(*i + 1)?;
            let mut seg = s.store[b.start..b.end()].to_vec();
            seg.extend_from_slice(&s.store[a.start..a.end()]);
            v[a.start..b.end()].copy_from_slice(&seg);
            Some(v)
        }
        Edit::Duplicate { bx } => {
            let b = all[*bx];
            let seg = s.store[b.start..b.end()].to_vec();
            fix_sizes(&mut v, &all, &ancestors(&all, *bx), seg.len() as i64);
            v.splice(b.end()..b.end(), seg);
            Some(v)
        }
        Edit::Remove { bx } => {
            let b = all[*bx];
            fix_sizes(&mut v, &all, &ancestors(&all, *bx), -(b.len as i64));
            v.drain(b.start..b.end());
            Some(v)
        }
        Edit::LabelChar { bx } => {
            let b = all[*bx];
            let d = b.children.first()?;
            if &d.typ != b"jumd" || b.label.is_none() {
                return None;
            }
            let lp = d.payload_start() + 17;
            let l = b.label.as_ref()?.len();
            if l == 0 {
                return None;
            }
            v[lp + l - 1] ^= 0x01;
            Some(v)
        }
        Edit::Toggle { bx, bit } => {
            let b = all[*bx];
            let d = b.children.first()?;
            if &d.typ != b"jumd" {
                return None;
            }
            v[d.payload_start() + 16] ^= 1 << bit;
            Some(v)
        }
        Edit::ZeroContent { bx } => {
            let b = all[*bx];
            if &b.typ == b"jumb" || &b.typ == b"jumd" {
                return None;
            }
            for x in &mut v[b.payload_start()..b.end()] {
                *x = 0;
            }
            Some(v)
        }
    }
}

/// (box path, field class) of a store byte according to the independent walker
fn locate(s: &Subject, pos: usize) -> (String, &'static str) {
    let all = flat(&s.tree);
    let mut best: Option<&jumbf::JBox> = None;
    for b in &all {
        if b.start <= pos && pos < b.end() && best.map(|x| b.len <= x.len).unwrap_or(true) {
            best = Some(b);
        }
    }
    let Some(b) = best else { return ("?".into(), "?") };
    let field = if pos < b.payload_start() {
        "box-header"
    } else if &b.typ == b"jumd" {
        "description"
    } else if &b.typ == b"jumb" {
        "superbox"
    } else {
        "content"
    };
    // generalise manifest labels (urn:c2pa:<uuid>) to their ordinal so classes are stable across runs
    let mut path = b.path.clone();
    for (i, m) in jumbf::manifests(&s.tree).iter().enumerate() {
        if let Some(l) = &m.label {
            path = path.replace(l.as_str(), &format!("m{i}"));
        }
    }
    (format!("{}:{}", path, String::from_utf8_lossy(&b.typ)), field)
}

struct Res {
    class: String,
    accepted: bool,
    violation: Option<(String, String)>,
    panic: Option<String>,
}

fn judge(s: &Subject, e: &Edit, route: &'static str) -> Option<Res> {
    let m = apply(s, e)?;
    if m == s.store {
        return None;
    }
    let (o, base) = if route == "sidecar" {
        (read_sidecar(&m, s.format, &s.signed), &s.base_sidecar)
    } else {
        let at = s.embedded_at?;
        if m.len() != s.store.len() {
            return None;
        }
        let mut f = s.signed.clone();
        f[at..at + m.len()].copy_from_slice(&m);
        (read_embedded(s.format, &f), &s.base_embedded)
    };
    let (kind, path, field) = match e {
        Edit::Flip { pos, pat } => {
            let (p, f) = locate(s, *pos);
            (*pat, p, f)
        }
        Edit::SwapSiblings { parent, .. } => ("swap-siblings", locate(s, flat(&s.tree)[*parent].start).0, "structure"),
        Edit::Duplicate { bx } => ("duplicate-box", locate(s, flat(&s.tree)[*bx].start).0, "structure"),
        Edit::Remove { bx } => ("remove-box", locate(s, flat(&s.tree)[*bx].start).0, "structure"),
        Edit::LabelChar { bx } => ("label-char", locate(s, flat(&s.tree)[*bx].start).0, "description"),
        Edit::Toggle { bx, .. } => ("toggle-bit", locate(s, flat(&s.tree)[*bx].start).0, "description"),
        Edit::ZeroContent { bx } => ("zero-content", locate(s, flat(&s.tree)[*bx].start).0, "content"),
    };
    let mut violation = None;
    if o.accepted() {
        let what = if o.report != base.report {
            // finer cause class: a resource whose *bytes* changed while still being handed out is a
            // different defect from a resource reference that silently disappeared
            let d = report::diff_paths(&base.report, &o.report, 40);
            let bytes_changed = d.iter().any(|x| x.starts_with("/__resources/") && x.contains(" != "));
            let ref_dropped = d.iter().any(|x| x.starts_with("/__resources/") && x.contains("only in first"));
            Some(if bytes_changed { "resource-bytes-changed" } else if ref_dropped { "resource-reference-dropped" } else { "report-changed" })
        } else if o.codes != base.codes {
            Some("codes-changed")
        } else if o.state != base.state {
            Some("state-changed")
        } else {
            None
        };
        if let Some(w) = what {
            // cause class of the signature: which component of the store was touched (never the edit kind,
            // route, byte pattern or field)
            let comps: Vec<&str> = path.split(':').next().unwrap_or("").split('/').collect();
            let group = match comps.len() {
                0 | 1 => "store",
                2 => "manifest",
                _ => comps[2],
            };
            violation = Some((
                format!("{}|{}|{}", s.shape, group, w),
                format!("store mutant {:?} ({route}) accepted as {} but {w}: {:?} codes {:?} vs {:?}", e, o.state, report::diff_paths(&base.report, &o.report, 6), if o.codes != base.codes { o.codes.clone() } else { vec![] }, if o.codes != base.codes { base.codes.clone() } else { vec![] }),
            ));
        }
    }
    let outcome = if o.accepted() { "accepted-identical".to_string() } else if o.state == "Err" { format!("err:{}", o.error.clone().unwrap_or_default()) } else { o.state.clone() };
    Some(Res {
        class: format!("{}|{}|{}|{}|{}|{}", s.shape, route, kind, path, field, outcome),
        accepted: o.accepted(),
        violation,
        panic: if o.state == "Panic" { o.error.clone() } else { None },
    })
}

fn main() {
    let mut run = Run::from_args("C02", "exploration");
    report::quiet_panics();
    run.rule = "subjects = signed stores of shapes {single, chain of 2, chain of 3 + component ingredient, single BMFF, compressed}; mutants = every store byte x {xor01,setff[,xor80,set00]} via the sidecar route (and the embedded route where the store is contiguous in the file), plus box-level edits of every box (swap siblings, duplicate, remove, flip last label char, flip each toggle bit, zero a content box) with ancestor sizes fixed up. Non-trivial = mutant differs from the store and was read; distinct = (shape, route, edit kind, box path with manifest ordinals, field class, outcome).".into();
    run.assumptions = vec![
        "box paths/field classes come from the harness's own JUMBF walker".into(),
        "one-sided oracle: only accepted mutants are judged (must be identical in report, codes and state)".into(),
    ];
    let quick = run.quick();
    let mut rng = Rng::new(run.seed, "c02");
    let subjects = make_subjects(&mut run);
    let mut work: Vec<(usize, Edit, &'static str)> = Vec::new();
    for (si, s) in subjects.iter().enumerate() {
        let pats: &[&'static str] = if quick { &["xor01", "setff"] } else { &["xor01", "xor80", "set00", "setff"] };
        let stride = if quick && s.store.len() > 6000 { 2 } else { 1 };
        let phase = rng.usize(stride);
        for pos in (phase..s.store.len()).step_by(stride) {
            for p in pats {
                work.push((si, Edit::Flip { pos, pat: p }, "sidecar"));
            }
            if s.embedded_at.is_some() && (pos % 4 == 0 || !quick) {
                work.push((si, Edit::Flip { pos, pat: "xor01" }, "embedded"));
            }
        }
        let all = flat(&s.tree);
        for (i, b) in all.iter().enumerate() {
            if &b.typ == b"jumb" {
                for k in 0..b.children.len().saturating_sub(1) {
                    work.push((si, Edit::SwapSiblings { parent: i, i: k }, "sidecar"));
                    work.push((si, Edit::SwapSiblings { parent: i, i: k }, "embedded"));
                }
                work.push((si, Edit::LabelChar { bx: i }, "sidecar"));
                for bit in 0..8 {
                    work.push((si, Edit::Toggle { bx: i, bit }, "sidecar"));
                }
            }
            if i > 0 {
                work.push((si, Edit::Duplicate { bx: i }, "sidecar"));
                work.push((si, Edit::Remove { bx: i }, "sidecar"));
                work.push((si, Edit::ZeroContent { bx: i }, "sidecar"));
                work.push((si, Edit::ZeroContent { bx: i }, "embedded"));
            }
        }
    }
    let results = par::par_map_watch(
        work.len(),
        120,
        |i| println!("INCONCLUSIVE: property=C02 watchdog: mutant {:?} of {} exceeded 120 s (see C10)", work[i].1, subjects[work[i].0].shape),
        |i| judge(&subjects[work[i].0], &work[i].1, work[i].2),
    );
    let mut accepted = 0u64;
    for (i, r) in results.iter().enumerate() {
        let Some(r) = r else {
            run.count("inapplicable_edits", 1);
            continue;
        };
        let (si, e, route) = &work[i];
        run.eval();
        run.nontrivial(r.class.clone());
        let w = json!({"shape": subjects[*si].shape, "route": route, "edit": format!("{e:?}")});
        if r.accepted {
            accepted += 1;
            run.sample("accepted-identical", 3, w.clone());
        } else {
            run.sample("rejected", 3, w.clone());
        }
        if let Some(p) = &r.panic {
            run.count("panics(see C10)", 1);
            run.sample("panic", 3, json!({"case": w, "panic": p}));
        }
        if let Some((sig, what)) = &r.violation {
            run.violation(sig, what, w);
        }
    }
    run.set("subjects", json!(subjects.len()));
    run.set("accepted_identical_mutants", json!(accepted));
    run.engine("release", true, json!({"threads": par::workers()}));
    run.finish(30);
}
