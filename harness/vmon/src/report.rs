//! Reader-outcome capture and report normalisation ("same report" oracle).
//!
//! Volatile fields removed / canonicalised (enumerated on purpose, see DESIGN.md §1):
//!   * every UUID (manifest labels `urn:c2pa:<uuid>`, `xmp:iid:<uuid>`, instance ids) — manifest
//!     labels are renamed to `M-<fingerprint>` where the fingerprint is the hash of that manifest's
//!     own JSON with UUIDs blanked, so "which manifest is active / referenced" stays visible;
//!   * the order of entries inside `validation_results` / `validation_status` arrays (sorted);
//!   * nothing else: signing time only appears when a time-stamp exists and is then deterministic
//!     for canned tokens.
use c2pa::{Context, Reader};
use serde_json::{Map, Value};
use sha2::{Digest, Sha256};
use std::collections::BTreeMap;
use std::io::Cursor;

fn is_hex(b: u8) -> bool {
    b.is_ascii_hexdigit()
}

/// Finds UUIDs (8-4-4-4-12 hex) in `s`; returns (start, end) byte offsets.
pub fn find_uuids(s: &str) -> Vec<(usize, usize)> {
    let b = s.as_bytes();
    let mut out = Vec::new();
    let pat = [8usize, 4, 4, 4, 12];
    let mut i = 0;
    while i + 36 <= b.len() {
        let mut j = i;
        let mut ok = true;
        for (gi, g) in pat.iter().enumerate() {
            for _ in 0..*g {
                if j >= b.len() || !is_hex(b[j]) {
                    ok = false;
                    break;
                }
                j += 1;
            }
            if !ok {
                break;
            }
            if gi < 4 {
                if j >= b.len() || b[j] != b'-' {
                    ok = false;
                    break;
                }
                j += 1;
            }
        }
        let boundary_before = i == 0 || !is_hex(b[i - 1]);
        if ok && boundary_before && (j >= b.len() || !is_hex(b[j])) {
            out.push((i, j));
            i = j;
        } else {
            i += 1;
        }
    }
    out
}

fn map_uuids(s: &str, f: &dyn Fn(&str) -> String) -> String {
    let spans = find_uuids(s);
    if spans.is_empty() {
        return s.to_string();
    }
    let mut out = String::with_capacity(s.len());
    let mut last = 0;
    for (a, b) in spans {
        out.push_str(&s[last..a]);
        out.push_str(&f(&s[a..b]));
        last = b;
    }
    out.push_str(&s[last..]);
    out
}

fn walk(v: &Value, f: &dyn Fn(&str) -> String) -> Value {
    match v {
        Value::String(s) => Value::String(map_uuids(s, f)),
        Value::Array(a) => Value::Array(a.iter().map(|x| walk(x, f)).collect()),
        Value::Object(m) => {
            // serde_json may be built with `preserve_order` (feature unification): insert keys in sorted
            // order so that serialisations (fingerprints) do not depend on HashMap iteration order
            let mut items: Vec<(String, Value)> = m.iter().map(|(k, x)| (map_uuids(k, f), walk(x, f))).collect();
            items.sort_by(|a, b| a.0.cmp(&b.0));
            let mut out = Map::new();
            for (k, x) in items {
                out.insert(k, x);
            }
            Value::Object(out)
        }
        other => other.clone(),
    }
}

/// Normalises a Reader JSON report (see module doc).
pub fn norm_report_value(v: &Value) -> Value {
    // pass 1: fingerprint each manifest with all UUIDs blanked
    let mut names: BTreeMap<String, String> = BTreeMap::new();
    if let Some(Value::Object(ms)) = v.get("manifests") {
        for (label, m) in ms {
            let blank = walk(m, &|_| "UUID".to_string());
            let mut h = Sha256::new();
            h.update(serde_json::to_vec(&blank).unwrap_or_default());
            let fp = hex::encode(&h.finalize()[..6]);
            for (a, b) in find_uuids(label) {
                names.insert(label[a..b].to_lowercase(), format!("M-{fp}"));
            }
        }
    }
    let mut out = walk(v, &|u| names.get(&u.to_lowercase()).cloned().unwrap_or_else(|| "UUID".to_string()));
    // the *order* of validation status entries / ingredient deltas follows box order in the store and
    // is not manifest content: canonicalise it (the entries themselves are compared exactly)
    for key in ["validation_results", "validation_status"] {
        if let Some(vr) = out.get_mut(key) {
            sort_arrays(vr);
        }
    }
    out
}

fn sort_arrays(v: &mut Value) {
    match v {
        Value::Array(a) => {
            for x in a.iter_mut() {
                sort_arrays(x);
            }
            a.sort_by_key(|x| x.to_string());
        }
        Value::Object(m) => {
            for (_, x) in m.iter_mut() {
                sort_arrays(x);
            }
        }
        _ => {}
    }
}

pub fn norm_report(json: &str) -> Value {
    match serde_json::from_str::<Value>(json) {
        Ok(v) => norm_report_value(&v),
        Err(_) => Value::String(format!("unparseable report: {}", &json[..json.len().min(200)])),
    }
}

/// One (kind, code, url) triple per validation status entry; kind ∈ success|informational|failure,
/// scope = "active" or "ingredient[i]".
pub fn codes_of(reader: &Reader) -> Vec<(String, String, String, String)> {
    let mut out = Vec::new();
    if let Some(vr) = reader.validation_results() {
        let v = serde_json::to_value(vr).unwrap_or(Value::Null);
        let nv = norm_report_value(&serde_json::json!({"manifests": {}, "x": v}));
        let v = nv.get("x").cloned().unwrap_or(Value::Null);
        let mut take = |scope: String, sc: &Value| {
            for kind in ["success", "informational", "failure"] {
                if let Some(Value::Array(a)) = sc.get(kind) {
                    for e in a {
                        out.push((
                            scope.clone(),
                            kind.to_string(),
                            e.get("code").and_then(|c| c.as_str()).unwrap_or("").to_string(),
                            e.get("url").and_then(|c| c.as_str()).unwrap_or("").to_string(),
                        ));
                    }
                }
            }
        };
        if let Some(am) = v.get("activeManifest") {
            take("active".to_string(), am);
        }
        if let Some(Value::Array(ds)) = v.get("ingredientDeltas") {
            for (i, d) in ds.iter().enumerate() {
                if let Some(vd) = d.get("validationDeltas") {
                    take(format!("ingredient[{i}]"), vd);
                }
            }
        }
    }
    out.sort();
    out
}

#[derive(Clone, Debug, PartialEq)]
pub struct Outcome {
    /// "Valid" | "Trusted" | "Invalid" | "Err"
    pub state: String,
    pub error: Option<String>,
    pub report: Value,
    pub codes: Vec<(String, String, String, String)>,
}

impl Outcome {
    pub fn accepted(&self) -> bool {
        self.state == "Valid" || self.state == "Trusted"
    }
    pub fn failure_codes(&self) -> Vec<String> {
        self.codes.iter().filter(|c| c.1 == "failure").map(|c| c.2.clone()).collect()
    }
    pub fn to_json(&self) -> Value {
        serde_json::json!({"state": self.state, "error": self.error, "failures": self.failure_codes()})
    }
}

/// Error "kind": the variant name of c2pa::Error (Debug up to the first '(' or '{' or ' ').
pub fn err_kind(e: &c2pa::Error) -> String {
    let d = format!("{e:?}");
    d.split(|c| c == '(' || c == '{' || c == ' ').next().unwrap_or("").to_string()
}

pub fn outcome_of(res: c2pa::Result<Reader>) -> Outcome {
    match res {
        Ok(r) => Outcome {
            state: format!("{:?}", r.validation_state()),
            error: None,
            report: report_with_resources(&r),
            codes: codes_of(&r),
        },
        Err(e) => Outcome { state: "Err".into(), error: Some(err_kind(&e)), report: Value::Null, codes: vec![] },
    }
}

/// The normalised report plus, under `__resources`, what `Reader::resource_to_stream` hands out for
/// every resource identifier the report mentions (sha256 prefix + length, or the error kind): the
/// bytes of thumbnails / ingredient data / data boxes are reported manifest content too.
pub fn report_with_resources(r: &Reader) -> Value {
    let mut v: Value = match serde_json::from_str(&r.json()) {
        Ok(v) => v,
        Err(_) => return norm_report(&r.json()),
    };
    fn ids(v: &Value, out: &mut std::collections::BTreeSet<String>) {
        match v {
            Value::Object(m) => {
                if let Some(Value::String(s)) = m.get("identifier") {
                    out.insert(s.clone());
                }
                for x in m.values() {
                    ids(x, out);
                }
            }
            Value::Array(a) => a.iter().for_each(|x| ids(x, out)),
            _ => {}
        }
    }
    let mut set = std::collections::BTreeSet::new();
    ids(&v, &mut set);
    let mut res = Map::new();
    for id in set.into_iter().take(64) {
        let mut buf = Cursor::new(Vec::new());
        let d = match r.resource_to_stream(&id, &mut buf) {
            Ok(_) => {
                let b = buf.into_inner();
                // (for some identifiers, e.g. v1 data boxes, the SDK hands out the whole manifest store: that
                // is not resource content and changes with every store edit, so it is recorded as such)
                if crate::jumbf::parse_store(&b).map(|t| t.label.as_deref() == Some("c2pa")).unwrap_or(false) {
                    res.insert(id, Value::String("whole-manifest-store".into()));
                    continue;
                }
                let mut h = Sha256::new();
                h.update(&b);
                format!("{}:{}", b.len(), hex::encode(&h.finalize()[..8]))
            }
            Err(e) => format!("Err:{}", err_kind(&e)),
        };
        res.insert(id, Value::String(d));
    }
    if let Value::Object(m) = &mut v {
        m.insert("__resources".into(), Value::Object(res));
    }
    norm_report_value(&v)
}

pub fn read_bytes(ctx: Context, format: &str, bytes: &[u8]) -> Outcome {
    outcome_of(Reader::from_context(ctx).with_stream(format, Cursor::new(bytes.to_vec())))
}

/// Like `read_bytes` but a panic inside the SDK is returned as state "Panic".
pub fn read_bytes_catch(ctx: Context, format: &str, bytes: &[u8]) -> Outcome {
    let f = format.to_string();
    let b = bytes.to_vec();
    match catch_sdk(move || read_bytes(ctx, &f, &b)) {
        Ok(o) => o,
        Err(p) => Outcome {
            state: "Panic".into(),
            error: Some(p),
            report: Value::Null,
            codes: vec![],
        },
    }
}

pub fn panic_msg(p: &Box<dyn std::any::Any + Send>) -> String {
    if let Some(s) = p.downcast_ref::<&str>() {
        s.to_string()
    } else if let Some(s) = p.downcast_ref::<String>() {
        s.clone()
    } else {
        "panic".to_string()
    }
}

/// Installs a panic hook that, while a `catch_sdk` call is active on this thread, records the
/// location of the panic instead of printing; panics elsewhere (harness bugs) are printed as usual.
pub fn quiet_panics() {
    let default = std::panic::take_hook();
    std::panic::set_hook(Box::new(move |info| {
        let armed = ARMED.with(|a| a.get());
        if armed > 0 {
            let loc = info.location().map(|l| format!("{}:{}", l.file(), l.line())).unwrap_or_default();
            LAST_PANIC.with(|c| *c.borrow_mut() = Some(loc));
        } else {
            default(info);
        }
    }));
}

thread_local! {
    static LAST_PANIC: std::cell::RefCell<Option<String>> = const { std::cell::RefCell::new(None) };
    static ARMED: std::cell::Cell<u32> = const { std::cell::Cell::new(0) };
}

pub fn take_panic_location() -> Option<String> {
    LAST_PANIC.with(|c| c.borrow_mut().take())
}

/// Runs SDK code, converting a panic into Err("<message> at <file:line>").
pub fn catch_sdk<T>(f: impl FnOnce() -> T) -> Result<T, String> {
    ARMED.with(|a| a.set(a.get() + 1));
    let r = std::panic::catch_unwind(std::panic::AssertUnwindSafe(f));
    ARMED.with(|a| a.set(a.get() - 1));
    r.map_err(|p| format!("{} at {}", panic_msg(&p), take_panic_location().unwrap_or_default()))
}

/// Lists up to `max` JSON paths at which `a` and `b` differ (with both values, truncated).
pub fn diff_paths(a: &Value, b: &Value, max: usize) -> Vec<String> {
    fn short(v: &Value) -> String {
        let s = v.to_string();
        if s.len() > 160 {
            format!("{}…", &s[..160])
        } else {
            s
        }
    }
    fn go(a: &Value, b: &Value, path: String, out: &mut Vec<String>, max: usize) {
        if out.len() >= max || a == b {
            return;
        }
        match (a, b) {
            (Value::Object(x), Value::Object(y)) => {
                let keys: std::collections::BTreeSet<&String> = x.keys().chain(y.keys()).collect();
                for k in keys {
                    match (x.get(k), y.get(k)) {
                        (Some(p), Some(q)) => go(p, q, format!("{path}/{k}"), out, max),
                        (Some(p), None) => out.push(format!("{path}/{k}: only in first = {}", short(p))),
                        (None, Some(q)) => out.push(format!("{path}/{k}: only in second = {}", short(q))),
                        _ => {}
                    }
                }
            }
            (Value::Array(x), Value::Array(y)) if x.len() == y.len() => {
                for (i, (p, q)) in x.iter().zip(y.iter()).enumerate() {
                    go(p, q, format!("{path}[{i}]"), out, max);
                }
            }
            _ => out.push(format!("{path}: {} != {}", short(a), short(b))),
        }
    }
    let mut out = Vec::new();
    go(a, b, String::new(), &mut out, max);
    out
}
