//! Test PKI generator: keys, X.509 certificates with full control over every field, PEM helpers
//! and a thin wrapper around the OpenSSL command line tool (the independent verifier).
//!
//! Certificates are DER-encoded by this module itself (see [`der`]); the `openssl` crate is only
//! used to generate keys and to compute signatures.  That gives control over things the
//! `X509Builder` API cannot express: version field present/absent, issuer/subject unique IDs,
//! arbitrary (unknown, critical) extensions, signature AlgorithmIdentifier (incl. RSASSA-PSS
//! parameters, md5/sha1), mismatching inner/outer algorithm, arbitrary issuer names, AKI/SKI
//! values that do not match any key.
//!
//! Typical use:
//! ```ignore
//! let root_k = Key::pooled(KeyKind::P256, 0);
//! let root = issue(&CertSpec::ca("Root", None), &root_k, None);
//! let ee_k = Key::pooled(KeyKind::Ed25519, 1);
//! let ee = issue(&CertSpec::ee("Signer"), &ee_k, Some((&root, &root_k)));
//! let ok = openssl_verify(&VerifyArgs{ ee: &ee.der, untrusted: &[], anchors: &[root.der.clone()], ..Default::default() });
//! ```
//! Keys are random (OpenSSL RNG), not derived from VERIF_SEED: witnesses must therefore carry
//! the certificate PEMs themselves.  `Key::pooled(kind, slot)` caches one key per (kind, slot) for
//! the life of the process because RSA generation is slow.
use openssl::bn::BigNumContext;
use openssl::ec::{EcGroup, EcKey};
use openssl::ecdsa::EcdsaSig;
use openssl::hash::MessageDigest;
use openssl::nid::Nid;
use openssl::pkey::{Id, PKey, Private};
use openssl::rsa::{Padding, Rsa};
use openssl::sign::{RsaPssSaltlen, Signer};
use sha2::{Digest as _, Sha256};
use std::collections::HashMap;
use std::io::Write;
use std::path::PathBuf;
use std::process::{Command, Stdio};
use std::sync::{Arc, Mutex, OnceLock};

/// Path of the independent OpenSSL command line tool (3.5.x; has `verify`, `ts`, `ocsp`, `x509`).
pub const OPENSSL_CLI: &str = "/root/miniconda/bin/openssl";

// ------------------------------------------------------------------------------------------------
// DER writer / minimal reader
// ------------------------------------------------------------------------------------------------
pub mod der {
    pub fn len(n: usize) -> Vec<u8> {
        if n < 0x80 {
            vec![n as u8]
        } else {
            let b = n.to_be_bytes();
            let skip = b.iter().take_while(|x| **x == 0).count();
            let mut v = vec![0x80 | (b.len() - skip) as u8];
            v.extend_from_slice(&b[skip..]);
            v
        }
    }
    pub fn tlv(tag: u8, content: &[u8]) -> Vec<u8> {
        let mut v = vec![tag];
        v.extend(len(content.len()));
        v.extend_from_slice(content);
        v
    }
    pub fn cat(parts: &[Vec<u8>]) -> Vec<u8> {
        parts.iter().flat_map(|p| p.iter().copied()).collect()
    }
    pub fn seq(parts: &[Vec<u8>]) -> Vec<u8> {
        tlv(0x30, &cat(parts))
    }
    pub fn set(parts: &[Vec<u8>]) -> Vec<u8> {
        tlv(0x31, &cat(parts))
    }
    /// INTEGER from unsigned big-endian magnitude.
    pub fn uint(be: &[u8]) -> Vec<u8> {
        let mut b: Vec<u8> = be.iter().copied().skip_while(|x| *x == 0).collect();
        if b.is_empty() {
            b.push(0);
        }
        if b[0] & 0x80 != 0 {
            b.insert(0, 0);
        }
        tlv(0x02, &b)
    }
    pub fn uint_u64(v: u64) -> Vec<u8> {
        uint(&v.to_be_bytes())
    }
    /// INTEGER with exactly these content bytes (lets a caller write negative / non-minimal serials).
    pub fn int_raw(content: &[u8]) -> Vec<u8> {
        tlv(0x02, content)
    }
    pub fn oid(dotted: &str) -> Vec<u8> {
        let arcs: Vec<u64> = dotted.split('.').map(|a| a.trim().parse::<u64>().expect("oid arc")).collect();
        assert!(arcs.len() >= 2, "oid needs two arcs");
        let mut c = Vec::new();
        let mut push = |mut v: u64| {
            let mut tmp = vec![(v & 0x7f) as u8];
            v >>= 7;
            while v > 0 {
                tmp.push(0x80 | (v & 0x7f) as u8);
                v >>= 7;
            }
            tmp.reverse();
            c.extend(tmp);
        };
        push(arcs[0] * 40 + arcs[1]);
        for a in &arcs[2..] {
            push(*a);
        }
        tlv(0x06, &c)
    }
    pub fn null() -> Vec<u8> {
        vec![0x05, 0x00]
    }
    pub fn boolean(b: bool) -> Vec<u8> {
        vec![0x01, 0x01, if b { 0xff } else { 0x00 }]
    }
    pub fn octet(b: &[u8]) -> Vec<u8> {
        tlv(0x04, b)
    }
    pub fn bitstring(b: &[u8], unused: u8) -> Vec<u8> {
        let mut c = vec![unused];
        c.extend_from_slice(b);
        tlv(0x03, &c)
    }
    /// BIT STRING for a set of named bits (bit 0 = most significant bit of the first octet), DER-minimal.
    pub fn named_bits(bits: &[u8]) -> Vec<u8> {
        if bits.is_empty() {
            return tlv(0x03, &[0]);
        }
        let max = *bits.iter().max().unwrap() as usize;
        let mut bytes = vec![0u8; max / 8 + 1];
        for b in bits {
            bytes[*b as usize / 8] |= 0x80 >> (*b % 8);
        }
        let unused = 7 - (max % 8) as u8;
        bitstring(&bytes, unused)
    }
    pub fn utf8(s: &str) -> Vec<u8> {
        tlv(0x0c, s.as_bytes())
    }
    pub fn printable(s: &str) -> Vec<u8> {
        tlv(0x13, s.as_bytes())
    }
    pub fn ia5(s: &str) -> Vec<u8> {
        tlv(0x16, s.as_bytes())
    }
    /// Context-specific tag `[n]`; constructed (EXPLICIT wrapper) or primitive (IMPLICIT primitive).
    pub fn ctx(n: u8, constructed: bool, content: &[u8]) -> Vec<u8> {
        tlv(0x80 | if constructed { 0x20 } else { 0 } | n, content)
    }
    /// RFC 5280 Time: UTCTime through 2049, GeneralizedTime from 2050.
    pub fn time(unix: i64) -> Vec<u8> {
        let dt = chrono::DateTime::<chrono::Utc>::from_timestamp(unix, 0).expect("time");
        use chrono::Datelike;
        if dt.year() >= 1950 && dt.year() < 2050 {
            tlv(0x17, dt.format("%y%m%d%H%M%SZ").to_string().as_bytes())
        } else {
            tlv(0x18, dt.format("%Y%m%d%H%M%SZ").to_string().as_bytes())
        }
    }
    pub fn generalized_time(unix: i64) -> Vec<u8> {
        let dt = chrono::DateTime::<chrono::Utc>::from_timestamp(unix, 0).expect("time");
        tlv(0x18, dt.format("%Y%m%d%H%M%SZ").to_string().as_bytes())
    }

    /// Reads one TLV: (tag, content, rest).  Definite lengths only.
    pub fn read(buf: &[u8]) -> Option<(u8, &[u8], &[u8])> {
        if buf.len() < 2 {
            return None;
        }
        let tag = buf[0];
        let (l, hdr) = if buf[1] < 0x80 {
            (buf[1] as usize, 2)
        } else {
            let n = (buf[1] & 0x7f) as usize;
            if n == 0 || n > 4 || buf.len() < 2 + n {
                return None;
            }
            let mut l = 0usize;
            for b in &buf[2..2 + n] {
                l = (l << 8) | *b as usize;
            }
            (l, 2 + n)
        };
        if buf.len() < hdr + l {
            return None;
        }
        Some((tag, &buf[hdr..hdr + l], &buf[hdr + l..]))
    }
    /// Splits the content of a constructed value into its child TLVs (each returned *with* header).
    pub fn children(mut content: &[u8]) -> Vec<&[u8]> {
        let mut out = Vec::new();
        while !content.is_empty() {
            let Some((_, c, rest)) = read(content) else { break };
            let whole = content.len() - rest.len();
            let _ = c;
            out.push(&content[..whole]);
            content = rest;
        }
        out
    }
}

// ------------------------------------------------------------------------------------------------
// Well-known OIDs
// ------------------------------------------------------------------------------------------------
pub mod oids {
    pub const EKU_SERVER_AUTH: &str = "1.3.6.1.5.5.7.3.1";
    pub const EKU_CLIENT_AUTH: &str = "1.3.6.1.5.5.7.3.2";
    pub const EKU_CODE_SIGNING: &str = "1.3.6.1.5.5.7.3.3";
    pub const EKU_EMAIL_PROTECTION: &str = "1.3.6.1.5.5.7.3.4";
    pub const EKU_TIME_STAMPING: &str = "1.3.6.1.5.5.7.3.8";
    pub const EKU_OCSP_SIGNING: &str = "1.3.6.1.5.5.7.3.9";
    pub const EKU_DOCUMENT_SIGNING: &str = "1.3.6.1.5.5.7.3.36";
    pub const EKU_ANY: &str = "2.5.29.37.0";
    pub const EKU_C2PA_SIGNING: &str = "1.3.6.1.4.1.62558.2.1";

    pub const EXT_SKI: &str = "2.5.29.14";
    pub const EXT_KEY_USAGE: &str = "2.5.29.15";
    pub const EXT_SAN: &str = "2.5.29.17";
    pub const EXT_BASIC_CONSTRAINTS: &str = "2.5.29.19";
    pub const EXT_CERT_POLICIES: &str = "2.5.29.32";
    pub const EXT_AKI: &str = "2.5.29.35";
    pub const EXT_EKU: &str = "2.5.29.37";
    pub const EXT_AIA: &str = "1.3.6.1.5.5.7.1.1";
    pub const EXT_OCSP_NOCHECK: &str = "1.3.6.1.5.5.7.48.1.5";
    pub const AD_OCSP: &str = "1.3.6.1.5.5.7.48.1";

    pub const AT_CN: &str = "2.5.4.3";
    pub const AT_C: &str = "2.5.4.6";
    pub const AT_L: &str = "2.5.4.7";
    pub const AT_ST: &str = "2.5.4.8";
    pub const AT_O: &str = "2.5.4.10";
    pub const AT_OU: &str = "2.5.4.11";
}

/// KeyUsage bit numbers (RFC 5280 §4.2.1.3).
pub mod ku {
    pub const DIGITAL_SIGNATURE: u8 = 0;
    pub const NON_REPUDIATION: u8 = 1;
    pub const KEY_ENCIPHERMENT: u8 = 2;
    pub const DATA_ENCIPHERMENT: u8 = 3;
    pub const KEY_AGREEMENT: u8 = 4;
    pub const KEY_CERT_SIGN: u8 = 5;
    pub const CRL_SIGN: u8 = 6;
}

// ------------------------------------------------------------------------------------------------
// Keys
// ------------------------------------------------------------------------------------------------
#[derive(Clone, Copy, Debug, PartialEq, Eq, Hash, PartialOrd, Ord)]
pub enum KeyKind {
    Rsa1024,
    /// one bit below the profile minimum (boundary case)
    Rsa2047,
    Rsa2048,
    Rsa3072,
    P256,
    P384,
    P521,
    Secp256k1,
    BrainpoolP256r1,
    Ed25519,
}

impl KeyKind {
    pub fn name(&self) -> &'static str {
        match self {
            KeyKind::Rsa1024 => "rsa1024",
            KeyKind::Rsa2047 => "rsa2047",
            KeyKind::Rsa2048 => "rsa2048",
            KeyKind::Rsa3072 => "rsa3072",
            KeyKind::P256 => "p256",
            KeyKind::P384 => "p384",
            KeyKind::P521 => "p521",
            KeyKind::Secp256k1 => "secp256k1",
            KeyKind::BrainpoolP256r1 => "brainpoolP256r1",
            KeyKind::Ed25519 => "ed25519",
        }
    }
    pub fn is_rsa(&self) -> bool {
        matches!(self, KeyKind::Rsa1024 | KeyKind::Rsa2047 | KeyKind::Rsa2048 | KeyKind::Rsa3072)
    }
    pub fn is_ec(&self) -> bool {
        matches!(self, KeyKind::P256 | KeyKind::P384 | KeyKind::P521 | KeyKind::Secp256k1 | KeyKind::BrainpoolP256r1)
    }
    /// Size in bytes of one ECDSA signature component (r or s) for EC kinds.
    pub fn ec_field_len(&self) -> usize {
        match self {
            KeyKind::P256 | KeyKind::Secp256k1 | KeyKind::BrainpoolP256r1 => 32,
            KeyKind::P384 => 48,
            KeyKind::P521 => 66,
            _ => 0,
        }
    }
}

/// Message digest used inside a signature.
#[derive(Clone, Copy, Debug, PartialEq, Eq, Hash)]
pub enum Md {
    Md5,
    Sha1,
    Sha256,
    Sha384,
    Sha512,
}

impl Md {
    pub fn ossl(&self) -> MessageDigest {
        match self {
            Md::Md5 => MessageDigest::md5(),
            Md::Sha1 => MessageDigest::sha1(),
            Md::Sha256 => MessageDigest::sha256(),
            Md::Sha384 => MessageDigest::sha384(),
            Md::Sha512 => MessageDigest::sha512(),
        }
    }
    pub fn name(&self) -> &'static str {
        match self {
            Md::Md5 => "md5",
            Md::Sha1 => "sha1",
            Md::Sha256 => "sha256",
            Md::Sha384 => "sha384",
            Md::Sha512 => "sha512",
        }
    }
    pub fn oid(&self) -> &'static str {
        match self {
            Md::Md5 => "1.2.840.113549.2.5",
            Md::Sha1 => "1.3.14.3.2.26",
            Md::Sha256 => "2.16.840.1.101.3.4.2.1",
            Md::Sha384 => "2.16.840.1.101.3.4.2.2",
            Md::Sha512 => "2.16.840.1.101.3.4.2.3",
        }
    }
    pub fn len(&self) -> usize {
        match self {
            Md::Md5 => 16,
            Md::Sha1 => 20,
            Md::Sha256 => 32,
            Md::Sha384 => 48,
            Md::Sha512 => 64,
        }
    }
}

pub struct Key {
    pub kind: KeyKind,
    pub pkey: PKey<Private>,
}

impl std::fmt::Debug for Key {
    fn fmt(&self, f: &mut std::fmt::Formatter<'_>) -> std::fmt::Result {
        write!(f, "Key({})", self.kind.name())
    }
}

fn ec_key(nid: Nid) -> PKey<Private> {
    let group = EcGroup::from_curve_name(nid).expect("curve");
    PKey::from_ec_key(EcKey::generate(&group).expect("ec keygen")).expect("pkey")
}

impl Key {
    pub fn generate(kind: KeyKind) -> Key {
        let pkey = match kind {
            KeyKind::Rsa1024 => PKey::from_rsa(Rsa::generate(1024).expect("rsa")).expect("pkey"),
            KeyKind::Rsa2047 => PKey::from_rsa(Rsa::generate(2047).expect("rsa")).expect("pkey"),
            KeyKind::Rsa2048 => PKey::from_rsa(Rsa::generate(2048).expect("rsa")).expect("pkey"),
            KeyKind::Rsa3072 => PKey::from_rsa(Rsa::generate(3072).expect("rsa")).expect("pkey"),
            KeyKind::P256 => ec_key(Nid::X9_62_PRIME256V1),
            KeyKind::P384 => ec_key(Nid::SECP384R1),
            KeyKind::P521 => ec_key(Nid::SECP521R1),
            KeyKind::Secp256k1 => ec_key(Nid::SECP256K1),
            KeyKind::BrainpoolP256r1 => ec_key(Nid::BRAINPOOL_P256R1),
            KeyKind::Ed25519 => PKey::generate_ed25519().expect("ed25519"),
        };
        Key { kind, pkey }
    }

    /// One cached key per (kind, slot) for the life of the process.
    pub fn pooled(kind: KeyKind, slot: usize) -> Arc<Key> {
        static POOL: OnceLock<Mutex<HashMap<(KeyKind, usize), Arc<Key>>>> = OnceLock::new();
        let pool = POOL.get_or_init(|| Mutex::new(HashMap::new()));
        if let Some(k) = pool.lock().unwrap().get(&(kind, slot)) {
            return k.clone();
        }
        // generate outside the lock (RSA is slow); a racing duplicate is harmless
        let k = Arc::new(Key::generate(kind));
        pool.lock().unwrap().entry((kind, slot)).or_insert(k).clone()
    }

    /// SubjectPublicKeyInfo, DER.
    pub fn spki_der(&self) -> Vec<u8> {
        self.pkey.public_key_to_der().expect("spki")
    }
    /// The subjectPublicKey BIT STRING contents (without the unused-bits octet).
    pub fn public_key_bits(&self) -> Vec<u8> {
        let spki = self.spki_der();
        let (_, body, _) = der::read(&spki).expect("spki seq");
        let kids = der::children(body);
        let (_, bits, _) = der::read(kids[1]).expect("spki bits");
        bits[1..].to_vec()
    }
    /// RFC 5280 §4.2.1.2 method (1): SHA-1 of the subjectPublicKey bits.
    pub fn key_id(&self) -> Vec<u8> {
        openssl::hash::hash(MessageDigest::sha1(), &self.public_key_bits()).expect("sha1").to_vec()
    }
    pub fn private_pem(&self) -> Vec<u8> {
        self.pkey.private_key_to_pem_pkcs8().expect("pem")
    }

    /// PKCS#1 v1.5 (RSA) / ECDSA (DER-encoded Ecdsa-Sig-Value) / Ed25519 signature over `data`.
    pub fn sign(&self, md: Md, data: &[u8]) -> Vec<u8> {
        if self.pkey.id() == Id::ED25519 {
            let mut s = Signer::new_without_digest(&self.pkey).expect("signer");
            return s.sign_oneshot_to_vec(data).expect("sign");
        }
        let mut s = Signer::new(md.ossl(), &self.pkey).expect("signer");
        s.update(data).expect("update");
        s.sign_to_vec().expect("sign")
    }
    /// RSASSA-PSS with MGF1(md) and salt length = digest length.
    pub fn sign_pss(&self, md: Md, data: &[u8]) -> Vec<u8> {
        let mut s = Signer::new(md.ossl(), &self.pkey).expect("signer");
        s.set_rsa_padding(Padding::PKCS1_PSS).expect("pss");
        s.set_rsa_mgf1_md(md.ossl()).expect("mgf1");
        s.set_rsa_pss_saltlen(RsaPssSaltlen::DIGEST_LENGTH).expect("salt");
        s.update(data).expect("update");
        s.sign_to_vec().expect("sign")
    }
    /// ECDSA in IEEE P1363 form (r || s, fixed width) as COSE wants it.
    pub fn sign_ecdsa_p1363(&self, md: Md, data: &[u8]) -> Vec<u8> {
        let der_sig = self.sign(md, data);
        let sig = EcdsaSig::from_der(&der_sig).expect("ecdsa der");
        let n = self.kind.ec_field_len() as i32;
        let mut out = sig.r().to_vec_padded(n).expect("r");
        out.extend(sig.s().to_vec_padded(n).expect("s"));
        out
    }
    #[allow(dead_code)]
    fn _ctx() -> BigNumContext {
        BigNumContext::new().expect("bn ctx")
    }
}

// ------------------------------------------------------------------------------------------------
// Signature algorithm identifiers
// ------------------------------------------------------------------------------------------------
#[derive(Clone, Debug, PartialEq, Eq)]
pub enum SigAlg {
    /// Pick the conventional algorithm for the issuer key: RSA → sha256WithRSAEncryption,
    /// P-256/k1/brainpool → ecdsa-with-SHA256, P-384 → SHA384, P-521 → SHA512, Ed25519 → Ed25519.
    Auto,
    RsaPkcs1(Md),
    RsaPss(Md),
    Ecdsa(Md),
    Ed25519,
}

impl SigAlg {
    pub fn resolve(&self, issuer: KeyKind) -> SigAlg {
        match self {
            SigAlg::Auto => match issuer {
                KeyKind::Rsa1024 | KeyKind::Rsa2047 | KeyKind::Rsa2048 | KeyKind::Rsa3072 => SigAlg::RsaPkcs1(Md::Sha256),
                KeyKind::P256 | KeyKind::Secp256k1 | KeyKind::BrainpoolP256r1 => SigAlg::Ecdsa(Md::Sha256),
                KeyKind::P384 => SigAlg::Ecdsa(Md::Sha384),
                KeyKind::P521 => SigAlg::Ecdsa(Md::Sha512),
                KeyKind::Ed25519 => SigAlg::Ed25519,
            },
            other => other.clone(),
        }
    }
    pub fn name(&self) -> String {
        match self {
            SigAlg::Auto => "auto".into(),
            SigAlg::RsaPkcs1(m) => format!("{}WithRSA", m.name()),
            SigAlg::RsaPss(m) => format!("rsapss-{}", m.name()),
            SigAlg::Ecdsa(m) => format!("ecdsa-{}", m.name()),
            SigAlg::Ed25519 => "ed25519".into(),
        }
    }
    /// AlgorithmIdentifier DER.
    pub fn alg_id(&self) -> Vec<u8> {
        match self {
            SigAlg::Auto => panic!("resolve SigAlg::Auto first"),
            SigAlg::RsaPkcs1(m) => {
                let o = match m {
                    Md::Md5 => "1.2.840.113549.1.1.4",
                    Md::Sha1 => "1.2.840.113549.1.1.5",
                    Md::Sha256 => "1.2.840.113549.1.1.11",
                    Md::Sha384 => "1.2.840.113549.1.1.12",
                    Md::Sha512 => "1.2.840.113549.1.1.13",
                };
                der::seq(&[der::oid(o), der::null()])
            }
            SigAlg::Ecdsa(m) => {
                let o = match m {
                    Md::Md5 => "1.2.840.10045.4.1", // no md5 variant exists; falls back to SHA1 OID
                    Md::Sha1 => "1.2.840.10045.4.1",
                    Md::Sha256 => "1.2.840.10045.4.3.2",
                    Md::Sha384 => "1.2.840.10045.4.3.3",
                    Md::Sha512 => "1.2.840.10045.4.3.4",
                };
                der::seq(&[der::oid(o)])
            }
            SigAlg::Ed25519 => der::seq(&[der::oid("1.3.101.112")]),
            SigAlg::RsaPss(m) => {
                let hash = der::seq(&[der::oid(m.oid()), der::null()]);
                let mgf = der::seq(&[der::oid("1.2.840.113549.1.1.8"), hash.clone()]);
                let params = der::seq(&[
                    der::ctx(0, true, &hash),
                    der::ctx(1, true, &mgf),
                    der::ctx(2, true, &der::uint_u64(m.len() as u64)),
                ]);
                der::seq(&[der::oid("1.2.840.113549.1.1.10"), params])
            }
        }
    }
    pub fn sign(&self, key: &Key, data: &[u8]) -> Vec<u8> {
        match self {
            SigAlg::Auto => self.resolve(key.kind).sign(key, data),
            SigAlg::RsaPkcs1(m) | SigAlg::Ecdsa(m) => key.sign(*m, data),
            SigAlg::RsaPss(m) => key.sign_pss(*m, data),
            SigAlg::Ed25519 => key.sign(Md::Sha512, data),
        }
    }
}

// ------------------------------------------------------------------------------------------------
// Names, extensions, certificate specification
// ------------------------------------------------------------------------------------------------
/// A distinguished name: a sequence of single-valued RDNs `(attribute OID, value)`.
#[derive(Clone, Debug, PartialEq, Eq, Default)]
pub struct Name(pub Vec<(String, String)>);

impl Name {
    pub fn new() -> Name {
        Name(Vec::new())
    }
    /// `C=US, O=<o>, CN=<cn>` — O= is needed by the SDK (`issuer_org`), CN for readability.
    pub fn simple(o: &str, cn: &str) -> Name {
        Name(vec![
            (oids::AT_C.into(), "US".into()),
            (oids::AT_O.into(), o.into()),
            (oids::AT_CN.into(), cn.into()),
        ])
    }
    pub fn with(mut self, oid: &str, v: &str) -> Name {
        self.0.push((oid.into(), v.into()));
        self
    }
    pub fn der(&self) -> Vec<u8> {
        let rdns: Vec<Vec<u8>> = self
            .0
            .iter()
            .map(|(o, v)| {
                let val = if o == oids::AT_C { der::printable(v) } else { der::utf8(v) };
                der::set(&[der::seq(&[der::oid(o), val])])
            })
            .collect();
        der::seq(&rdns)
    }
    pub fn text(&self) -> String {
        self.0.iter().map(|(o, v)| format!("{o}={v}")).collect::<Vec<_>>().join(",")
    }
}

#[derive(Clone, Debug, PartialEq, Eq)]
pub enum Ext {
    BasicConstraints { critical: bool, ca: bool, path_len: Option<u32> },
    /// bits: see [`ku`]
    KeyUsage { critical: bool, bits: Vec<u8> },
    /// dotted OIDs, in order
    Eku { critical: bool, oids: Vec<String> },
    /// None → computed from the subject key (SHA-1 of the public key bits)
    Ski(Option<Vec<u8>>),
    /// keyIdentifier form. None → the issuer's key id (issuer key; for a self-signed certificate the subject key)
    Aki(Option<Vec<u8>>),
    /// authorityInfoAccess with one id-ad-ocsp URI
    AiaOcsp(String),
    /// id-pkix-ocsp-nocheck (NULL)
    OcspNoCheck,
    /// any extension: `value` is the DER that goes *inside* the extnValue OCTET STRING
    Raw { oid: String, critical: bool, value: Vec<u8> },
}

impl Ext {
    fn der(&self, subject_key: &Key, issuer_key: &Key) -> Vec<u8> {
        let (oid, critical, value) = match self {
            Ext::BasicConstraints { critical, ca, path_len } => {
                let mut parts = Vec::new();
                if *ca {
                    parts.push(der::boolean(true));
                }
                if let Some(p) = path_len {
                    parts.push(der::uint_u64(*p as u64));
                }
                (oids::EXT_BASIC_CONSTRAINTS.to_string(), *critical, der::seq(&parts))
            }
            Ext::KeyUsage { critical, bits } => (oids::EXT_KEY_USAGE.to_string(), *critical, der::named_bits(bits)),
            Ext::Eku { critical, oids: list } => {
                let parts: Vec<Vec<u8>> = list.iter().map(|o| der::oid(o)).collect();
                (oids::EXT_EKU.to_string(), *critical, der::seq(&parts))
            }
            Ext::Ski(v) => {
                let id = v.clone().unwrap_or_else(|| subject_key.key_id());
                (oids::EXT_SKI.to_string(), false, der::octet(&id))
            }
            Ext::Aki(v) => {
                let id = v.clone().unwrap_or_else(|| issuer_key.key_id());
                (oids::EXT_AKI.to_string(), false, der::seq(&[der::ctx(0, false, &id)]))
            }
            Ext::AiaOcsp(uri) => {
                let ad = der::seq(&[der::oid(oids::AD_OCSP), der::ctx(6, false, uri.as_bytes())]);
                (oids::EXT_AIA.to_string(), false, der::seq(&[ad]))
            }
            Ext::OcspNoCheck => (oids::EXT_OCSP_NOCHECK.to_string(), false, der::null()),
            Ext::Raw { oid, critical, value } => (oid.clone(), *critical, value.clone()),
        };
        let mut parts = vec![der::oid(&oid)];
        if critical {
            parts.push(der::boolean(true));
        }
        parts.push(der::octet(&value));
        der::seq(&parts)
    }
    pub fn eku(list: &[&str]) -> Ext {
        Ext::Eku { critical: false, oids: list.iter().map(|s| s.to_string()).collect() }
    }
    pub fn key_usage(bits: &[u8]) -> Ext {
        Ext::KeyUsage { critical: true, bits: bits.to_vec() }
    }
}

pub fn now_unix() -> i64 {
    std::time::SystemTime::now().duration_since(std::time::UNIX_EPOCH).map(|d| d.as_secs() as i64).unwrap_or(0)
}

pub const DAY: i64 = 86_400;

#[derive(Clone, Debug, PartialEq, Eq)]
pub struct CertSpec {
    /// Value of the version field (0 = v1, 1 = v2, 2 = v3); None = field absent (which means v1).
    pub version: Option<u8>,
    /// Serial number magnitude, big-endian (encoded as a positive INTEGER).
    pub serial: Vec<u8>,
    pub subject: Name,
    /// None → the issuer certificate's subject (or the own subject when self-signed).
    pub issuer: Option<Name>,
    pub not_before: i64,
    pub not_after: i64,
    pub issuer_uid: Option<Vec<u8>>,
    pub subject_uid: Option<Vec<u8>>,
    /// None → no extensions field at all; Some(vec![]) → empty SEQUENCE
    pub extensions: Option<Vec<Ext>>,
    /// signatureAlgorithm used to sign and written in both places
    pub sig_alg: SigAlg,
    /// if set, written in the *inner* (TBSCertificate.signature) field instead of `sig_alg`
    pub inner_sig_alg: Option<SigAlg>,
}

fn fresh_serial() -> Vec<u8> {
    static CTR: std::sync::atomic::AtomicU64 = std::sync::atomic::AtomicU64::new(1);
    let n = CTR.fetch_add(1, std::sync::atomic::Ordering::Relaxed);
    let mut v = vec![0x40u8];
    v.extend_from_slice(&(std::process::id() as u32).to_be_bytes());
    v.extend_from_slice(&n.to_be_bytes());
    v
}

impl CertSpec {
    /// v3, unique positive serial, valid from 30 days ago for 10 years, no extensions.
    pub fn bare(subject: Name) -> CertSpec {
        let now = now_unix();
        CertSpec {
            version: Some(2),
            serial: fresh_serial(),
            subject,
            issuer: None,
            not_before: now - 30 * DAY,
            not_after: now + 3650 * DAY,
            issuer_uid: None,
            subject_uid: None,
            extensions: Some(Vec::new()),
            sig_alg: SigAlg::Auto,
            inner_sig_alg: None,
        }
    }
    /// RFC 5280-conforming CA: BC critical CA:TRUE (+pathLen), KU critical keyCertSign|cRLSign, SKI, AKI.
    pub fn ca(cn: &str, path_len: Option<u32>) -> CertSpec {
        let mut s = CertSpec::bare(Name::simple("Verif Test PKI", cn));
        s.extensions = Some(vec![
            Ext::BasicConstraints { critical: true, ca: true, path_len },
            Ext::key_usage(&[ku::KEY_CERT_SIGN, ku::CRL_SIGN]),
            Ext::Ski(None),
            Ext::Aki(None),
        ]);
        s
    }
    /// C2PA-profile-conforming end-entity signer: BC CA:FALSE critical, KU critical digitalSignature,
    /// EKU emailProtection, SKI, AKI; subject carries O=.
    pub fn ee(cn: &str) -> CertSpec {
        let mut s = CertSpec::bare(Name::simple("Verif Test Signer Org", cn));
        s.not_after = now_unix() + 365 * DAY;
        s.extensions = Some(vec![
            Ext::BasicConstraints { critical: true, ca: false, path_len: None },
            Ext::key_usage(&[ku::DIGITAL_SIGNATURE]),
            Ext::eku(&[oids::EKU_EMAIL_PROTECTION]),
            Ext::Ski(None),
            Ext::Aki(None),
        ]);
        s
    }
    /// Time-stamping authority end-entity (EKU critical, timeStamping only).
    pub fn tsa(cn: &str) -> CertSpec {
        let mut s = CertSpec::ee(cn);
        s.set_ext(Ext::Eku { critical: true, oids: vec![oids::EKU_TIME_STAMPING.into()] });
        s
    }
    /// OCSP responder end-entity (EKU OCSPSigning, ocsp-nocheck).
    pub fn ocsp_responder(cn: &str) -> CertSpec {
        let mut s = CertSpec::ee(cn);
        s.set_ext(Ext::eku(&[oids::EKU_OCSP_SIGNING]));
        s.push_ext(Ext::OcspNoCheck);
        s
    }

    fn same_kind(a: &Ext, b: &Ext) -> bool {
        match (a, b) {
            (Ext::Raw { oid: x, .. }, Ext::Raw { oid: y, .. }) => x == y,
            (Ext::Raw { .. }, _) | (_, Ext::Raw { .. }) => false,
            _ => std::mem::discriminant(a) == std::mem::discriminant(b),
        }
    }
    /// Replaces the extension of the same kind, or appends.
    pub fn set_ext(&mut self, e: Ext) -> &mut Self {
        let v = self.extensions.get_or_insert_with(Vec::new);
        if let Some(slot) = v.iter_mut().find(|x| Self::same_kind(x, &e)) {
            *slot = e;
        } else {
            v.push(e);
        }
        self
    }
    pub fn push_ext(&mut self, e: Ext) -> &mut Self {
        self.extensions.get_or_insert_with(Vec::new).push(e);
        self
    }
    /// Removes every extension for which `pred` is true.
    pub fn remove_ext(&mut self, pred: impl Fn(&Ext) -> bool) -> &mut Self {
        if let Some(v) = self.extensions.as_mut() {
            v.retain(|e| !pred(e));
        }
        self
    }
    pub fn without_aki(&mut self) -> &mut Self {
        self.remove_ext(|e| matches!(e, Ext::Aki(_)))
    }
    pub fn without_eku(&mut self) -> &mut Self {
        self.remove_ext(|e| matches!(e, Ext::Eku { .. }))
    }
    pub fn without_ku(&mut self) -> &mut Self {
        self.remove_ext(|e| matches!(e, Ext::KeyUsage { .. }))
    }
    pub fn without_bc(&mut self) -> &mut Self {
        self.remove_ext(|e| matches!(e, Ext::BasicConstraints { .. }))
    }
}

/// An issued certificate.
#[derive(Clone, Debug)]
pub struct Cert {
    pub der: Vec<u8>,
    pub tbs: Vec<u8>,
    pub spec: CertSpec,
    /// issuer name actually written
    pub issuer: Name,
    pub key_kind: KeyKind,
}

impl Cert {
    pub fn pem(&self) -> String {
        to_pem(&self.der)
    }
    /// base64(SHA-256(DER)) — the hash form of the SDK's allow list.
    pub fn sha256_b64(&self) -> String {
        use base64::Engine;
        base64::engine::general_purpose::STANDARD.encode(Sha256::digest(&self.der))
    }
}

/// Builds the TBSCertificate for `spec` (subject key `subject_key`; key ids taken from `issuer_key`).
pub fn build_tbs(spec: &CertSpec, subject_key: &Key, issuer_name: &Name, issuer_key: &Key) -> Vec<u8> {
    let outer = spec.sig_alg.resolve(issuer_key.kind);
    let inner = spec.inner_sig_alg.clone().map(|a| a.resolve(issuer_key.kind)).unwrap_or(outer);
    let mut parts = Vec::new();
    if let Some(v) = spec.version {
        parts.push(der::ctx(0, true, &der::uint_u64(v as u64)));
    }
    parts.push(der::uint(&spec.serial));
    parts.push(inner.alg_id());
    parts.push(issuer_name.der());
    parts.push(der::seq(&[der::time(spec.not_before), der::time(spec.not_after)]));
    parts.push(spec.subject.der());
    parts.push(subject_key.spki_der());
    if let Some(u) = &spec.issuer_uid {
        let mut c = vec![0u8];
        c.extend_from_slice(u);
        parts.push(der::ctx(1, false, &c));
    }
    if let Some(u) = &spec.subject_uid {
        let mut c = vec![0u8];
        c.extend_from_slice(u);
        parts.push(der::ctx(2, false, &c));
    }
    if let Some(exts) = &spec.extensions {
        if !exts.is_empty() {
            let list: Vec<Vec<u8>> = exts.iter().map(|e| e.der(subject_key, issuer_key)).collect();
            parts.push(der::ctx(3, true, &der::seq(&list)));
        }
    }
    der::seq(&parts)
}

/// Signs a TBSCertificate (or any TBS structure: the same framing is used by CRLs) and returns
/// `SEQUENCE { tbs, algId, BIT STRING signature }`.
pub fn sign_tbs(tbs: &[u8], alg: &SigAlg, issuer_key: &Key) -> Vec<u8> {
    let alg = alg.resolve(issuer_key.kind);
    let sig = alg.sign(issuer_key, tbs);
    der::seq(&[tbs.to_vec(), alg.alg_id(), der::bitstring(&sig, 0)])
}

/// Issues a certificate.  `issuer = None` → self-signed with `subject_key`.
pub fn issue(spec: &CertSpec, subject_key: &Key, issuer: Option<(&Cert, &Key)>) -> Cert {
    let (issuer_name, issuer_key): (Name, &Key) = match issuer {
        Some((c, k)) => (spec.issuer.clone().unwrap_or_else(|| c.spec.subject.clone()), k),
        None => (spec.issuer.clone().unwrap_or_else(|| spec.subject.clone()), subject_key),
    };
    let tbs = build_tbs(spec, subject_key, &issuer_name, issuer_key);
    let der = sign_tbs(&tbs, &spec.sig_alg, issuer_key);
    Cert { der, tbs, spec: spec.clone(), issuer: issuer_name, key_kind: subject_key.kind }
}

// ------------------------------------------------------------------------------------------------
// PEM
// ------------------------------------------------------------------------------------------------
pub fn to_pem_label(label: &str, der_bytes: &[u8]) -> String {
    use base64::Engine;
    let b64 = base64::engine::general_purpose::STANDARD.encode(der_bytes);
    let mut s = format!("-----BEGIN {label}-----\n");
    for chunk in b64.as_bytes().chunks(64) {
        s.push_str(std::str::from_utf8(chunk).unwrap());
        s.push('\n');
    }
    s.push_str(&format!("-----END {label}-----\n"));
    s
}
pub fn to_pem(der_bytes: &[u8]) -> String {
    to_pem_label("CERTIFICATE", der_bytes)
}
pub fn pem_bundle(ders: &[Vec<u8>]) -> String {
    ders.iter().map(|d| to_pem(d)).collect()
}
/// All `-----BEGIN x----- … -----END x-----` blocks of `text`, decoded (label ignored).
pub fn pem_to_ders(text: &str) -> Vec<Vec<u8>> {
    use base64::Engine;
    let mut out = Vec::new();
    let mut cur: Option<String> = None;
    for line in text.lines() {
        let l = line.trim();
        if l.starts_with("-----BEGIN") {
            cur = Some(String::new());
        } else if l.starts_with("-----END") {
            if let Some(b) = cur.take() {
                if let Ok(d) = base64::engine::general_purpose::STANDARD.decode(b) {
                    out.push(d);
                }
            }
        } else if let Some(b) = cur.as_mut() {
            b.push_str(l);
        }
    }
    out
}

// ------------------------------------------------------------------------------------------------
// OpenSSL command line (independent oracle)
// ------------------------------------------------------------------------------------------------
#[derive(Debug, Clone)]
pub struct CliOutput {
    pub status: Option<i32>,
    pub stdout: Vec<u8>,
    pub stderr: Vec<u8>,
}
impl CliOutput {
    pub fn ok(&self) -> bool {
        self.status == Some(0)
    }
    pub fn text(&self) -> String {
        format!("{}{}", String::from_utf8_lossy(&self.stdout), String::from_utf8_lossy(&self.stderr))
    }
}

pub fn openssl_cli_path() -> PathBuf {
    PathBuf::from(std::env::var("VERIF_OPENSSL").unwrap_or_else(|_| OPENSSL_CLI.to_string()))
}

/// Runs `openssl <args>` with `stdin`; Err = the tool could not be run at all (→ inconclusive).
pub fn openssl_cli(args: &[&str], stdin: &[u8], cwd: Option<&std::path::Path>) -> Result<CliOutput, String> {
    let mut cmd = Command::new(openssl_cli_path());
    cmd.args(args).stdin(Stdio::piped()).stdout(Stdio::piped()).stderr(Stdio::piped());
    cmd.env_remove("OPENSSL_CONF").env_remove("SSL_CERT_FILE").env_remove("SSL_CERT_DIR");
    if let Some(d) = cwd {
        cmd.current_dir(d);
    }
    let mut child = cmd.spawn().map_err(|e| format!("cannot run openssl cli: {e}"))?;
    if let Some(mut si) = child.stdin.take() {
        let _ = si.write_all(stdin);
    }
    let out = child.wait_with_output().map_err(|e| format!("openssl cli wait: {e}"))?;
    Ok(CliOutput { status: out.status.code(), stdout: out.stdout, stderr: out.stderr })
}

pub fn openssl_cli_version() -> Result<String, String> {
    let o = openssl_cli(&["version"], b"", None)?;
    if !o.ok() {
        return Err(format!("openssl version failed: {}", o.text()));
    }
    Ok(String::from_utf8_lossy(&o.stdout).trim().to_string())
}

#[derive(Clone, Debug, Default)]
pub struct VerifyArgs<'a> {
    pub ee: &'a [u8],
    /// `-untrusted` (DER each)
    pub untrusted: &'a [Vec<u8>],
    /// `-CAfile` (DER each); with `partial_chain` any of them terminates the path
    pub anchors: &'a [Vec<u8>],
    /// `-attime`
    pub attime: Option<i64>,
    /// `-no_check_time`
    pub no_check_time: bool,
    /// omit `-x509_strict`
    pub not_strict: bool,
    /// omit `-partial_chain`
    pub no_partial_chain: bool,
    pub extra: Vec<String>,
}

#[derive(Clone, Debug)]
pub struct VerifyResult {
    pub ok: bool,
    /// OpenSSL's "error N at D depth lookup: text" line(s), for the evidence
    pub detail: String,
}

/// `openssl verify -x509_strict -partial_chain [-attime T] -untrusted chain.pem -CAfile anchors.pem ee.pem`.
/// With an empty anchor set the answer is "not verified" without calling the tool (the CLI
/// would fall back to the system default store).
pub fn openssl_verify(a: &VerifyArgs) -> Result<VerifyResult, String> {
    if a.anchors.is_empty() {
        return Ok(VerifyResult { ok: false, detail: "no anchors".into() });
    }
    let dir = tempfile::tempdir().map_err(|e| format!("tempdir: {e}"))?;
    let p = |n: &str| dir.path().join(n);
    std::fs::write(p("ee.pem"), to_pem(a.ee)).map_err(|e| e.to_string())?;
    std::fs::write(p("anchors.pem"), pem_bundle(a.anchors)).map_err(|e| e.to_string())?;
    let mut args: Vec<String> = vec!["verify".into()];
    if !a.not_strict {
        args.push("-x509_strict".into());
    }
    if !a.no_partial_chain {
        args.push("-partial_chain".into());
    }
    if let Some(t) = a.attime {
        args.push("-attime".into());
        args.push(t.to_string());
    }
    if a.no_check_time {
        args.push("-no_check_time".into());
    }
    // never look at the machine's default trust store
    args.push("-no-CApath".into());
    args.push("-no-CAstore".into());
    args.push("-CAfile".into());
    args.push("anchors.pem".into());
    if !a.untrusted.is_empty() {
        std::fs::write(p("chain.pem"), pem_bundle(a.untrusted)).map_err(|e| e.to_string())?;
        args.push("-untrusted".into());
        args.push("chain.pem".into());
    }
    args.extend(a.extra.iter().cloned());
    args.push("ee.pem".into());
    let argv: Vec<&str> = args.iter().map(|s| s.as_str()).collect();
    let out = openssl_cli(&argv, b"", Some(dir.path()))?;
    let text = out.text();
    match out.status {
        Some(0) if text.contains("ee.pem: OK") => Ok(VerifyResult { ok: true, detail: String::new() }),
        Some(2) | Some(1) | Some(0) => {
            let detail: Vec<&str> = text.lines().filter(|l| l.starts_with("error ")).collect();
            if detail.is_empty() && !text.contains("verification failed") {
                return Err(format!("openssl verify: unexpected output: {}", text.trim()));
            }
            Ok(VerifyResult { ok: false, detail: detail.join("; ") })
        }
        other => Err(format!("openssl verify exited with {other:?}: {}", text.trim())),
    }
}

/// `openssl x509 -noout -text` of a DER certificate (sanity check that the tool parses what we wrote).
pub fn openssl_x509_text(der_bytes: &[u8]) -> Result<String, String> {
    let o = openssl_cli(&["x509", "-inform", "DER", "-noout", "-text"], der_bytes, None)?;
    if o.ok() {
        Ok(String::from_utf8_lossy(&o.stdout).to_string())
    } else {
        Err(o.text())
    }
}
