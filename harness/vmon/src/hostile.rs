//! Structure-aware hostile-input generators for C10 (and reusable elsewhere).
//!
//! Everything here works on the harness's own view of the formats (`fmt::parse`, `jumbf::parse_store`,
//! a linear CBOR head scanner, a DER length-form scanner); nothing calls SDK parsing code.
//! All arithmetic on attacker-controlled values is checked / saturating: these generators also run
//! in the `dbg` profile with overflow checks on.
use crate::fmt;
use crate::jumbf::{self, JBox};
use crate::rng::Rng;
use crate::storegen::{self, Edit};
use std::sync::OnceLock;

pub struct Mutant {
    /// mutator class, e.g. "byte", "elem-header", "store:cbor-deep"
    pub kind: String,
    pub bytes: Vec<u8>,
}

pub const MAX_MUTANT: usize = 6 << 20;

const EXTREMES: [u64; 12] = [0, 1, 2, 7, 8, 0x7F, 0x80, 0xFF, 0x7FFF_FFFF, 0x8000_0000, 0xFFFF_FFFF, u64::MAX];

fn put(v: &mut [u8], off: usize, width: usize, val: u64, le: bool) {
    if off.checked_add(width).map(|e| e <= v.len()) != Some(true) {
        return;
    }
    let b = if le { val.to_le_bytes() } else { val.to_be_bytes() };
    for i in 0..width {
        v[off + i] = if le { b[i] } else { b[8 - width + i] };
    }
}

fn get(v: &[u8], off: usize, width: usize, le: bool) -> Option<u64> {
    let s = v.get(off..off.checked_add(width)?)?;
    let mut x = 0u64;
    for i in 0..width {
        let byte = if le { s[width - 1 - i] } else { s[i] };
        x = (x << 8) | byte as u64;
    }
    Some(x)
}

fn field_value(rng: &mut Rng, cur: u64, remaining: u64) -> u64 {
    match rng.below(8) {
        0 => cur.wrapping_add(1),
        1 => cur.wrapping_sub(1),
        2 => remaining,
        3 => remaining.wrapping_add(1),
        4 => remaining.wrapping_sub(1),
        5 => cur.wrapping_mul(2),
        _ => *rng.pick(&EXTREMES),
    }
}

// ------------------------------------------------------------------------------------------------
// byte level

pub fn byte_level(base: &[u8], others: &[&[u8]], rng: &mut Rng) -> Vec<u8> {
    let mut v = base.to_vec();
    let n = 1 + rng.usize(4);
    for _ in 0..n {
        if v.is_empty() {
            v.push(rng.below(256) as u8);
            continue;
        }
        let p = rng.usize(v.len());
        match rng.below(10) {
            0 => v[p] ^= 1 << rng.below(8),
            1 => v[p] = *rng.pick(&[0u8, 0xFF, 0x7F, 0x80, 0x01]),
            2 => v[p] = rng.below(256) as u8,
            3 => {
                v.insert(p, rng.below(256) as u8);
            }
            4 => {
                v.remove(p);
            }
            5 => v.truncate(p),
            6 => {
                let e = (p + 1 + rng.usize(64)).min(v.len());
                let seg = v[p..e].to_vec();
                let times = *rng.pick(&[1usize, 2, 16]);
                for _ in 0..times {
                    v.splice(p..p, seg.iter().copied());
                }
            }
            7 => {
                let e = (p + 1 + rng.usize(256)).min(v.len());
                v.drain(p..e);
            }
            8 => {
                if let Some(o) = others.get(rng.usize(others.len().max(1))) {
                    if !o.is_empty() {
                        let a = rng.usize(o.len());
                        let e = (a + 1 + rng.usize(512)).min(o.len());
                        v.splice(p..p, o[a..e].iter().copied());
                    }
                }
            }
            _ => {
                let w = *rng.pick(&[2usize, 4, 8]);
                let val = *rng.pick(&EXTREMES);
                put(&mut v, p, w, val, rng.bool());
            }
        }
        if v.len() > MAX_MUTANT {
            v.truncate(MAX_MUTANT);
        }
    }
    v
}

// ------------------------------------------------------------------------------------------------
// container level (independent parsers)

/// Sets one integer inside the header of a structural element (chunk length, box size, segment length,
/// frame size, IFD count/offset …) to a boundary value.
pub fn elem_header(fmt_hint: &str, base: &[u8], rng: &mut Rng) -> Option<Vec<u8>> {
    let p = fmt::parse(fmt_hint, base).ok()?;
    if p.elems.is_empty() {
        return None;
    }
    let e = rng.pick(&p.elems);
    let hdr_end = if e.pay_start > e.start { e.pay_start } else { (e.start + 16).min(e.end()) };
    if hdr_end <= e.start {
        return None;
    }
    let mut v = base.to_vec();
    let w = *rng.pick(&[1usize, 2, 4, 4, 4, 8]);
    let span = hdr_end - e.start;
    let off = e.start + if span > w { rng.usize(span - w + 1) } else { 0 };
    let le = rng.bool();
    let cur = get(&v, off, w, le).unwrap_or(0);
    let remaining = (base.len() - off.min(base.len())) as u64;
    let val = field_value(rng, cur, remaining);
    put(&mut v, off, w, val, le);
    Some(v)
}

/// Finds an integer that looks like a length/offset (0 < v <= len) and sets it to a boundary value.
pub fn length_field(base: &[u8], rng: &mut Rng) -> Option<Vec<u8>> {
    if base.len() < 8 {
        return None;
    }
    for _ in 0..400 {
        let w = *rng.pick(&[2usize, 4, 4, 8]);
        let off = rng.usize(base.len() - w);
        let le = rng.bool();
        let cur = get(base, off, w, le)?;
        if cur == 0 || cur > base.len() as u64 {
            continue;
        }
        let mut v = base.to_vec();
        let val = field_value(rng, cur, (base.len() - off) as u64);
        put(&mut v, off, w, val, le);
        return Some(v);
    }
    None
}

/// Duplicates / deletes / swaps / massively repeats structural elements.
pub fn elem_shuffle(fmt_hint: &str, base: &[u8], rng: &mut Rng) -> Option<Vec<u8>> {
    let p = fmt::parse(fmt_hint, base).ok()?;
    if p.elems.len() < 2 {
        return None;
    }
    let i = rng.usize(p.elems.len());
    let e = &p.elems[i];
    let mut v = base.to_vec();
    match rng.below(4) {
        0 => {
            v.drain(e.start..e.end());
        }
        1 => {
            let seg = base[e.start..e.end()].to_vec();
            let times = (*rng.pick(&[1usize, 2, 100, 5000])).min((MAX_MUTANT / seg.len().max(1)).max(1));
            let mut rep = Vec::with_capacity(seg.len() * times);
            for _ in 0..times {
                rep.extend_from_slice(&seg);
            }
            v.splice(e.end()..e.end(), rep);
        }
        2 => {
            let j = rng.usize(p.elems.len());
            let f = &p.elems[j];
            if e.end() <= f.start {
                let (a, b) = (base[e.start..e.end()].to_vec(), base[f.start..f.end()].to_vec());
                let mid = base[e.end()..f.start].to_vec();
                let mut out = base[..e.start].to_vec();
                out.extend(b);
                out.extend(mid);
                out.extend(a);
                out.extend_from_slice(&base[f.end()..]);
                v = out;
            } else {
                return None;
            }
        }
        _ => {
            // move the element to the end / to the front
            let seg: Vec<u8> = v.drain(e.start..e.end()).collect();
            if rng.bool() {
                v.extend(seg);
            } else {
                let at = p.elems[0].end().min(v.len());
                v.splice(at..at, seg);
            }
        }
    }
    Some(v)
}

/// Wraps a region in N nested container headers (BMFF container boxes, RIFF LIST chunks, JXL boxes).
pub fn nest_container(fmt_hint: &str, base: &[u8], rng: &mut Rng) -> Option<Vec<u8>> {
    let fam = fmt::family(fmt_hint)?;
    let p = fmt::parse(fmt_hint, base).ok()?;
    if p.elems.len() < 2 {
        return None;
    }
    let depth = *rng.pick(&[2usize, 33, 200, 1000, 20_000]);
    // region = one element after the first (ftyp / RIFF header / signature)
    let e = &p.elems[1 + rng.usize(p.elems.len() - 1)];
    let inner = base[e.start..e.end()].to_vec();
    let mut body = inner;
    match fam {
        "bmff" | "jxl" => {
            let names: [&[u8; 4]; 9] = [b"moov", b"trak", b"mdia", b"minf", b"stbl", b"meta", b"udta", b"moof", b"traf"];
            let name = *rng.pick(&names);
            let mixed = rng.bool();
            for d in 0..depth {
                let n = if mixed { names[d % names.len()] } else { name };
                let mut b = Vec::with_capacity(body.len() + 12);
                let full = n == b"meta";
                b.extend_from_slice(&((body.len() + 8 + if full { 4 } else { 0 }) as u32).to_be_bytes());
                b.extend_from_slice(n);
                if full {
                    b.extend_from_slice(&[0, 0, 0, 0]);
                }
                b.extend(body);
                body = b;
                if body.len() > MAX_MUTANT {
                    break;
                }
            }
        }
        "riff" => {
            for _ in 0..depth {
                let mut b = Vec::with_capacity(body.len() + 12);
                b.extend_from_slice(b"LIST");
                b.extend_from_slice(&((body.len() + 4) as u32).to_le_bytes());
                b.extend_from_slice(b"INFO");
                b.extend(body);
                if b.len() % 2 == 1 {
                    b.push(0);
                }
                body = b;
                if body.len() > MAX_MUTANT {
                    break;
                }
            }
        }
        _ => return None,
    }
    let mut v = base[..e.start].to_vec();
    v.extend(body);
    v.extend_from_slice(&base[e.end()..]);
    if fam == "riff" && v.len() >= 8 {
        let sz = (v.len() - 8) as u32;
        v[4..8].copy_from_slice(&sz.to_le_bytes());
    }
    Some(v)
}

/// XML nesting / entity expansion for SVG (and any XML-ish text).
pub fn xml_hostile(base: &[u8], rng: &mut Rng) -> Option<Vec<u8>> {
    let s = std::str::from_utf8(base).ok()?;
    let open = s.find("<svg")?;
    let gt = open + s[open..].find('>')? + 1;
    let close = s.rfind("</svg>").unwrap_or(s.len());
    if close < gt {
        return None;
    }
    let n = *rng.pick(&[10usize, 300, 5000, 100_000]);
    let mut out = String::with_capacity(s.len() + n * 8);
    match rng.below(4) {
        0 => {
            out.push_str(&s[..gt]);
            for _ in 0..n {
                out.push_str("<g>");
            }
            out.push_str(&s[gt..close]);
            for _ in 0..n {
                out.push_str("</g>");
            }
            out.push_str(&s[close..]);
        }
        1 => {
            // nested <metadata> around the manifest element (if any) — unclosed
            out.push_str(&s[..gt]);
            for _ in 0..n {
                out.push_str("<metadata>");
            }
            out.push_str(&s[gt..]);
        }
        2 => {
            out.push_str("<?xml version=\"1.0\"?><!DOCTYPE svg [<!ENTITY a \"aaaaaaaaaaaaaaaaaaaaaaaaaaaaaaaa\">");
            for (i, c) in ('b'..='k').enumerate() {
                let prev = (b'a' + i as u8) as char;
                out.push_str(&format!("<!ENTITY {c} \"&{prev};&{prev};&{prev};&{prev};&{prev};&{prev};&{prev};&{prev};\">"));
            }
            out.push_str("]>");
            let body = s[open..].to_string();
            let gt2 = body.find('>').map(|x| x + 1).unwrap_or(0);
            out.push_str(&body[..gt2]);
            out.push_str("<title>&k;</title><c2pa:manifest>&k;</c2pa:manifest>");
            out.push_str(&body[gt2..]);
        }
        _ => {
            // huge attribute + huge base64 manifest body
            out.push_str(&s[..gt - 1]);
            out.push_str(" data-x=\"");
            for _ in 0..n.min(50_000) {
                out.push_str("AAAAAAAAAAAAAAAA");
            }
            out.push_str("\">");
            out.push_str(&s[gt..]);
        }
    }
    Some(out.into_bytes())
}

// ------------------------------------------------------------------------------------------------
// store level (JUMBF / CBOR / COSE / ASN.1 / brotli)

/// (offset, header width) of every CBOR item head, scanning the encoding linearly (string payloads skipped).
pub fn cbor_heads(b: &[u8]) -> Vec<(usize, usize)> {
    let mut out = Vec::new();
    let mut o = 0usize;
    while o < b.len() && out.len() < 100_000 {
        let ib = b[o];
        let major = ib >> 5;
        let ai = ib & 0x1F;
        let (w, arg) = match ai {
            0..=23 => (1usize, ai as u64),
            24 => (2, get(b, o + 1, 1, false).unwrap_or(0)),
            25 => (3, get(b, o + 1, 2, false).unwrap_or(0)),
            26 => (5, get(b, o + 1, 4, false).unwrap_or(0)),
            27 => (9, get(b, o + 1, 8, false).unwrap_or(0)),
            _ => (1, 0),
        };
        out.push((o, w));
        o = match o.checked_add(w) {
            Some(x) => x,
            None => break,
        };
        if (major == 2 || major == 3) && ai != 31 {
            o = match o.checked_add(arg.min(b.len() as u64) as usize) {
                Some(x) => x,
                None => break,
            };
        }
    }
    out
}

fn all_boxes(root: &JBox) -> Vec<&JBox> {
    let mut v = Vec::new();
    root.walk(&mut v);
    v
}

fn nested_superboxes(inner: &[u8], depth: usize, uuid: &[u8; 16]) -> Vec<u8> {
    let mut body = inner.to_vec();
    for d in 0..depth {
        body = storegen::make_superbox(uuid, &format!("n{}", d % 10), &body);
        if body.len() > MAX_MUTANT {
            break;
        }
    }
    body
}

fn deep_cbor(rng: &mut Rng) -> Vec<u8> {
    let n = *rng.pick(&[200usize, 5000, 100_000, 1_000_000]);
    let mut v = Vec::with_capacity(n + 16);
    match rng.below(5) {
        0 => v.extend(std::iter::repeat(0x81u8).take(n)), // [[[[…
        1 => {
            for _ in 0..n / 2 {
                v.extend_from_slice(&[0xA1, 0x00]); // {0: {0: …
            }
        }
        2 => v.extend(std::iter::repeat(0xC1u8).take(n)), // tag(1(tag(1(…
        3 => v.extend(std::iter::repeat(0x9Fu8).take(n)), // indefinite arrays
        _ => {
            for _ in 0..n / 2 {
                v.extend_from_slice(&[0xBF, 0x61, b'a']); // {_ "a": {_ "a": …
            }
        }
    }
    v.push(0x00);
    v
}

fn huge_len_cbor(rng: &mut Rng) -> Vec<u8> {
    let major: u8 = *rng.pick(&[2u8, 3, 4, 5]);
    let mut v = Vec::new();
    match rng.below(4) {
        0 => {
            v.push((major << 5) | 27);
            v.extend_from_slice(&(*rng.pick(&[u64::MAX, 1 << 62, 1 << 40, 0x1_0000_0000])).to_be_bytes());
        }
        1 => {
            v.push((major << 5) | 26);
            v.extend_from_slice(&(*rng.pick(&[u32::MAX, 0x7FFF_FFFF, 0x1000_0000, 50_000_000])).to_be_bytes());
        }
        2 => {
            // map with a plausible key then a huge value
            v.extend_from_slice(&[0xA1, 0x63, b'a', b'l', b'g', (major << 5) | 27]);
            v.extend_from_slice(&(1u64 << 48).to_be_bytes());
        }
        _ => {
            v.push((major << 5) | 31);
            v.push((major << 5) | 27);
            v.extend_from_slice(&u64::MAX.to_be_bytes());
        }
    }
    v.extend_from_slice(&[0x01, 0x02, 0x03]);
    v
}

static BOMBS: OnceLock<Vec<(usize, Vec<u8>)>> = OnceLock::new();

/// brotli streams that decompress to N zero bytes (a 40-byte plausible jumb header first).
fn bombs() -> &'static Vec<(usize, Vec<u8>)> {
    BOMBS.get_or_init(|| {
        let mut out = Vec::new();
        for mb in [2usize, 40, 300] {
            let n = mb << 20;
            let mut head = Vec::new();
            head.extend_from_slice(&(n as u32).to_be_bytes());
            head.extend_from_slice(b"jumb");
            let src = ZeroReader { head, pos: 0, total: n };
            let mut comp = Vec::new();
            let params = brotli::enc::BrotliEncoderParams { quality: 5, ..Default::default() };
            let mut r = src;
            if brotli::BrotliCompress(&mut r, &mut comp, &params).is_ok() {
                out.push((n, comp));
            }
        }
        out
    })
}

struct ZeroReader {
    head: Vec<u8>,
    pos: usize,
    total: usize,
}
impl std::io::Read for ZeroReader {
    fn read(&mut self, buf: &mut [u8]) -> std::io::Result<usize> {
        if self.pos >= self.total {
            return Ok(0);
        }
        let n = buf.len().min(self.total - self.pos);
        for (i, b) in buf[..n].iter_mut().enumerate() {
            let p = self.pos + i;
            *b = if p < self.head.len() { self.head[p] } else { 0 };
        }
        self.pos += n;
        Ok(n)
    }
}

const UUID_COMPRESSED_MANIFEST: [u8; 16] = [0x63, 0x32, 0x63, 0x6D, 0x00, 0x11, 0x00, 0x10, 0x80, 0x00, 0x00, 0xAA, 0x00, 0x38, 0x9B, 0x71];
const UUID_MANIFEST: [u8; 16] = [0x63, 0x32, 0x6D, 0x61, 0x00, 0x11, 0x00, 0x10, 0x80, 0x00, 0x00, 0xAA, 0x00, 0x38, 0x9B, 0x71];

fn brotli_of(data: &[u8]) -> Option<Vec<u8>> {
    let mut comp = Vec::new();
    let params = brotli::enc::BrotliEncoderParams { quality: 5, ..Default::default() };
    brotli::BrotliCompress(&mut std::io::Cursor::new(data), &mut comp, &params).ok()?;
    Some(comp)
}

/// One store-level mutant of the manifest store `store` (must parse with the independent walker).
pub fn store_mutant(store: &[u8], rng: &mut Rng) -> Option<Mutant> {
    let root = jumbf::parse_store(store)?;
    let boxes = all_boxes(&root);
    let pickbox = |rng: &mut Rng, pred: &dyn Fn(&JBox) -> bool| -> Option<JBox> {
        let c: Vec<&&JBox> = boxes.iter().filter(|b| pred(b)).collect();
        if c.is_empty() {
            None
        } else {
            Some((**c[rng.usize(c.len())]).clone())
        }
    };
    let choice = rng.below(13);
    let (kind, bytes): (&str, Vec<u8>) = match choice {
        0 => {
            // box size field
            let b = pickbox(rng, &|_| true)?;
            let mut v = store.to_vec();
            let cur = b.len as u64;
            let val = match rng.below(4) {
                0 => 1u64, // largesize follows (overwrites the first 8 payload bytes)
                _ => field_value(rng, cur, (store.len() - b.start) as u64),
            };
            put(&mut v, b.start, 4, val & 0xFFFF_FFFF, false);
            if val == 1 {
                put(&mut v, b.start + 8, 8, *rng.pick(&[0u64, 15, 16, u64::MAX, 1 << 40, cur + 8]), false);
            }
            ("store:box-size", v)
        }
        1 => {
            let b = pickbox(rng, &|b| &b.typ == b"jumb")?;
            let depth = *rng.pick(&[30usize, 31, 32, 33, 64, 1000, 30_000]);
            let uuid = b.uuid.unwrap_or(UUID_MANIFEST);
            let wrapped = nested_superboxes(&store[b.start..b.end()], depth, &uuid);
            ("store:box-nest", storegen::apply_edit(store, &root, b.start, &Edit::Replace(wrapped)))
        }
        2 => {
            let b = pickbox(rng, &|b| b.start != root.start)?;
            let times = (*rng.pick(&[2usize, 50, 2000, 50_000])).min((MAX_MUTANT / b.len.max(1)).max(1));
            let mut rep = Vec::with_capacity(b.len * times);
            for _ in 0..times {
                rep.extend_from_slice(&store[b.start..b.end()]);
            }
            ("store:box-dup", storegen::apply_edit(store, &root, b.start, &Edit::InsertAfter(rep)))
        }
        3 | 4 => {
            // CBOR head mutation in place
            let b = pickbox(rng, &|b| &b.typ == b"cbor")?;
            let pay = &store[b.payload_start()..b.end()];
            let heads = cbor_heads(pay);
            if heads.is_empty() {
                return None;
            }
            let (ho, w) = heads[rng.usize(heads.len())];
            let mut v = store.to_vec();
            let at = b.payload_start() + ho;
            let major = v[at] & 0xE0;
            match rng.below(5) {
                0 => v[at] = major | 31,
                1 => {
                    v[at] = major | 27;
                    put(&mut v, at + 1, 8, *rng.pick(&[u64::MAX, 1 << 62, 1 << 33, 0xFFFF_FFFF]), false);
                }
                2 => {
                    v[at] = major | 26;
                    put(&mut v, at + 1, 4, *rng.pick(&[0xFFFF_FFFFu64, 0x7FFF_FFFF, 0x0100_0000]), false);
                }
                3 if w > 1 => {
                    for i in 1..w {
                        v[at + i] = 0xFF;
                    }
                }
                _ => v[at] = (rng.below(8) as u8) << 5 | (v[at] & 0x1F),
            }
            ("store:cbor-head", v)
        }
        5 => {
            let b = pickbox(rng, &|b| &b.typ == b"cbor")?;
            let repl = jumbf::make_box(b"cbor", &deep_cbor(rng));
            ("store:cbor-deep", storegen::apply_edit(store, &root, b.start, &Edit::Replace(repl)))
        }
        6 => {
            let b = pickbox(rng, &|b| &b.typ == b"cbor")?;
            let repl = jumbf::make_box(b"cbor", &huge_len_cbor(rng));
            ("store:cbor-huge-len", storegen::apply_edit(store, &root, b.start, &Edit::Replace(repl)))
        }
        7 | 8 => {
            // ASN.1 length forms inside the signature box (x5chain certificates, TSA tokens …)
            let b = pickbox(rng, &|b| &b.typ == b"cbor" && b.path.contains("c2pa.signature")).or_else(|| pickbox(rng, &|b| &b.typ == b"cbor"))?;
            let (a, e) = (b.payload_start(), b.end());
            let mut cands = Vec::new();
            let mut i = a;
            while i + 4 <= e {
                if matches!(store[i], 0x30 | 0x31 | 0x04 | 0x03 | 0xA0 | 0xA3 | 0x06 | 0x02) && (store[i + 1] == 0x82 || store[i + 1] == 0x81 || store[i + 1] < 0x80) {
                    cands.push(i);
                }
                i += 1;
            }
            if cands.is_empty() {
                return None;
            }
            let at = cands[rng.usize(cands.len())];
            let mut v = store.to_vec();
            match rng.below(6) {
                0 => v[at + 1] = 0x80,
                1 => {
                    v[at + 1] = 0x84;
                    put(&mut v, at + 2, 4, *rng.pick(&[0xFFFF_FFFFu64, 0x7FFF_FFFF, 0x0001_0000]), false);
                }
                2 => {
                    v[at + 1] = 0x88;
                    put(&mut v, at + 2, 8, u64::MAX, false);
                }
                3 => v[at + 1] = 0xFF,
                4 => {
                    if v[at + 1] == 0x82 {
                        let cur = get(&v, at + 2, 2, false).unwrap_or(0);
                        put(&mut v, at + 2, 2, field_value(rng, cur, (e - at) as u64) & 0xFFFF, false);
                    } else {
                        v[at + 1] = v[at + 1].wrapping_add(1);
                    }
                }
                _ => v[at] = *rng.pick(&[0x1Fu8, 0x3F, 0xBF, 0x05, 0x24]), // high-tag-number / constructed forms
            }
            ("store:asn1-len", v)
        }
        9 | 10 => {
            // brotli: compressed-manifest superbox whose `brob` box is a bomb (or a valid compressed manifest)
            let ms = jumbf::manifests(&root);
            let m = (*ms.last()?).clone();
            let label = m.label.clone().unwrap_or_else(|| "urn:c2pa:00000000-0000-0000-0000-000000000000".into());
            let payload = if choice == 9 {
                let b = bombs();
                if b.is_empty() {
                    return None;
                }
                b[rng.usize(b.len())].1.clone()
            } else {
                let mut plain = store[m.start..m.end()].to_vec();
                if rng.bool() {
                    plain.extend(std::iter::repeat(0u8).take(*rng.pick(&[1usize << 20, 3 << 20])));
                }
                brotli_of(&plain)?
            };
            let sb = storegen::make_superbox(&UUID_COMPRESSED_MANIFEST, &label, &jumbf::make_box(b"brob", &payload));
            (if choice == 9 { "store:brotli-bomb" } else { "store:brotli-valid" }, storegen::apply_edit(store, &root, m.start, &Edit::Replace(sb)))
        }
        11 => {
            let b = pickbox(rng, &|b| &b.typ == b"jumd")?;
            let v = storegen::jumd_variant(store, &b, rng.below(5) as u8, &rng.bytes(32))?;
            ("store:jumd", v)
        }
        _ => {
            let b = pickbox(rng, &|b| b.start != root.start)?;
            let e = match rng.below(4) {
                0 => Edit::Delete,
                1 => Edit::LargeHeader,
                2 => Edit::SwapNext,
                _ => Edit::ZeroPayload,
            };
            ("store:box-edit", storegen::apply_edit(store, &root, b.start, &e))
        }
    };
    if bytes.len() > MAX_MUTANT * 2 {
        return None;
    }
    Some(Mutant { kind: kind.to_string(), bytes })
}

/// Locates a contiguous, unencoded manifest store inside an asset with the independent parser.
pub fn locate_store(fmt_hint: &str, asset: &[u8]) -> Option<(usize, usize)> {
    let p = fmt::parse(fmt_hint, asset).ok()?;
    let c = p.containers.first()?;
    if c.encoded || c.store_ranges.len() != 1 {
        return None;
    }
    let (s, l) = c.store_ranges[0];
    if s.checked_add(l)? <= asset.len() && asset[s..s + l] == c.store[..] {
        Some((s, l))
    } else {
        None
    }
}
