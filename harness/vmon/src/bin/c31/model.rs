//! The registry model (address -> (type, live)), the per-call oracle and the call dispatcher.
//!
//! The oracle is written from the property statement and the functions' doc comments:
//!  * a required handle argument that is NULL / not live in the model / live with another type
//!    => the call must return its error indicator and leave a non-empty `c2pa_error()`;
//!  * any call that returns its error indicator must leave a non-empty `c2pa_error()`;
//!  * `c2pa_free` of a live handle returns 0 and the handle leaves the registry; of a non-live
//!    non-NULL address returns an error;
//!  * handles documented as consumed are gone after a successful call;
//!  * after every call the registry (read through the hook) equals the model.
use crate::table::*;
use c2pa_c as api;
use api::utils::verif_hooks as hooks;
use std::collections::{BTreeMap, BTreeSet};
use std::ffi::CStr;
use std::io::{Cursor, Seek, SeekFrom, Write};
use std::os::raw::{c_char, c_void};

pub struct Slot {
    pub addr: usize,
    pub ty: Ty,
}

pub struct ArrSlot {
    pub addr: usize,
    pub count: usize,
    pub inner: Vec<usize>,
    pub live: bool,
}

#[derive(Default)]
pub struct Model {
    pub slots: Vec<Slot>,
    /// address -> (type, slot)
    pub live: BTreeMap<usize, (Ty, usize)>,
    /// slots that were released at some point (their address may have been reissued since)
    pub freed: Vec<usize>,
    pub arrays: Vec<ArrSlot>,
}

impl Model {
    pub fn live_of(&self, ty: Ty) -> Vec<usize> {
        self.live.values().filter(|(t, _)| *t == ty).map(|(_, s)| *s).collect()
    }
    pub fn live_not(&self, ty: Ty) -> Vec<usize> {
        self.live.values().filter(|(t, _)| *t != ty).map(|(_, s)| *s).collect()
    }
    pub fn live_slots(&self) -> Vec<usize> {
        self.live.values().map(|(_, s)| *s).collect()
    }
    pub fn slot_live(&self, slot: usize) -> bool {
        self.slots.get(slot).map(|s| self.live.get(&s.addr).map(|(_, sl)| *sl == slot).unwrap_or(false)).unwrap_or(false)
    }
    fn add(&mut self, addr: usize, ty: Ty) -> usize {
        let slot = self.slots.len();
        self.slots.push(Slot { addr, ty });
        self.live.insert(addr, (ty, slot));
        slot
    }
    fn remove(&mut self, addr: usize) {
        if let Some((_, slot)) = self.live.remove(&addr) {
            self.freed.push(slot);
        }
    }
}

#[derive(Clone, Debug)]
pub struct Viol {
    pub sig: String,
    pub what: String,
    pub call_index: usize,
}

#[derive(Debug, Clone, Copy)]
pub enum Ret {
    Ptr(usize),
    Int(i64),
    Bool(bool),
    Void,
}

#[derive(Default, Debug)]
pub struct StepOut {
    pub new_slot: Option<usize>,
    pub out_slot: Option<usize>,
    pub new_arr: Option<usize>,
    pub failed: bool,
    pub ret_int: i64,
}

struct Cls {
    label: String,
    bad: bool,
    /// (address, Some((live type, slot)) if live in the model at call time)
    handle: Option<(usize, Option<(Ty, usize)>)>,
}

fn trace_on() -> bool {
    static T: std::sync::OnceLock<bool> = std::sync::OnceLock::new();
    *T.get_or_init(|| std::env::var("VERIF_C31_TRACE").is_ok())
}

pub fn sig_class(label: &str) -> &'static str {
    match label {
        "null" => "null",
        "wrongtype" | "reissued-wrong" => "wrongtype",
        "freed" | "foreign-buf" | "misaligned" | "smallint" | "randbuf" | "interior" => "untracked",
        "freed-array" | "foreign-array" => "untracked-array",
        "null-str" => "null-str",
        "null-buf" => "null-buf",
        "null-out" => "null-out",
        "null-info" => "null-info",
        _ => "valid",
    }
}

pub struct Hist<'a> {
    pub fx: &'a Fixt,
    pub m: Model,
    backs: Vec<Box<Back>>,
    out_cell: Box<usize>,
    count_cell: Box<usize>,
    hash_cell: Box<u32>,
    foreign: Box<[u64; 32]>,
    randbuf: Box<[u64; 32]>,
    pub calls: Vec<Call>,
    pub log: Option<std::fs::File>,
    pub viols: Vec<Viol>,
    pub classes: BTreeMap<String, u64>,
    pub unjudged: BTreeMap<String, u64>,
    pub tainted: bool,
    pub last_error: String,
}

impl<'a> Hist<'a> {
    pub fn new(fx: &'a Fixt, log: Option<std::fs::File>, header: &str) -> Hist<'a> {
        let mut rb = Box::new([0u64; 32]);
        let mut r = vmon::Rng::new(31, "c31randbuf");
        for x in rb.iter_mut() {
            *x = r.next_u64() | 0x8000_0000_0000_0000;
        }
        let mut h = Hist {
            fx,
            m: Model::default(),
            backs: Vec::new(),
            out_cell: Box::new(0),
            count_cell: Box::new(0),
            hash_cell: Box::new(0),
            foreign: Box::new([0u64; 32]),
            randbuf: rb,
            calls: Vec::new(),
            log,
            viols: Vec::new(),
            classes: BTreeMap::new(),
            unjudged: BTreeMap::new(),
            tainted: false,
            last_error: String::new(),
        };
        if let Some(f) = h.log.as_mut() {
            let _ = f.set_len(0);
            let _ = f.seek(SeekFrom::Start(0));
            let _ = f.write_all(format!("{header}\n").as_bytes());
        }
        h
    }

    pub fn take_log(&mut self) -> Option<std::fs::File> {
        self.log.take()
    }

    pub fn back_bytes(&self, idx: usize) -> Vec<u8> {
        self.backs[idx].cur.get_ref().clone()
    }
    pub fn n_backs(&self) -> usize {
        self.backs.len()
    }

    fn viol(&mut self, sig: String, what: String) {
        let ci = self.calls.len().saturating_sub(1);
        self.viols.push(Viol { sig, what, call_index: ci });
    }

    fn foreign_ptr(&self, kind: &str) -> usize {
        let base = self.foreign.as_ptr() as usize;
        match kind {
            "foreign-buf" => base + 64,
            "misaligned" => base + 65,
            "smallint" => 0x10,
            "randbuf" => self.randbuf.as_ptr() as usize + 64,
            _ => base + 128,
        }
    }

    fn raw(&self, a: &A) -> (usize, usize) {
        match a {
            A::Slot { slot, .. } => (self.m.slots.get(*slot).map(|s| s.addr).unwrap_or(0x18), 0),
            A::Interior { slot } => (self.m.slots.get(*slot).map(|s| s.addr + 8).unwrap_or(0x18), 0),
            A::Null => (0, 0),
            A::Foreign { kind } => (self.foreign_ptr(kind), 0),
            A::Str { key } => (self.fx.cstr(key), 0),
            A::Buf { key } => self.fx.buf(key),
            A::Out { valid } => (if *valid { 1 } else { 0 }, 0),
            A::Num { v } => (*v as usize, 0),
            A::Arr { key } => (self.fx.arr(key), 0),
            A::Info { .. } => (0, 0),
            A::SArr { slot } => self.m.arrays.get(*slot).map(|s| (s.addr, s.count)).unwrap_or((0x18, 1)),
            A::SArrForeign { kind } => (self.foreign_ptr(kind), 1),
        }
    }

    fn classify(&self, f: &F, args: &[A]) -> Vec<Cls> {
        let mut out = Vec::new();
        for (p, a) in f.params.iter().zip(args.iter()) {
            let c = match p {
                P::H(..) | P::HOpt(_) | P::HAny => {
                    let (addr, _) = self.raw(a);
                    let want = match p {
                        P::H(t, _) | P::HOpt(t) => Some(*t),
                        _ => None,
                    };
                    if addr == 0 {
                        Cls { label: "null".into(), bad: matches!(p, P::H(..)), handle: None }
                    } else if let Some((lt, slot)) = self.m.live.get(&addr) {
                        let right = want.map(|t| t == *lt).unwrap_or(true);
                        let reissued = match a {
                            A::Slot { slot: s, .. } => *s != *slot,
                            _ => false,
                        };
                        let label = match (reissued, right) {
                            (false, true) => "live",
                            (false, false) => "wrongtype",
                            (true, true) => "reissued-right",
                            (true, false) => "reissued-wrong",
                        };
                        Cls { label: label.into(), bad: !right, handle: Some((addr, Some((*lt, *slot)))) }
                    } else {
                        let label = match a {
                            A::Slot { .. } => "freed".to_string(),
                            A::Interior { .. } => "interior".to_string(),
                            A::Foreign { kind } => kind.clone(),
                            _ => "foreign-buf".to_string(),
                        };
                        Cls { label, bad: true, handle: Some((addr, None)) }
                    }
                }
                P::S(kind, optional) => match a {
                    A::Str { key } if key == "null" => Cls { label: "null-str".into(), bad: !*optional, handle: None },
                    A::Str { key } => {
                        let (pool, nvalid) = str_pool(kind);
                        let ok = pool.iter().position(|k| k == key).map(|i| i < nvalid).unwrap_or(true);
                        Cls { label: if ok { "str".into() } else { "str-bad".into() }, bad: false, handle: None }
                    }
                    _ => Cls { label: "str".into(), bad: false, handle: None },
                },
                P::B(kind) => match a {
                    A::Buf { key } if key == "null" => Cls { label: "null-buf".into(), bad: *kind != "excl", handle: None },
                    _ => Cls { label: "buf".into(), bad: false, handle: None },
                },
                P::OutBytes | P::OutCount | P::OutHash => match a {
                    A::Out { valid: false } => Cls { label: "null-out".into(), bad: false, handle: None },
                    _ => Cls { label: "out".into(), bad: false, handle: None },
                },
                P::N(_) => Cls { label: "n".into(), bad: false, handle: None },
                P::Arr => Cls { label: "arr".into(), bad: false, handle: None },
                P::Info => match a {
                    A::Info { key } if key == "null" => Cls { label: "null-info".into(), bad: true, handle: None },
                    A::Info { key } if key == "null-field" => Cls { label: "null-str".into(), bad: true, handle: None },
                    _ => Cls { label: "info".into(), bad: false, handle: None },
                },
                P::SA => match a {
                    A::Null => Cls { label: "null".into(), bad: false, handle: None },
                    A::SArr { slot } if self.m.arrays.get(*slot).map(|s| s.live).unwrap_or(false) => {
                        Cls { label: "live-array".into(), bad: false, handle: None }
                    }
                    A::SArr { .. } => Cls { label: "freed-array".into(), bad: true, handle: None },
                    _ => Cls { label: "foreign-array".into(), bad: true, handle: None },
                },
            };
            out.push(c);
        }
        out
    }

    /// Reads and releases the library's last error message through the API.
    fn fetch_error(&mut self, fname: &str) -> String {
        unsafe {
            let e = api::c2pa_error();
            if e.is_null() {
                return String::new();
            }
            let s = CStr::from_ptr(e).to_string_lossy().into_owned();
            let tracked = hooks::registry_type_of(e as usize) == Some(Ty::CStr.type_id());
            let rc = api::c2pa_free(e as *const c_void);
            if !tracked || rc != 0 {
                self.viol(
                    "c2pa_error|ret|live|free-rejected".into(),
                    format!("string returned by c2pa_error() after {fname}: tracked={tracked}, c2pa_free -> {rc}"),
                );
            }
            s
        }
    }

    /// Executes one call against the library and judges it.
    pub fn step(&mut self, call: Call) -> StepOut {
        let fi = func(&call.f);
        let f = &FUNCS[fi];
        assert_eq!(f.params.len(), call.a.len(), "arity of {}", f.name);
        let cls = self.classify(f, &call.a);
        let must_fail = cls.iter().any(|c| c.bad);
        let first_bad = cls.iter().position(|c| c.bad).or_else(|| cls.iter().position(|c| c.label == "null-out"));
        let labels: Vec<String> = cls
            .iter()
            .filter(|c| c.handle.is_some() || c.label.starts_with("null") || c.label.ends_with("array") || c.label == "str-bad")
            .map(|c| c.label.clone())
            .collect();
        let bad_desc = first_bad.map(|i| (i, cls[i].label.clone()));
        self.calls.push(call.clone());
        if let Some(lf) = self.log.as_mut() {
            let line = serde_json::json!({"i": self.calls.len() - 1, "call": &call, "labels": cls.iter().map(|c| c.label.clone()).collect::<Vec<_>>(), "bad": bad_desc});
            let _ = lf.write_all(format!("{line}\n").as_bytes());
        }
        let sig_of = |outcome: &str| -> String {
            match &bad_desc {
                Some((i, l)) => format!("{}|{}|{}|{}", f.name, i, sig_class(l), outcome),
                None => format!("{}|valid|{}", f.name, outcome),
            }
        };

        // ---- the call -------------------------------------------------------------------
        let _ = api::CimplError::take_last();
        *self.out_cell = 0;
        *self.count_cell = usize::MAX;
        *self.hash_cell = 99;
        let ret = unsafe { self.dispatch(f, &call.a) };
        let mut so = StepOut::default();

        // ---- outcome --------------------------------------------------------------------
        let failed = match (f.ret, ret) {
            (R::Ptr(_), Ret::Ptr(p)) | (R::StrArr, Ret::Ptr(p)) => p == 0,
            (R::PtrOpt(_), Ret::Ptr(p)) => p == 0 && must_fail,
            (R::Int, Ret::Int(v)) => v < 0,
            (R::Bool, Ret::Bool(b)) => !b && must_fail,
            _ => false,
        };
        so.failed = failed;
        if let Ret::Int(v) = ret {
            so.ret_int = v;
        }
        let has_indicator = !matches!(f.ret, R::Void);
        let free_null = matches!(f.params.first(), Some(P::HAny)) && cls[0].label == "null";
        let outcome = match (f.ret, ret) {
            (R::Void, _) => "void",
            (R::Bool, Ret::Bool(b)) => {
                if b {
                    "true"
                } else {
                    "false"
                }
            }
            (R::PtrOpt(_), Ret::Ptr(0)) if !must_fail => "ok-null",
            _ => {
                if failed {
                    "err"
                } else {
                    "ok"
                }
            }
        };
        if must_fail && has_indicator && !failed {
            self.viol(sig_of("not-rejected"), format!("{} returned success ({:?}) although argument {:?} is invalid; labels {:?}", f.name, ret, bad_desc, labels));
        }
        if failed || (must_fail && matches!(f.ret, R::Bool | R::PtrOpt(_))) {
            let msg = self.fetch_error(f.name);
            if msg.is_empty() {
                self.viol(sig_of("no-error-message"), format!("{} returned its error indicator ({:?}) but c2pa_error() is empty; labels {:?}", f.name, ret, labels));
            }
            self.last_error = msg;
        } else if must_fail && !has_indicator {
            let msg = api::CimplError::last_message().unwrap_or_default();
            *self.unjudged.entry(format!("void-fn-invalid-arg:{}:message-{}", f.name, if msg.is_empty() { "absent" } else { "set" })).or_insert(0) += 1;
        }
        if free_null {
            *self.unjudged.entry(format!("free-null:{}:returned-{}", f.name, so.ret_int)).or_insert(0) += 1;
        }

        // ---- model update: arguments ----------------------------------------------------
        let ret_addr = match (f.ret, ret) {
            (R::Ptr(_), Ret::Ptr(p)) | (R::PtrOpt(_), Ret::Ptr(p)) if p != 0 => Some(p),
            _ => None,
        };
        let out_valid = f.params.iter().zip(call.a.iter()).any(|(p, a)| matches!(p, P::OutBytes) && matches!(a, A::Out { valid: true }));
        let out_addr = if out_valid && *self.out_cell != 0 { Some(*self.out_cell) } else { None };
        let fresh = |a: usize| Some(a) == ret_addr || Some(a) == out_addr;
        let success = !failed && !(must_fail && !has_indicator);
        let mut seen: BTreeSet<usize> = BTreeSet::new();
        for (i, (p, c)) in f.params.iter().zip(cls.iter()).enumerate() {
            let Some((addr, Some((lt, _slot)))) = c.handle else { continue };
            if !seen.insert(addr) {
                continue;
            }
            let registered = hooks::registry_type_of(addr).is_some() && !fresh(addr);
            let right = !c.bad;
            match p {
                P::H(_, Mode::Borrow) | P::HOpt(_) => {
                    if !registered {
                        self.viol(format!("{}|{}|live|vanished", f.name, i), format!("borrowed live {} handle left the registry", lt.name()));
                        self.m.remove(addr);
                    }
                }
                P::H(_, Mode::Consume) => {
                    if right && success {
                        if registered {
                            self.viol(format!("{}|{}|consume|still-registered", f.name, i), format!("{} succeeded but the consumed {} handle is still registered", f.name, lt.name()));
                        } else {
                            self.m.remove(addr);
                        }
                    } else if right {
                        // failure: the statement does not say; observe and follow
                        if registered {
                            *self.unjudged.entry(format!("consume-on-failure:{}:kept", f.name)).or_insert(0) += 1;
                        } else {
                            *self.unjudged.entry(format!("consume-on-failure:{}:consumed", f.name)).or_insert(0) += 1;
                            self.m.remove(addr);
                        }
                    } else if !registered {
                        self.viol(format!("{}|{}|wrongtype|vanished", f.name, i), format!("wrong-type live {} handle left the registry", lt.name()));
                        self.m.remove(addr);
                    }
                }
                P::H(_, Mode::Free) => {
                    if right {
                        if registered {
                            self.viol(format!("{}|{}|live|not-freed", f.name, i), format!("{} left the live {} handle registered", f.name, lt.name()));
                        } else {
                            self.m.remove(addr);
                        }
                    } else {
                        *self.unjudged.entry(format!("typed-free-wrongtype:{}:{}", f.name, if registered { "kept" } else { "freed" })).or_insert(0) += 1;
                        if !registered {
                            self.m.remove(addr);
                        }
                    }
                }
                P::HAny => {
                    if so.ret_int != 0 {
                        self.viol(format!("{}|{}|live|free-rejected", f.name, i), format!("{} of a live {} handle returned {} ({})", f.name, lt.name(), so.ret_int, self.last_error));
                    }
                    if registered {
                        self.viol(format!("{}|{}|live|not-freed", f.name, i), format!("{} left the live {} handle registered", f.name, lt.name()));
                    } else {
                        self.m.remove(addr);
                    }
                }
                _ => {}
            }
        }
        // string arrays
        if f.name == "c2pa_free_string_array" {
            if let A::SArr { slot } = &call.a[0] {
                if cls[0].label == "live-array" {
                    let inner = self.m.arrays[*slot].inner.clone();
                    for a in inner {
                        if self.m.live.contains_key(&a) {
                            if hooks::registry_type_of(a).is_some() {
                                self.viol("c2pa_free_string_array|0|live|not-freed".into(), "an element string is still registered after c2pa_free_string_array".into());
                            } else {
                                self.m.remove(a);
                            }
                        }
                    }
                    self.m.arrays[*slot].live = false;
                }
            }
        }

        // ---- model update: results ------------------------------------------------------
        if let (Some(addr), R::Ptr(ty) | R::PtrOpt(ty)) = (ret_addr, f.ret) {
            so.new_slot = self.adopt(f.name, "ret", addr, ty);
        }
        if let Some(addr) = out_addr {
            so.out_slot = self.adopt(f.name, "out", addr, Ty::Bytes);
        }
        if let (R::StrArr, Ret::Ptr(p)) = (f.ret, ret) {
            if p != 0 {
                let count = *self.count_cell;
                if count == usize::MAX || count > 4096 {
                    self.viol(format!("{}|ret|count-not-set", f.name), format!("count = {count}"));
                } else {
                    let mut inner = Vec::new();
                    for k in 0..count {
                        let e = unsafe { *(p as *const usize).add(k) };
                        inner.push(e);
                        self.adopt(f.name, "element", e, Ty::CStr);
                    }
                    self.m.arrays.push(ArrSlot { addr: p, count, inner, live: true });
                    so.new_arr = Some(self.m.arrays.len() - 1);
                }
            }
        }

        // ---- cross-check model == registry ----------------------------------------------
        let rl = hooks::registry_len();
        if rl != self.m.live.len() || self.calls.len() % 8 == 0 {
            let reg: BTreeSet<usize> = hooks::registry_addresses().into_iter().collect();
            let mine: BTreeSet<usize> = self.m.live.keys().copied().collect();
            if reg != mine {
                let extra: Vec<String> = reg.difference(&mine).map(|a| format!("{a:#x}")).collect();
                let missing: Vec<String> = mine.difference(&reg).map(|a| format!("{:#x}:{}", a, self.m.live[a].0.name())).collect();
                self.viol(
                    format!("{}|registry|model-mismatch", f.name),
                    format!("after {}: registry has {} entries, model {}; only in registry {:?}; only in model {:?}", f.name, reg.len(), mine.len(), extra, missing),
                );
                self.tainted = true;
            }
        }
        if trace_on() {
            eprintln!("TRACE {} [{}] -> {:?} {} {}", f.name, labels.join(","), ret, outcome, if failed { self.last_error.as_str() } else { "" });
        }
        let class = format!("{}|{}|{}", f.name, labels.join(","), outcome);
        *self.classes.entry(class).or_insert(0) += 1;
        so
    }

    fn adopt(&mut self, fname: &str, which: &str, addr: usize, ty: Ty) -> Option<usize> {
        if self.m.live.contains_key(&addr) {
            self.viol(format!("{fname}|{which}|live-address-reissued"), format!("{fname} returned {addr:#x} which the model holds live as {}", self.m.live[&addr].0.name()));
            return None;
        }
        match hooks::registry_type_of(addr) {
            Some(t) if t == ty.type_id() => Some(self.m.add(addr, ty)),
            Some(_) => {
                self.viol(format!("{fname}|{which}|registry-type-mismatch"), format!("{fname} result registered with a type other than {}", ty.name()));
                Some(self.m.add(addr, ty))
            }
            None => {
                self.viol(format!("{fname}|{which}|untracked-result"), format!("{fname} returned a {} pointer the registry does not know", ty.name()));
                None
            }
        }
    }

    /// Releases everything the model holds live, each with exactly one free call, and requires
    /// an empty registry afterwards.
    pub fn finish(&mut self) {
        for i in 0..self.m.arrays.len() {
            if self.m.arrays[i].live {
                self.step(Call { f: "c2pa_free_string_array".into(), a: vec![A::SArr { slot: i }] });
            }
        }
        let slots: Vec<usize> = self.m.live_slots();
        for s in slots {
            if self.m.slot_live(s) {
                self.step(Call { f: "c2pa_free".into(), a: vec![A::Slot { slot: s, intent: "live".into() }] });
            }
        }
        let left = hooks::registry_addresses();
        if !left.is_empty() {
            if !self.tainted {
                self.viol("end|registry|not-empty".into(), format!("{} entries left in the registry after freeing every handle the model held", left.len()));
            }
            for a in left {
                unsafe { api::c2pa_free(a as *const c_void) };
            }
        }
    }

    unsafe fn dispatch(&mut self, f: &F, a: &[A]) -> Ret {
        let rl: Vec<(usize, usize)> = a.iter().map(|x| self.raw(x)).collect();
        let v = |i: usize| rl[i].0;
        let l = |i: usize| rl[i].1;
        let s = |i: usize| rl[i].0 as *const c_char;
        let outp = |i: usize, cell: usize| if rl[i].0 == 1 { cell } else { 0 };
        let out_bytes = &mut *self.out_cell as *mut usize as usize;
        let out_count = &mut *self.count_cell as *mut usize as usize;
        let out_hash = &mut *self.hash_cell as *mut u32 as usize;
        let ptr = |p: *mut c_void| Ret::Ptr(p as usize);
        macro_rules! P {
            ($e:expr) => {
                Ret::Ptr(($e) as usize)
            };
        }
        macro_rules! I {
            ($e:expr) => {
                Ret::Int(($e) as i64)
            };
        }
        let _ = ptr;
        match f.name {
            "c2pa_version" => P!(api::c2pa_version()),
            "c2pa_error" => P!(api::c2pa_error()),
            "c2pa_error_set_last" => I!(api::c2pa_error_set_last(s(0))),
            "c2pa_load_settings" => I!(api::c2pa_load_settings(s(0), s(1))),
            "c2pa_settings_new" => P!(api::c2pa_settings_new()),
            "c2pa_settings_update_from_string" => I!(api::c2pa_settings_update_from_string(v(0) as _, s(1), s(2))),
            "c2pa_settings_set_value" => I!(api::c2pa_settings_set_value(v(0) as _, s(1), s(2))),
            "c2pa_context_builder_new" => P!(api::c2pa_context_builder_new()),
            "c2pa_context_builder_set_settings" => I!(api::c2pa_context_builder_set_settings(v(0) as _, v(1) as _)),
            "c2pa_context_builder_set_signer" => I!(api::c2pa_context_builder_set_signer(v(0) as _, v(1) as _)),
            "c2pa_context_builder_set_progress_callback" => I!(api::c2pa_context_builder_set_progress_callback(v(0) as _, std::ptr::null(), progress_cb)),
            "c2pa_http_resolver_create" => P!(api::c2pa_http_resolver_create(std::ptr::null(), http_cb)),
            "c2pa_context_builder_set_http_resolver" => I!(api::c2pa_context_builder_set_http_resolver(v(0) as _, v(1) as _)),
            "c2pa_context_builder_build" => P!(api::c2pa_context_builder_build(v(0) as _)),
            "c2pa_context_new" => P!(api::c2pa_context_new()),
            "c2pa_context_cancel" => I!(api::c2pa_context_cancel(v(0) as _)),
            "c2pa_release_string" => {
                api::c2pa_release_string(v(0) as _);
                Ret::Void
            }
            "c2pa_free" => I!(api::c2pa_free(v(0) as _)),
            "cimpl_free" => I!(api::cimpl_free(v(0) as _)),
            "c2pa_string_free" => {
                api::c2pa_string_free(v(0) as _);
                Ret::Void
            }
            "c2pa_free_string_array" => {
                api::c2pa_free_string_array(v(0) as _, l(0));
                Ret::Void
            }
            "c2pa_reader_new" => P!(api::c2pa_reader_new()),
            "c2pa_reader_from_context" => P!(api::c2pa_reader_from_context(v(0) as _)),
            "c2pa_reader_from_stream" => P!(api::c2pa_reader_from_stream(s(0), v(1) as _)),
            "c2pa_reader_with_stream" => P!(api::c2pa_reader_with_stream(v(0) as _, s(1), v(2) as _)),
            "c2pa_reader_with_manifest_data_and_stream" => P!(api::c2pa_reader_with_manifest_data_and_stream(v(0) as _, s(1), v(2) as _, v(3) as _, l(3))),
            "c2pa_reader_with_fragment" => P!(api::c2pa_reader_with_fragment(v(0) as _, s(1), v(2) as _, v(3) as _)),
            "c2pa_reader_from_file" => P!(api::c2pa_reader_from_file(s(0))),
            "c2pa_reader_from_manifest_data_and_stream" => P!(api::c2pa_reader_from_manifest_data_and_stream(s(0), v(1) as _, v(2) as _, l(2))),
            "c2pa_reader_free" => {
                api::c2pa_reader_free(v(0) as _);
                Ret::Void
            }
            "c2pa_reader_json" => P!(api::c2pa_reader_json(v(0) as _)),
            "c2pa_reader_detailed_json" => P!(api::c2pa_reader_detailed_json(v(0) as _)),
            "c2pa_reader_crjson" => P!(api::c2pa_reader_crjson(v(0) as _)),
            "c2pa_reader_remote_url" => P!(api::c2pa_reader_remote_url(v(0) as _)),
            "c2pa_reader_is_embedded" => Ret::Bool(api::c2pa_reader_is_embedded(v(0) as _)),
            "c2pa_reader_resource_to_stream" => I!(api::c2pa_reader_resource_to_stream(v(0) as _, s(1), v(2) as _)),
            "c2pa_reader_supported_mime_types" => P!(api::c2pa_reader_supported_mime_types(outp(0, out_count) as _)),
            "c2pa_builder_from_json" => P!(api::c2pa_builder_from_json(s(0))),
            "c2pa_builder_from_context" => P!(api::c2pa_builder_from_context(v(0) as _)),
            "c2pa_builder_from_archive" => P!(api::c2pa_builder_from_archive(v(0) as _)),
            "c2pa_builder_supported_mime_types" => P!(api::c2pa_builder_supported_mime_types(outp(0, out_count) as _)),
            "c2pa_builder_free" => {
                api::c2pa_builder_free(v(0) as _);
                Ret::Void
            }
            "c2pa_builder_with_definition" => P!(api::c2pa_builder_with_definition(v(0) as _, s(1))),
            "c2pa_builder_with_archive" => P!(api::c2pa_builder_with_archive(v(0) as _, v(1) as _)),
            "c2pa_builder_set_intent" => {
                let intent = match v(1) % 3 {
                    0 => api::C2paBuilderIntent::Create,
                    1 => api::C2paBuilderIntent::Edit,
                    _ => api::C2paBuilderIntent::Update,
                };
                let dst = match v(2) % 4 {
                    0 => api::C2paDigitalSourceType::Empty,
                    1 => api::C2paDigitalSourceType::DigitalCapture,
                    2 => api::C2paDigitalSourceType::TrainedAlgorithmicMedia,
                    _ => api::C2paDigitalSourceType::CompositeSynthetic,
                };
                I!(api::c2pa_builder_set_intent(v(0) as _, intent, dst))
            }
            "c2pa_builder_set_no_embed" => {
                api::c2pa_builder_set_no_embed(v(0) as _);
                Ret::Void
            }
            "c2pa_builder_set_remote_url" => I!(api::c2pa_builder_set_remote_url(v(0) as _, s(1))),
            "c2pa_builder_set_base_path" => I!(api::c2pa_builder_set_base_path(v(0) as _, s(1))),
            "c2pa_builder_add_resource" => I!(api::c2pa_builder_add_resource(v(0) as _, s(1), v(2) as _)),
            "c2pa_builder_add_ingredient_from_stream" => I!(api::c2pa_builder_add_ingredient_from_stream(v(0) as _, s(1), s(2), v(3) as _)),
            "c2pa_builder_add_action" => I!(api::c2pa_builder_add_action(v(0) as _, s(1))),
            "c2pa_builder_to_archive" => I!(api::c2pa_builder_to_archive(v(0) as _, v(1) as _)),
            "c2pa_builder_add_ingredient_from_archive" => I!(api::c2pa_builder_add_ingredient_from_archive(v(0) as _, v(1) as _)),
            "c2pa_builder_write_ingredient_archive" => I!(api::c2pa_builder_write_ingredient_archive(v(0) as _, s(1), v(2) as _)),
            "c2pa_builder_sign" => I!(api::c2pa_builder_sign(v(0) as _, s(1), v(2) as _, v(3) as _, v(4) as _, outp(5, out_bytes) as _)),
            "c2pa_builder_sign_context" => I!(api::c2pa_builder_sign_context(v(0) as _, s(1), v(2) as _, v(3) as _, outp(4, out_bytes) as _)),
            "c2pa_manifest_bytes_free" => {
                api::c2pa_manifest_bytes_free(v(0) as _);
                Ret::Void
            }
            "c2pa_builder_data_hashed_placeholder" => I!(api::c2pa_builder_data_hashed_placeholder(v(0) as _, v(1), s(2), outp(3, out_bytes) as _)),
            "c2pa_builder_sign_data_hashed_embeddable" => I!(api::c2pa_builder_sign_data_hashed_embeddable(v(0) as _, v(1) as _, s(2), s(3), v(4) as _, outp(5, out_bytes) as _)),
            "c2pa_builder_needs_placeholder" => I!(api::c2pa_builder_needs_placeholder(v(0) as _, s(1))),
            "c2pa_builder_hash_type" => I!(api::c2pa_builder_hash_type(v(0) as _, s(1), outp(2, out_hash) as _)),
            "c2pa_builder_placeholder" => I!(api::c2pa_builder_placeholder(v(0) as _, s(1), outp(2, out_bytes) as _)),
            "c2pa_builder_sign_embeddable" => I!(api::c2pa_builder_sign_embeddable(v(0) as _, s(1), outp(2, out_bytes) as _)),
            "c2pa_builder_set_data_hash_exclusions" => I!(api::c2pa_builder_set_data_hash_exclusions(v(0) as _, v(1) as _, l(1))),
            "c2pa_builder_set_fixed_size_merkle" => I!(api::c2pa_builder_set_fixed_size_merkle(v(0) as _, v(1))),
            "c2pa_builder_hash_mdat_bytes" => I!(api::c2pa_builder_hash_mdat_bytes(v(0) as _, v(1), v(2) as _, l(2), v(3) != 0)),
            "c2pa_builder_update_hash_from_stream" => I!(api::c2pa_builder_update_hash_from_stream(v(0) as _, s(1), v(2) as _)),
            "c2pa_format_embeddable" => I!(api::c2pa_format_embeddable(s(0), v(1) as _, l(1), outp(2, out_bytes) as _)),
            "c2pa_signer_create" => P!(api::c2pa_signer_create(self.fx.cstr("key:ed25519") as *const c_void, sign_cb, api::C2paSigningAlg::Ed25519, s(0), s(1))),
            "c2pa_identity_signer_create" => P!(api::c2pa_identity_signer_create(v(0) as _, v(1) as _, v(2) as _, v(3) as _)),
            "c2pa_signer_from_info" => {
                let key = match &a[0] {
                    A::Info { key } => key.as_str(),
                    _ => "null",
                };
                type Raw = unsafe extern "C" fn(*const api::C2paSignerInfo) -> *mut api::C2paSigner;
                // (through an untyped pointer: the parameter is `&C2paSignerInfo` or `*const C2paSignerInfo` depending on the tree; same ABI)
                let fp: Raw = std::mem::transmute(api::c2pa_signer_from_info as *const ());
                if key == "null" {
                    P!(fp(std::ptr::null()))
                } else {
                    let info = api::C2paSignerInfo {
                        alg: match key {
                            "bad-alg" => self.fx.cstr("alg:bad"),
                            "null-field" => 0,
                            _ => self.fx.cstr("alg:ed25519"),
                        } as *const c_char,
                        sign_cert: self.fx.cstr("pem:ed25519") as *const c_char,
                        private_key: self.fx.cstr(if key == "bad-key" { "key:bad" } else { "key:ed25519" }) as *const c_char,
                        ta_url: std::ptr::null(),
                    };
                    P!(fp(&info))
                }
            }
            "c2pa_signer_from_settings" => P!(api::c2pa_signer_from_settings()),
            "c2pa_signer_reserve_size" => I!(api::c2pa_signer_reserve_size(v(0) as _)),
            "c2pa_signer_free" => {
                api::c2pa_signer_free(v(0) as _);
                Ret::Void
            }
            "c2pa_ed25519_sign" => P!(api::c2pa_ed25519_sign(v(0) as _, l(0), s(1))),
            "c2pa_signature_free" => {
                api::c2pa_signature_free(v(0) as _);
                Ret::Void
            }
            "c2pa_create_stream" => {
                let kind = STREAM_CONTENTS[v(0) % STREAM_CONTENTS.len()];
                let bytes = self.fx.contents.get(kind).cloned().unwrap_or_default();
                let mut b = Box::new(Back { cur: Cursor::new(bytes), fail: kind == "failing" });
                let ctx = &mut *b as *mut Back as *mut api::StreamContext;
                self.backs.push(b);
                P!(api::c2pa_create_stream(ctx, s_read, s_seek, s_write, s_flush))
            }
            "c2pa_release_stream" => {
                api::c2pa_release_stream(v(0) as _);
                Ret::Void
            }
            other => panic!("no dispatcher for {other}"),
        }
    }
}
