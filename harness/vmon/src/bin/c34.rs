//! C34 — JUMBF URIs and manifest labels parse back to their parts.
//!
//! Drives the crate-private helpers through `c2pa::verif_hooks::labels::*` (`ManifestParts` Display,
//! `manifest_label_to_parts`, `to_{manifest,assertion,signature,databox}_uri`,
//! `manifest_label_from_uri`, `assertion_label_from_uri`, `box_name_from_uri`, `to_relative_uri`,
//! `to_absolute_uri`, `Claim::label_with_instance`, `Claim::assertion_label_from_link`).
//!
//! Oracle: equality with what went in (the statement is a pure round trip).  Domain = labels the SDK can
//! generate: GUID = lower-case hyphenated v4 UUID; vendor (claim generator identifier) = 1..=32 visible
//! ASCII characters without ':' (the label's own separator), lower-cased as the SDK does; version/reason
//! = usize, reason only together with a version; assertion labels = dotted names with optional `.vN`
//! and `__N` instance.  Vendors are split into a *core* alphabet `[a-z0-9._-]` and an *extended* one
//! (every other visible ASCII character).  Whether the SDK really generates labels with extended
//! vendors is discovered at run time by signing through `Builder` with such a `vendor`; an extended
//! class is judged only if that succeeds.
use c2pa::verif_hooks::labels as L;
use c2pa::{Builder, Context, Reader};
use serde_json::{json, Value};
use std::collections::{BTreeMap, BTreeSet};
use std::io::Cursor;
use vmon::{assets, par, report, signers, Rng, Run};

#[derive(Clone, Debug)]
struct Tup {
    guid: String,
    is_v1: bool,
    cgi: Option<String>,
    version: Option<usize>,
    reason: Option<usize>,
    a_base: String,
    a_inst: usize,
    d_inst: usize,
}

impl Tup {
    fn parts(&self) -> L::Parts {
        (self.guid.clone(), self.is_v1, self.cgi.clone(), self.version, self.reason)
    }
    fn to_json(&self) -> Value {
        json!({"guid": self.guid, "is_v1": self.is_v1, "vendor": self.cgi, "version": self.version.map(|v| v.to_string()), "reason": self.reason.map(|v| v.to_string()),
               "assertion_base": self.a_base, "assertion_instance": self.a_inst, "databox_instance": self.d_inst})
    }
}

fn is_core_char(c: char) -> bool {
    c.is_ascii_lowercase() || c.is_ascii_digit() || c == '.' || c == '_' || c == '-'
}

const KEYWORDS: &[&str] = &["urn", "uuid", "c2pa", "urn.uuid", "c2pa.assertions", "c2pa.signature", "c2pa.claim", "c2pa.databoxes", "self", "jumbf", "v1", "0", "1_1", "_", "__1", "-", "."];

/// Character class of a vendor: which alphabet it needs and which structural characters it contains.
fn vendor_class(v: &Option<String>) -> String {
    let Some(v) = v else { return "none".into() };
    if v.is_empty() || v.len() > 32 || !v.is_ascii() || v.chars().any(|c| c == ':' || c.is_ascii_whitespace() || c.is_ascii_control()) {
        return "out-of-domain".into();
    }
    if v.chars().any(|c| c.is_ascii_uppercase()) {
        return "out-of-domain-uppercase".into();
    }
    if v.chars().all(is_core_char) {
        if KEYWORDS.contains(&v.as_str()) {
            return format!("core-keyword:{v}");
        }
        return "core".into();
    }
    let mut f = Vec::new();
    if v.contains('/') {
        f.push("slash");
    }
    if v.contains('=') {
        f.push("equals");
    }
    if f.is_empty() {
        f.push("other");
    }
    format!("ext-{}", f.join("+"))
}

/// Key of the run-time capability lookup (what the Builder was asked to generate): vendor class + label syntax.
/// Grammar-keyword vendors are looked up individually.
fn capability_key(class: &str, is_v1: bool) -> String {
    let c = if class == "core" || class == "none" { "core" } else { class };
    format!("{c}|{}", if is_v1 { "v1" } else { "v2" })
}

struct Fail {
    group: &'static str,
    func: &'static str,
    detail: String,
}

/// All round trips of the statement on one tuple.  Returns (number of equalities checked, failures).
fn check(t: &Tup) -> (u64, Vec<Fail>) {
    let mut fails = Vec::new();
    let mut n = 0u64;
    let mut eq = |group: &'static str, func: &'static str, got: String, want: String, fails: &mut Vec<Fail>| {
        n += 1;
        if got != want {
            fails.push(Fail { group, func, detail: format!("got {got} want {want}") });
        }
    };
    let parts = t.parts();
    let label = L::parts_to_string(&parts);
    // 1. label <-> parts
    eq("label-parts", "manifest_label_to_parts(label)", format!("{:?}", L::manifest_label_to_parts(&label)), format!("{:?}", Some(parts.clone())), &mut fails);
    let m_uri = L::to_manifest_uri(&label);
    eq("label-parts", "manifest_label_to_parts(to_manifest_uri)", format!("{:?}", L::manifest_label_to_parts(&m_uri)), format!("{:?}", Some(parts.clone())), &mut fails);
    // 2./3. URIs -> manifest label, assertion / box label
    let a_label = L::label_with_instance(&t.a_base, t.a_inst);
    let d_label = L::label_with_instance("c2pa.data", t.d_inst);
    let a_uri = L::to_assertion_uri(&label, &a_label);
    let s_uri = L::to_signature_uri(&label);
    let d_uri = L::to_databox_uri(&label, &d_label);
    for (f, u) in [("manifest_label_from_uri(manifest uri)", &m_uri), ("manifest_label_from_uri(assertion uri)", &a_uri), ("manifest_label_from_uri(signature uri)", &s_uri), ("manifest_label_from_uri(databox uri)", &d_uri)] {
        eq("uri", f, format!("{:?}", L::manifest_label_from_uri(u)), format!("{:?}", Some(label.clone())), &mut fails);
    }
    eq("uri", "assertion_label_from_uri(assertion uri)", format!("{:?}", L::assertion_label_from_uri(&a_uri)), format!("{:?}", Some(a_label.clone())), &mut fails);
    eq("uri", "assertion_label_from_uri(databox uri)", format!("{:?}", L::assertion_label_from_uri(&d_uri)), format!("{:?}", Some(d_label.clone())), &mut fails);
    eq("uri", "box_name_from_uri(assertion uri)", format!("{:?}", L::box_name_from_uri(&a_uri)), format!("{:?}", Some(a_label.clone())), &mut fails);
    eq("uri", "box_name_from_uri(databox uri)", format!("{:?}", L::box_name_from_uri(&d_uri)), format!("{:?}", Some(d_label.clone())), &mut fails);
    eq("uri", "box_name_from_uri(signature uri)", format!("{:?}", L::box_name_from_uri(&s_uri)), format!("{:?}", Some("c2pa.signature".to_string())), &mut fails);
    eq("uri", "box_name_from_uri(manifest uri)", format!("{:?}", L::box_name_from_uri(&m_uri)), format!("{:?}", Some(label.clone())), &mut fails);
    // 4. relative <-> absolute
    for (f, u) in [("to_absolute_uri(to_relative_uri(assertion uri))", &a_uri), ("to_absolute_uri(to_relative_uri(databox uri))", &d_uri), ("to_absolute_uri(to_relative_uri(signature uri))", &s_uri)] {
        let rel = L::to_relative_uri(u);
        eq("uri", f, L::to_absolute_uri(&label, &rel), u.to_string(), &mut fails);
    }
    let rel = L::to_relative_uri(&a_uri);
    eq("uri", "assertion_label_from_uri(to_relative_uri(assertion uri))", format!("{:?}", L::assertion_label_from_uri(&rel)), format!("{:?}", Some(a_label.clone())), &mut fails);
    // 5. links -> (label, instance)
    eq("link", "assertion_label_from_link(assertion uri)", format!("{:?}", L::assertion_label_from_link(&a_uri)), format!("{:?}", (t.a_base.clone(), t.a_inst)), &mut fails);
    eq("link", "assertion_label_from_link(relative uri)", format!("{:?}", L::assertion_label_from_link(&rel)), format!("{:?}", (t.a_base.clone(), t.a_inst)), &mut fails);
    eq("link", "assertion_label_from_link(bare label)", format!("{:?}", L::assertion_label_from_link(&a_label)), format!("{:?}", (t.a_base.clone(), t.a_inst)), &mut fails);
    (n, fails)
}

const KNOWN_BASES: &[&str] = &[
    "c2pa.actions", "c2pa.actions.v2", "c2pa.hash.data", "c2pa.hash.bmff.v3", "c2pa.hash.boxes", "c2pa.hash.collection.data", "c2pa.ingredient", "c2pa.ingredient.v2",
    "c2pa.ingredient.v3", "c2pa.thumbnail.claim.jpeg", "c2pa.thumbnail.claim.png", "c2pa.thumbnail.ingredient", "c2pa.thumbnail.ingredient.jpeg", "c2pa.thumbnail.ingredient.png",
    "c2pa.soft-binding", "c2pa.metadata", "c2pa.asset-type", "c2pa.embedded-data", "c2pa.time-stamp", "c2pa.certificate-status", "c2pa.icon", "stds.exif",
    "stds.schema-org.CreativeWork", "stds.iptc", "cawg.identity", "cawg.metadata", "cawg.training-mining", "org.contentauth.test", "com.adobe.generative-ai", "org.verif.test",
];

fn guid(rng: &mut Rng) -> String {
    let mut b = rng.bytes(16);
    b[6] = (b[6] & 0x0f) | 0x40;
    b[8] = (b[8] & 0x3f) | 0x80;
    let h = hex::encode(b);
    format!("{}-{}-{}-{}-{}", &h[0..8], &h[8..12], &h[12..16], &h[16..20], &h[20..32])
}

const CORE: &[u8] = b"abcdefghijklmnopqrstuvwxyz0123456789._-";

fn ext_chars() -> Vec<u8> {
    (0x21u8..=0x7e).filter(|c| *c != b':' && !c.is_ascii_uppercase()).collect()
}

fn vendor(rng: &mut Rng, extended: bool) -> String {
    let len = match rng.below(10) {
        0 => 1,
        1 => 32,
        2 => 31,
        _ => 1 + rng.usize(32),
    };
    if !extended {
        if rng.chance(1, 50) {
            return rng.pick(KEYWORDS).to_string();
        }
        return (0..len).map(|_| *rng.pick(CORE) as char).collect();
    }
    let ext = ext_chars();
    // mostly core characters with a few extended ones, so that each structural character is met alone
    let specials: Vec<u8> = ext.iter().cloned().filter(|c| !is_core_char(*c as char)).collect();
    let mut v: Vec<u8> = (0..len).map(|_| *rng.pick(CORE)).collect();
    let k = 1 + rng.usize(3);
    let one = *rng.pick(&specials);
    for _ in 0..k {
        let p = rng.usize(len);
        v[p] = if rng.chance(2, 3) { one } else { *rng.pick(&specials) };
    }
    String::from_utf8(v).unwrap()
}

fn num(rng: &mut Rng) -> usize {
    match rng.below(10) {
        0 => 0,
        1 => 1,
        2 => usize::MAX,
        3 => usize::MAX - 1,
        4 => rng.next_u64() as usize,
        5 => 10,
        _ => rng.usize(1000),
    }
}

fn assertion_base(rng: &mut Rng) -> String {
    if rng.chance(1, 2) {
        return rng.pick(KNOWN_BASES).to_string();
    }
    let nseg = 2 + rng.usize(4);
    let mut segs = Vec::new();
    for _ in 0..nseg {
        let l = 1 + rng.usize(10);
        let mut s = String::new();
        for i in 0..l {
            let c = if i == 0 { (b'a' + rng.below(26) as u8) as char } else { *rng.pick(b"abcdefghijklmnopqrstuvwxyzABCDEFGHIJKLMNOPQRSTUVWXYZ0123456789-_") as char };
            s.push(c);
        }
        segs.push(s);
    }
    let mut base = segs.join(".");
    if rng.chance(1, 3) {
        base = format!("{base}.v{}", 1 + rng.usize(12));
    }
    base
}

/// Assertion labels whose own text collides with the `__N` instance syntax are outside the statement.
fn assertion_base_in_domain(b: &str) -> bool {
    !b.contains("__") && !b.ends_with('_')
}

fn random_tuple(rng: &mut Rng, extended: bool) -> Tup {
    let is_v1 = rng.chance(1, 4);
    let cgi = if rng.chance(1, 5) { None } else { Some(vendor(rng, extended)) };
    let (version, reason) = if is_v1 {
        (None, None)
    } else {
        match rng.below(3) {
            0 => (None, None),
            1 => (Some(num(rng)), None),
            _ => (Some(num(rng)), Some(num(rng))),
        }
    };
    Tup { guid: guid(rng), is_v1, cgi, version, reason, a_base: assertion_base(rng), a_inst: if rng.chance(1, 2) { 0 } else { num(rng) }, d_inst: if rng.chance(1, 2) { 0 } else { rng.usize(50) } }
}

#[derive(Default)]
struct Out {
    evals: u64,
    equalities: u64,
    classes: BTreeMap<String, u64>,
    counters: BTreeMap<String, u64>,
    /// sig -> (what, witness, vendor length, count)
    violations: BTreeMap<String, (String, Value, usize, u64)>,
    samples: Vec<(String, Value)>,
}

impl Out {
    fn merge(&mut self, o: Out) {
        self.evals += o.evals;
        self.equalities += o.equalities;
        for (k, v) in o.classes {
            *self.classes.entry(k).or_insert(0) += v;
        }
        for (k, v) in o.counters {
            *self.counters.entry(k).or_insert(0) += v;
        }
        for (sig, (w, wit, sz, n)) in o.violations {
            match self.violations.get_mut(&sig) {
                Some(e) => {
                    e.3 += n;
                    if sz < e.2 {
                        *e = (w, wit, sz, e.3);
                    }
                }
                None => {
                    self.violations.insert(sig, (w, wit, sz, n));
                }
            }
        }
        for s in o.samples {
            if self.samples.iter().filter(|x| x.0 == s.0).count() < 2 {
                self.samples.push(s);
            }
        }
    }
}

fn shape(t: &Tup) -> String {
    format!("{}|{}{}", if t.is_v1 { "v1" } else { "v2" }, if t.version.is_some() { "ver" } else { "-" }, if t.reason.is_some() { "+reason" } else { "" })
}

fn judge(t: &Tup, capable: &BTreeSet<String>, out: &mut Out) {
    out.evals += 1;
    let vc = vendor_class(&t.cgi);
    let r = report::catch_sdk(|| check(t));
    let (n, fails) = match r {
        Ok(x) => x,
        Err(p) => {
            out.violations.entry(format!("panic|vendor:{vc}")).or_insert((format!("panic in label helpers: {p}"), t.to_json(), 0, 0)).3 += 1;
            return;
        }
    };
    out.equalities += n;
    let a_ok = assertion_base_in_domain(&t.a_base);
    let judged_vendor = !vc.starts_with("out-of-domain") && capable.contains(&capability_key(&vc, t.is_v1));
    if !judged_vendor {
        *out.counters.entry(format!("unjudged:vendor class {vc} ({})", if vc.starts_with("out-of-domain") { "outside the valid vendor charset/length" } else { "Builder did not generate such a label" })).or_insert(0) += 1;
        if !fails.is_empty() {
            *out.counters.entry(format!("unjudged-roundtrip-breaks:vendor class {vc}")).or_insert(0) += 1;
        }
        return;
    }
    let mut any = false;
    for f in &fails {
        if f.group == "link" && !a_ok {
            *out.counters.entry("unjudged:assertion label text collides with __N instance syntax".to_string()).or_insert(0) += 1;
            continue;
        }
        any = true;
        // cause class: which family of helpers, which structural class of vendor, v1 or v2 label syntax
        let sig = if f.group == "link" { format!("link|assertion-label:{}", if t.a_base.contains("thumbnail") { "thumbnail" } else { "plain" }) } else { format!("{}|vendor:{}|{}", f.group, vc, if t.is_v1 { "v1" } else { "v2" }) };
        let what = format!("{}: {} (label {})", f.func, f.detail, L::parts_to_string(&t.parts()));
        let size = t.cgi.as_ref().map(|v| v.len()).unwrap_or(0) + t.a_base.len();
        let mut wit = t.to_json();
        wit["function"] = json!(f.func);
        match out.violations.get_mut(&sig) {
            Some(e) => {
                e.3 += 1;
                if size < e.2 {
                    *e = (what, wit, size, e.3);
                }
            }
            None => {
                out.violations.insert(sig, (what, wit, size, 1));
            }
        }
    }
    if !any {
        let alpha = if vc.starts_with("ext") { "extended" } else { "core" };
        *out.classes.entry(format!("{alpha}|vendor:{}|{}|inst:{}|roundtrip-ok", if vc.starts_with("core-keyword") { "core-keyword" } else { &vc }, shape(t), if t.a_inst == 0 { "0" } else { "n" })).or_insert(0) += 1;
        *out.counters.entry(format!("judged:{alpha}")).or_insert(0) += 1;
        out.samples.push((alpha.to_string(), json!({"tuple": t.to_json(), "label": L::parts_to_string(&t.parts())})));
        if out.samples.len() > 8 {
            out.samples.truncate(8);
        }
    }
}

/// Asks the SDK itself (Builder -> sign -> Reader) to generate a manifest label with this vendor.
fn builder_generates(vendor: &str, claim_version: u8) -> Result<String, String> {
    let settings = json!({"builder": {"thumbnail": {"enabled": false}}, "verify": {"verify_trust": false}});
    let signer = signers::test_signer("ed25519");
    let asset = assets::tiny_png(false, &[]);
    let r = report::catch_sdk(|| -> Result<String, String> {
        let ctx = Context::new().with_settings(settings.to_string().as_str()).map_err(|e| e.to_string())?;
        let mut def = json!({"title": "c34", "vendor": vendor, "claim_version": claim_version, "assertions": [{"label": "org.verif.test", "data": {"k": 1}}]});
        if claim_version == 1 {
            def["claim_generator_info"] = json!([{"name": "c34", "version": "1"}]);
        }
        let mut b = Builder::from_context(ctx).with_definition(def).map_err(|e| format!("definition: {e}"))?;
        b.set_intent(c2pa::BuilderIntent::Edit);
        let mut dst = Cursor::new(Vec::new());
        b.sign(signer.as_ref(), "png", &mut Cursor::new(asset.clone()), &mut dst).map_err(|e| format!("sign: {e}"))?;
        let ctx = Context::new().with_settings(settings.to_string().as_str()).map_err(|e| e.to_string())?;
        let reader = Reader::from_context(ctx).with_stream("png", Cursor::new(dst.into_inner())).map_err(|e| format!("read: {e}"))?;
        reader.active_label().map(|s| s.to_string()).ok_or_else(|| "no active label".to_string())
    });
    match r {
        Ok(x) => x,
        Err(p) => Err(format!("panic: {p}")),
    }
}

fn main() {
    let mut run = Run::from_args("C34", "exploration");
    report::quiet_panics();
    run.rule = "tuples (GUID, v1/v2, vendor, version, reason, assertion label, instance, databox instance): exhaustive over all 1- and 2-character vendors from the visible-ASCII set (no ':' / upper case) x 4 label shapes, a keyword dictionary of vendors, and seeded random tuples from the core alphabet [a-z0-9._-] and the extended alphabet; on each, 22 round-trip equalities over the label/URI helpers. Non-trivial = the tuple is in the judged domain and all helpers ran; distinct = (alphabet, vendor class, v1/v2 + version/reason shape, instance class).".into();
    run.assumptions = vec![
        "domain: vendor = 1..=32 visible ASCII characters, no ':' (label separator), no upper case (the SDK lower-cases vendors); reason only together with a version; v1 labels carry no version/reason".into(),
        "an extended-alphabet vendor class (contains '/', contains '=', other) is judged only if Builder::sign really produced a manifest label with such a vendor in this run (capability probe); otherwise counted as unjudged".into(),
        "assertion labels containing '__' or ending in '_' collide with the instance syntax and are generated but their link round trip is not judged".into(),
        "the manifest-label and box-name round trips of verifiable-credential URIs are not part of the statement and are not judged".into(),
    ];

    if let Some(p) = run.replay.clone() {
        let v: Value = serde_json::from_slice(&std::fs::read(&p).expect("replay file")).expect("json");
        let w = &v["witness"];
        let us = |k: &str| w[k].as_str().and_then(|s| s.parse::<usize>().ok());
        let t = Tup {
            guid: w["guid"].as_str().unwrap_or("").to_string(),
            is_v1: w["is_v1"].as_bool().unwrap_or(false),
            cgi: w["vendor"].as_str().map(|s| s.to_string()),
            version: us("version"),
            reason: us("reason"),
            a_base: w["assertion_base"].as_str().unwrap_or("c2pa.actions").to_string(),
            a_inst: w["assertion_instance"].as_u64().unwrap_or(0) as usize,
            d_inst: w["databox_instance"].as_u64().unwrap_or(0) as usize,
        };
        match report::catch_sdk(|| check(&t)) {
            Ok((n, fails)) => {
                println!("replay: label {} -> {} equalities, {} broken", L::parts_to_string(&t.parts()), n, fails.len());
                for f in &fails {
                    println!("  [{}] {}: {}", f.group, f.func, f.detail);
                }
                std::process::exit(if fails.is_empty() { 0 } else { 1 });
            }
            Err(p) => {
                println!("replay: panic {p}");
                std::process::exit(1);
            }
        }
    }

    // ---- capability probe
    let mut probes: Vec<(String, String)> = [("core", "acme.tool-1_x"), ("ext-slash", "a/b"), ("ext-slash", "x/c2pa/y"), ("ext-equals", "a=b"), ("ext-slash+equals", "a=/b"), ("ext-other", "a#b"), ("ext-other", "a?b%20\"c\""), ("ext-other", "<a>&b;")]
        .iter()
        .map(|(a, b)| (a.to_string(), b.to_string()))
        .collect();
    for k in KEYWORDS {
        probes.push((format!("core-keyword:{k}"), k.to_string()));
    }
    let mut capable: BTreeSet<String> = BTreeSet::new();
    let mut probe_log = Vec::new();
    for (class, v) in &probes {
        for cv in [2u8, 1u8] {
            let r = builder_generates(v, cv);
            let ok = matches!(&r, Ok(l) if l.contains(&v.to_lowercase()));
            if ok {
                capable.insert(capability_key(class, cv == 1));
            }
            let class = if class.starts_with("core-keyword") { "core-keyword" } else { class.as_str() };
            run.count(&format!("capability:{class}:{}", if ok { "builder-generated-label" } else { "not-generated" }), 1);
            probe_log.push(json!({"class": class, "vendor": v, "claim_version": cv, "result": match &r { Ok(l) => json!({"active_label": l}), Err(e) => json!({"error": e}) }}));
        }
    }
    run.set("capability_probe", json!(probe_log));
    if !capable.contains("core|v2") {
        run.inconclusive("capability probe: Builder could not sign even with a core-alphabet vendor");
    }

    // ---- workload
    let quick = run.quick();
    let seed = run.seed;
    let mut total = Out::default();

    // exhaustive short vendors + keywords
    let ext = ext_chars();
    let mut short: Vec<String> = ext.iter().map(|c| (*c as char).to_string()).collect();
    for a in &ext {
        for b in &ext {
            short.push(format!("{}{}", *a as char, *b as char));
        }
    }
    for k in KEYWORDS {
        short.push(k.to_string());
    }
    for k in ["x/c2pa/y", "a=/c2pa/x/y", "c2pa/", "/c2pa", "c2pa.assertions/x", "self#jumbf=x", "a=b=c", "=", "/", "//", "a/", "/a", "urn/uuid"] {
        short.push(k.to_string());
    }
    let short_n = short.len();
    let capable_ref = &capable;
    let outs = par::par_map(short.len().div_ceil(256), |ci| {
        let mut out = Out::default();
        let mut rng = Rng::new(seed ^ ((ci as u64) << 20), "c34short");
        for v in &short[ci * 256..((ci + 1) * 256).min(short.len())] {
            for shape in 0..4 {
                let (is_v1, version, reason) = match shape {
                    0 => (true, None, None),
                    1 => (false, None, None),
                    2 => (false, Some(num(&mut rng)), None),
                    _ => (false, Some(num(&mut rng)), Some(num(&mut rng))),
                };
                let t = Tup { guid: guid(&mut rng), is_v1, cgi: Some(v.clone()), version, reason, a_base: assertion_base(&mut rng), a_inst: rng.usize(3), d_inst: rng.usize(2) };
                judge(&t, capable_ref, &mut out);
            }
        }
        out
    });
    for o in outs {
        total.merge(o);
    }

    // random tuples
    let n_random = run.tier.pick(1_000_000usize, 20_000_000);
    let chunk = 4096;
    let outs = par::par_map(n_random.div_ceil(chunk), |ci| {
        let mut out = Out::default();
        let mut rng = Rng::new(seed ^ ((ci as u64) << 22), "c34random");
        for k in 0..chunk {
            let t = random_tuple(&mut rng, k % 3 == 2);
            judge(&t, capable_ref, &mut out);
        }
        out
    });
    for o in outs {
        total.merge(o);
    }

    // out-of-domain vendors: robustness only (no panic), never judged
    let mut od = Out::default();
    let mut rng = Rng::new(seed, "c34ood");
    for v in ["", " ", "a b", "a:b", "x".repeat(33).as_str(), "é", "a\tb", "ACME", "a\u{0}b", &"y".repeat(200)] {
        let mut t = random_tuple(&mut rng, false);
        t.cgi = Some(v.to_string());
        judge(&t, capable_ref, &mut od);
    }
    total.merge(od);

    run.evals(total.evals);
    run.count("equalities_checked", total.equalities);
    for (c, k) in total.classes {
        run.nontrivial_n(c, k);
    }
    for (k, v) in total.counters {
        run.count(&k, v);
    }
    for (kind, s) in total.samples {
        run.sample(&kind, 2, s);
    }
    for (sig, (what, wit, _, n)) in total.violations {
        run.count(&format!("violations:{sig}"), n);
        run.violation(&sig, &what, wit);
    }
    run.set("short_vendors_enumerated", json!(short_n));
    run.set("random_tuples", json!(n_random.div_ceil(chunk) * chunk));
    run.set("judged_vendor_classes", json!(capable));
    run.engine("release", true, json!({"threads": par::workers()}));
    run.finish(20);
}
