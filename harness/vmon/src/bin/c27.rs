//! C27 — redirects never reach internal addresses or leak credentials.
//!
//! Drives the resolver stack `Context` builds by default (`RedirectResolver` [over `RestrictedResolver`]
//! over a transport) through the hooks `verif_hooks::{sync,async}_resolver_stack`, with the transport
//! replaced by a scripted recording mock (`vmon::httpmon::Mock`).  The mock serves redirect chains whose
//! `Location` values come from a grammar (absolute / scheme-relative / relative / back-slashed /
//! whitespace-padded / userinfo-bearing URLs; hosts = names, IPv4 in every WHATWG notation, IPv6 incl.
//! mapped / compatible / NAT64 / 6to4 forms) and records every request that reaches it.
//!
//! Oracle (written from the statement, shares no code with the SDK): for every recorded request at
//! hop >= 1, the harness's own RFC-3986 split + `httpmon::classify_host` (own WHATWG IPv4 number parser,
//! own IPv6 parser) must not put the host in one of the classes the statement lists; at most 11
//! requests per call; no hop >= 1 request when redirects are disabled; no Authorization / Cookie /
//! Proxy-Authorization / Host header on any hop >= 1 request.  A refusal is always acceptable.
use c2pa::http::http::Request;
use c2pa::http::restricted::HostPattern;
use c2pa::verif_hooks;
use serde::{Deserialize, Serialize};
use serde_json::json;
use std::collections::BTreeMap;
use vmon::httpmon::{self, classify_host, split_uri, Mock, Rec, Reply};
use vmon::{par, report, Rng, Run};

#[derive(Clone, Debug, Serialize, Deserialize)]
struct Hop {
    status: u16,
    /// Location header bytes, hex (may be non-UTF-8)
    location_hex: String,
    /// human-readable copy
    location: String,
    /// what the generator meant this hop to be (drives class strings only, never the verdict)
    intent: Intent,
}

#[derive(Clone, Debug, Serialize, Deserialize, Default)]
struct Intent {
    /// "public" | "relative" | "internal" | "unlisted" | "decoy" | "junk"
    kind: String,
    /// statement class intended ("loopback", …) or reported-only class
    class: String,
    /// notation of the host as generated
    enc: String,
    /// syntactic shape of the Location
    form: String,
    /// host text as generated (for the oracle self-check)
    host: String,
    /// false when the host text needs IDNA mapping to be understood (self-check skipped)
    plain: bool,
}

#[derive(Clone, Debug, Serialize, Deserialize)]
struct Case {
    kind: String,
    asynch: bool,
    allow_redirects: bool,
    /// wrap the transport in a RestrictedResolver whose list allows every http/https URI
    with_allow_all_list: bool,
    start: String,
    method: String,
    body_len: usize,
    headers: Vec<(String, String)>,
    hops: Vec<Hop>,
}

// ------------------------------------------------------------------------------------------------
// address pools

const V4_JUDGED: &[(&str, u32, u32)] = &[
    ("unspecified", 0x0000_0000, 0x0000_0000),
    ("loopback", 0x7f00_0000, 0x7fff_ffff),
    ("private", 0x0a00_0000, 0x0aff_ffff),
    ("private", 0xac10_0000, 0xac1f_ffff),
    ("private", 0xc0a8_0000, 0xc0a8_ffff),
    ("link-local", 0xa9fe_0000, 0xa9fe_ffff),
    ("shared", 0x6440_0000, 0x647f_ffff),
    ("documentation", 0xc000_0200, 0xc000_02ff),
    ("documentation", 0xc633_6400, 0xc633_64ff),
    ("documentation", 0xcb00_7100, 0xcb00_71ff),
    ("multicast", 0xe000_0000, 0xefff_ffff),
    ("broadcast", 0xffff_ffff, 0xffff_ffff),
];

const V4_SPECIAL_POINTS: &[u32] = &[
    0x7f00_0001, // 127.0.0.1
    0xa9fe_a9fe, // 169.254.169.254 (cloud metadata)
    0x0a00_0001, 0xc0a8_0101, 0xac10_0504, 0x6440_0001, 0xe000_00fb,
];

const V4_PUBLIC: &[u32] = &[0x5db8_d822, 0x0808_0808, 0x0101_0101, 0x2d21_0a0b, 0xc633_6500, 0x8000_0001];

/// An IPv4 address inside a judged class (boundaries over-represented), with its class.
fn pick_internal_v4(rng: &mut Rng) -> (u32, &'static str) {
    if rng.chance(1, 4) {
        let a = *rng.pick(V4_SPECIAL_POINTS);
        return (a, httpmon::classify_v4(a).0.unwrap_or("?"));
    }
    let (c, lo, hi) = *rng.pick(V4_JUDGED);
    let a = match rng.below(5) {
        0 => lo,
        1 => hi,
        2 => lo.saturating_add(1).min(hi),
        3 => hi.saturating_sub(1).max(lo),
        _ => lo + (rng.below((hi - lo) as u64 + 1) as u32),
    };
    (a, c)
}

/// An address just outside a judged class (boundary ± 1) or a well-known public one.
fn pick_outside_v4(rng: &mut Rng) -> u32 {
    for _ in 0..8 {
        let a = if rng.chance(1, 2) {
            *rng.pick(V4_PUBLIC)
        } else {
            let (_, lo, hi) = *rng.pick(V4_JUDGED);
            if rng.bool() {
                lo.wrapping_sub(1)
            } else {
                hi.wrapping_add(1)
            }
        };
        if httpmon::classify_v4(a).0.is_none() {
            return a;
        }
    }
    0x0808_0808
}

fn num(rng: &mut Rng, v: u64, radix: u32, pad: bool) -> String {
    let z = if pad { "0".repeat(1 + rng.usize(4)) } else { String::new() };
    match radix {
        16 => {
            let x = if rng.bool() { "0x" } else { "0X" };
            let d = if rng.bool() { format!("{v:x}") } else { format!("{v:X}") };
            format!("{x}{z}{d}")
        }
        8 => format!("0{z}{v:o}"),
        _ => format!("{v}"),
    }
}

/// Writes IPv4 address `a` in one of the notations the WHATWG host parser accepts.
fn enc_v4(rng: &mut Rng, a: u32) -> (String, bool) {
    let o = a.to_be_bytes();
    let radix = |rng: &mut Rng| *rng.pick(&[10u32, 10, 16, 8]);
    let pad = rng.chance(1, 6);
    let mut s = match rng.below(9) {
        0 | 1 => format!("{}.{}.{}.{}", o[0], o[1], o[2], o[3]),
        2 => {
            let r = radix(rng);
            num(rng, a as u64, r, pad)
        }
        3 => {
            let (r0, r1) = (radix(rng), radix(rng));
            format!("{}.{}", num(rng, o[0] as u64, r0, pad), num(rng, (a & 0x00ff_ffff) as u64, r1, pad))
        }
        4 => {
            let (r0, r1, r2) = (radix(rng), radix(rng), radix(rng));
            format!("{}.{}.{}", num(rng, o[0] as u64, r0, pad), num(rng, o[1] as u64, r1, pad), num(rng, (a & 0xffff) as u64, r2, pad))
        }
        5 => {
            let r = *rng.pick(&[16u32, 8]);
            (0..4).map(|i| num(rng, o[i] as u64, r, pad)).collect::<Vec<_>>().join(".")
        }
        _ => (0..4)
            .map(|i| {
                let r = radix(rng);
                num(rng, o[i] as u64, r, pad)
            })
            .collect::<Vec<_>>()
            .join("."),
    };
    if rng.chance(1, 6) {
        s.push('.');
    }
    let mut plain = true;
    // percent-encode some characters (the URL host parser percent-decodes before IPv4 parsing)
    if rng.chance(1, 8) {
        s = s.chars().map(|c| if rng.chance(1, 3) { format!("%{:02X}", c as u32) } else { c.to_string() }).collect();
    } else if rng.chance(1, 12) {
        // full-width digits / ideographic full stop, UTF-8 percent-encoded (IDNA maps them to ASCII)
        plain = false;
        s = s
            .chars()
            .map(|c| {
                let u = match c {
                    '0'..='9' if rng.chance(1, 2) => char::from_u32(0xFF10 + (c as u32 - '0' as u32)).unwrap_or(c),
                    '.' if rng.chance(1, 2) => '\u{3002}',
                    _ => c,
                };
                if u.is_ascii() {
                    u.to_string()
                } else {
                    let mut b = [0u8; 4];
                    u.encode_utf8(&mut b).bytes().map(|x| format!("%{x:02X}")).collect()
                }
            })
            .collect();
    }
    (s, plain)
}

/// Writes a 128-bit address in a random RFC 4291 text form, bracketed.
fn enc_v6(rng: &mut Rng, a: u128, allow_dotted: bool) -> String {
    let g: Vec<u16> = (0..8).map(|i| (a >> (112 - 16 * i)) as u16).collect();
    let dotted = allow_dotted && rng.chance(1, 2);
    let ngroups = if dotted { 6 } else { 8 };
    let upper = rng.chance(1, 4);
    let pad = rng.chance(1, 5);
    let fmt = |x: u16| {
        let s = if pad { format!("{x:04x}") } else { format!("{x:x}") };
        if upper {
            s.to_uppercase()
        } else {
            s
        }
    };
    // choose a zero run to compress (or none)
    let mut runs: Vec<(usize, usize)> = Vec::new();
    let mut i = 0;
    while i < ngroups {
        if g[i] == 0 {
            let s = i;
            while i < ngroups && g[i] == 0 {
                i += 1;
            }
            runs.push((s, i));
        } else {
            i += 1;
        }
    }
    let compress = if runs.is_empty() || rng.chance(1, 4) { None } else { Some(*rng.pick(&runs)) };
    let mut s = String::new();
    match compress {
        None => s.push_str(&g[..ngroups].iter().map(|x| fmt(*x)).collect::<Vec<_>>().join(":")),
        Some((lo, mut hi)) => {
            // optionally compress only part of the run
            if hi - lo > 1 && rng.chance(1, 4) {
                hi -= 1;
            }
            s.push_str(&g[..lo].iter().map(|x| fmt(*x)).collect::<Vec<_>>().join(":"));
            s.push_str("::");
            s.push_str(&g[hi..ngroups].iter().map(|x| fmt(*x)).collect::<Vec<_>>().join(":"));
        }
    }
    if dotted {
        if !s.ends_with(':') {
            s.push(':');
        }
        let o = (a as u32).to_be_bytes();
        s.push_str(&format!("{}.{}.{}.{}", o[0], o[1], o[2], o[3]));
    }
    format!("[{s}]")
}

const V6_JUDGED: &[(&str, u128)] = &[
    ("unspecified", 0),
    ("loopback", 1),
    ("multicast", 0xff02_0000_0000_0000_0000_0000_0000_0001),
    ("multicast", 0xff00_0000_0000_0000_0000_0000_0000_0000),
    ("multicast", 0xffff_ffff_ffff_ffff_ffff_ffff_ffff_ffff),
    ("multicast", 0xff05_0000_0000_0000_0000_0000_0001_0003),
    ("private", 0xfc00_0000_0000_0000_0000_0000_0000_0000),
    ("private", 0xfc00_0000_0000_0000_0000_0000_0000_0001),
    ("private", 0xfd12_3456_789a_0001_0000_0000_0000_0001),
    ("private", 0xfdff_ffff_ffff_ffff_ffff_ffff_ffff_ffff),
    ("link-local", 0xfe80_0000_0000_0000_0000_0000_0000_0001),
    ("link-local", 0xfe80_0000_0000_0000_0202_b3ff_fe1e_8329),
    ("link-local", 0xfebf_ffff_ffff_ffff_ffff_ffff_ffff_ffff),
    ("link-local", 0xfe9a_0000_0000_0000_0000_0000_0000_0001),
];

const V6_OUTSIDE: &[u128] = &[
    0x2606_4700_4700_0000_0000_0000_0000_1111,
    0x2606_2800_0220_0001_0248_1893_25c8_1946,
    0xfbff_ffff_ffff_ffff_ffff_ffff_ffff_ffff,
    0xfe00_0000_0000_0000_0000_0000_0000_0001,
    0xfe7f_ffff_ffff_ffff_ffff_ffff_ffff_ffff,
    0xfec0_0000_0000_0000_0000_0000_0000_0001,
    0x2001_0db8_0000_0000_0000_0000_0000_0001,
    0x0000_0000_0000_0000_0000_0000_0000_0002,
    0x0100_0000_0000_0000_0000_0000_0000_0001,
];

/// A host that must never be the target of a followed redirect, with (class, generator notation).
fn internal_host(rng: &mut Rng) -> Intent {
    let mut it = Intent { kind: "internal".into(), plain: true, ..Default::default() };
    match rng.below(10) {
        0 | 1 => {
            // localhost names
            let sub = rng.chance(1, 2);
            let mut h = if sub {
                let l = *rng.pick(&["api", "a.b", "xn--nxasmq6b", "127.0.0.1", "www", "x"]);
                format!("{l}.localhost")
            } else {
                "localhost".to_string()
            };
            let mut enc = String::from(if sub { "subname" } else { "name" });
            if rng.chance(1, 2) {
                h = h.chars().map(|c| if rng.bool() { c.to_ascii_uppercase() } else { c }).collect();
                enc.push_str("+case");
            }
            if rng.chance(1, 3) {
                h.push('.');
                enc.push_str("+tdot");
            }
            if rng.chance(1, 6) {
                h = h.chars().map(|c| if c.is_ascii_alphabetic() && rng.chance(1, 3) { format!("%{:02x}", c as u32) } else { c.to_string() }).collect();
                enc.push_str("+pct");
            } else if rng.chance(1, 10) {
                // soft hyphen (ignored by IDNA) inside the name
                h = h.replacen("local", "lo%C2%ADcal", 1).replacen("LOCAL", "LO%C2%ADCAL", 1);
                enc.push_str("+idna");
                it.plain = false;
            }
            it.class = "localhost".into();
            it.enc = enc;
            it.host = h;
        }
        2..=5 => {
            let (a, c) = pick_internal_v4(rng);
            let (h, plain) = enc_v4(rng, a);
            it.class = c.into();
            it.enc = if plain { httpmon::classify_host(&h).encoding } else { "v4+idna".into() };
            it.plain = plain;
            it.host = h;
        }
        6 | 7 => {
            // IPv4-mapped IPv6
            let (a, c) = pick_internal_v4(rng);
            let v6 = 0xffff_0000_0000u128 | a as u128;
            let h = enc_v6(rng, v6, true);
            it.class = c.into();
            it.enc = httpmon::classify_host(&h).encoding;
            it.host = h;
        }
        _ => {
            let (c, a) = *rng.pick(V6_JUDGED);
            let dotted = rng.chance(1, 4);
            let h = enc_v6(rng, a, dotted);
            it.class = c.into();
            it.enc = httpmon::classify_host(&h).encoding;
            it.host = h;
        }
    }
    it
}

/// Forms the statement does not list: generated, reported, not judged.
fn unlisted_host(rng: &mut Rng) -> Intent {
    let (a, _) = pick_internal_v4(rng);
    let a = if a <= 1 { 0x7f00_0001 } else { a };
    let (v6, class): (u128, &str) = match rng.below(7) {
        0 | 1 => (a as u128, "v4-compatible-internal"),
        2 | 3 => (0x0064_ff9b_0000_0000_0000_0000_0000_0000u128 | a as u128, "nat64-internal"),
        4 => (0x2002_0000_0000_0000_0000_0000_0000_0001u128 | ((a as u128) << 80), "6to4-internal"),
        5 => (0xffff_0000_0000_0000u128 | a as u128, "siit-translated-internal"),
        _ => {
            // IPv4 ranges outside the statement's list
            let v4 = *rng.pick(&[0x0001_0203u32, 0x00ff_ffff, 0xf000_0001, 0xfffe_ffff, 0xc000_0001, 0xc612_0001, 0xc058_6301]);
            let (h, plain) = enc_v4(rng, v4);
            let c = httpmon::classify_v4(v4).1.unwrap_or("?");
            return Intent { kind: "unlisted".into(), class: c.into(), enc: if plain { classify_host(&h).encoding } else { "v4+idna".into() }, form: String::new(), host: h, plain };
        }
    };
    let h = enc_v6(rng, v6, true);
    Intent { kind: "unlisted".into(), class: class.into(), enc: classify_host(&h).encoding, form: String::new(), host: h, plain: true }
}

fn public_host(rng: &mut Rng) -> Intent {
    let mut it = Intent { kind: "public".into(), class: "public".into(), plain: true, ..Default::default() };
    match rng.below(8) {
        0..=3 => {
            it.host = rng
                .pick(&[
                    "cdn.example.com", "example.org", "LOCALHOST.example.org", "localhost.example", "notlocalhost", "localhost.evil.org.", "127.0.0.1.example.com", "0x7f.example",
                    "xn--bcher-kva.example", "a.b.c.d.e.f.example.net", "localhostx", "my-localhost", "10.0.0.1.nip.io", "EXAMPLE.COM", "sub.localhost.com",
                ])
                .to_string();
            it.enc = "name".into();
        }
        4..=6 => {
            let a = pick_outside_v4(rng);
            let (h, plain) = enc_v4(rng, a);
            it.class = httpmon::classify_v4(a).1.map(|_| "unlisted-v4").unwrap_or("public").into();
            it.enc = if plain { classify_host(&h).encoding } else { "v4+idna".into() };
            it.plain = plain;
            it.host = h;
        }
        _ => {
            let a = *rng.pick(V6_OUTSIDE);
            let h = enc_v6(rng, a, false);
            it.enc = classify_host(&h).encoding;
            it.host = h;
        }
    }
    it
}

/// Wraps a host into a Location value.
fn location_for(rng: &mut Rng, it: &mut Intent) -> Vec<u8> {
    let h = it.host.clone();
    let path = *rng.pick(&["/", "/latest/meta-data/", "/a/b?c=d", "", "/x#y", "/%2e%2e/z"]);
    let (form, s): (&str, String) = match rng.below(24) {
        0..=4 => ("abs-http", format!("http://{h}{path}")),
        5 | 6 => ("abs-https", format!("https://{h}{path}")),
        7 => ("scheme-relative", format!("//{h}{path}")),
        8 => {
            let port = *rng.pick(&["80", "8080", "65535", "", "0", "443", "00080"]);
            ("abs-port", format!("http://{h}:{port}{path}"))
        }
        9 => ("userinfo", format!("http://user:pw@{h}{path}")),
        10 => ("userinfo-decoy", format!("https://public.example.com@{h}{path}")),
        11 => ("backslashes", format!("http:\\\\{h}\\x")),
        12 => ("upper-scheme", format!("HTTP://{h}{path}")),
        13 => ("ws-padded", format!("  \thttp://{h}{path} \t ")),
        14 => {
            // tab inside the URL (removed by the URL parser)
            let full = format!("http://{h}{path}");
            let pos = 1 + rng.usize(full.len() - 1);
            let mut f = full.clone();
            if f.is_char_boundary(pos) {
                f.insert(pos, '\t');
            }
            ("embedded-tab", f)
        }
        15 => ("one-slash", format!("{}:/{h}{path}", rng.pick(&["http", "https"]))),
        16 => ("no-slash", format!("{}:{h}{path}", rng.pick(&["http", "https"]))),
        17 => ("many-slashes", format!("http:///{}{h}{path}", if rng.bool() { "/" } else { "" })),
        18 => ("rel-triple-slash", format!("///{h}{path}")),
        19 => ("rel-backslashes", format!("\\\\{h}{path}")),
        20 => ("query-only-authority", format!("http://{h}?x=1")),
        21 => ("fragment-only-authority", format!("http://{h}#frag")),
        22 => {
            let sch = *rng.pick(&["ftp", "ws", "wss", "foo", "gopher", "file"]);
            ("other-scheme", format!("{sch}://{h}{path}"))
        }
        _ => ("userinfo-at-at", format!("http://a@b@{h}{path}")),
    };
    it.form = form.to_string();
    s.into_bytes()
}

/// A Location whose *text* mentions an internal address but whose host is public.
fn decoy_location(rng: &mut Rng) -> (Vec<u8>, Intent) {
    let inner = internal_host(rng).host;
    let s = match rng.below(7) {
        0 => format!("http://cdn.example.com/{inner}/x"),
        1 => format!("http://{inner}@cdn.example.com/"),
        2 => format!("http://cdn.example.com#@{inner}/"),
        3 => format!("http://cdn.example.com?@{inner}/"),
        4 => format!("http://cdn.example.com\\@{inner}/"),
        5 => format!("http://{inner}:80@cdn.example.com/"),
        _ => format!("http://cdn.example.com/?next=http://{inner}/"),
    };
    (s.into_bytes(), Intent { kind: "decoy".into(), class: "public".into(), enc: "name".into(), form: "decoy".into(), host: "cdn.example.com".into(), plain: true })
}

fn relative_location(rng: &mut Rng) -> (Vec<u8>, Intent) {
    let s = *rng.pick(&["/next", "next", "../up", "?q=1", "#frag", "./", "", "/a/../b", "a/b/c?d#e", "%2e%2e/x", "/\\x", ";p"]);
    (s.as_bytes().to_vec(), Intent { kind: "relative".into(), class: "same-origin".into(), enc: "-".into(), form: "relative".into(), host: String::new(), plain: true })
}

fn junk_location(rng: &mut Rng) -> (Vec<u8>, Intent) {
    let v: Vec<u8> = match rng.below(12) {
        0 => b"http://".to_vec(),
        1 => b"http://[::1".to_vec(),
        2 => b"http://999.999.999.999/".to_vec(),
        3 => b"http://0x100000000/".to_vec(),
        4 => b"http://1.2.3.4.5/".to_vec(),
        5 => b":".to_vec(),
        6 => b"http://[fe80::1%25eth0]/".to_vec(),
        7 => b"http://256.0.0.1/".to_vec(),
        8 => vec![b'h', b't', b't', b'p', b':', b'/', b'/', 0xff, 0xfe, b'/'],
        9 => format!("http://{}.example/", "a".repeat(300)).into_bytes(),
        10 => b"http://127.0.0.1:99999/".to_vec(),
        _ => b"http://exa mple.com/".to_vec(),
    };
    (v, Intent { kind: "junk".into(), class: "junk".into(), enc: "-".into(), form: "junk".into(), host: String::new(), plain: false })
}

fn status(rng: &mut Rng) -> u16 {
    *rng.pick(&[301u16, 302, 302, 303, 307, 308, 300, 304, 305, 399])
}

fn mk_hop(rng: &mut Rng, loc: Vec<u8>, intent: Intent) -> Hop {
    Hop { status: status(rng), location_hex: hex::encode(&loc), location: String::from_utf8_lossy(&loc).to_string(), intent }
}

fn benign_hop(rng: &mut Rng) -> Hop {
    match rng.below(10) {
        0..=3 => {
            let (l, i) = relative_location(rng);
            mk_hop(rng, l, i)
        }
        4 => {
            let (l, i) = decoy_location(rng);
            mk_hop(rng, l, i)
        }
        _ => {
            let mut it = public_host(rng);
            let l = location_for(rng, &mut it);
            mk_hop(rng, l, it)
        }
    }
}

fn odd_case(rng: &mut Rng, s: &str) -> String {
    match rng.below(4) {
        0 => s.to_string(),
        1 => s.to_ascii_uppercase(),
        2 => s.to_ascii_lowercase(),
        _ => s.chars().map(|c| if rng.bool() { c.to_ascii_uppercase() } else { c.to_ascii_lowercase() }).collect(),
    }
}

const FORBIDDEN: &[&str] = &["authorization", "cookie", "proxy-authorization", "host"];

fn gen_headers(rng: &mut Rng) -> Vec<(String, String)> {
    let pool: &[(&str, &str)] = &[
        ("Authorization", "Bearer s3cr3t"),
        ("Cookie", "sid=secret"),
        ("Proxy-Authorization", "Basic dTpw"),
        ("Host", "origin.example.com"),
        ("Accept", "application/c2pa"),
        ("User-Agent", "vmon/1"),
        ("X-Api-Key", "k"),
        ("Content-Type", "application/octet-stream"),
        ("Cookie", "second=value"),
        ("Authorization", "Basic dTpw"),
        ("Accept-Language", "en"),
    ];
    let mut out = Vec::new();
    for (k, v) in pool {
        if rng.chance(2, 5) {
            out.push((odd_case(rng, k), v.to_string()));
        }
    }
    rng.shuffle(&mut out);
    out
}

fn gen_start(rng: &mut Rng) -> String {
    rng.pick(&[
        "http://origin.example.com/start",
        "https://origin.example.com/a/b/c?manifest=1",
        "https://origin.example.com:8443/",
        "http://user:pw@origin.example.com/x",
        "http://127.0.0.1:8080/dev", // directly named internal host: documented as fetched (hop 0 is not judged)
        "http://localhost/manifest.c2pa",
        "https://[2606:4700::1111]/m",
        "http://93.184.216.34/",
    ])
    .to_string()
}

fn gen_case(rng: &mut Rng) -> Case {
    let mut c = Case {
        kind: String::new(),
        asynch: rng.bool(),
        allow_redirects: true,
        with_allow_all_list: rng.chance(1, 5),
        start: gen_start(rng),
        method: rng.pick(&["GET", "GET", "POST", "HEAD"]).to_string(),
        body_len: 0,
        headers: gen_headers(rng),
        hops: Vec::new(),
    };
    if c.method == "POST" {
        c.body_len = rng.usize(40);
    }
    match rng.below(20) {
        // attack: some benign hops, then an internal target
        0..=10 => {
            c.kind = "attack".into();
            let pre = if rng.chance(1, 8) { rng.usize(10) } else { rng.usize(4) };
            for _ in 0..pre {
                c.hops.push(benign_hop(rng));
            }
            let mut it = internal_host(rng);
            let l = location_for(rng, &mut it);
            c.hops.push(mk_hop(rng, l, it));
            // what would follow if the hop were (wrongly) taken
            if rng.bool() {
                c.hops.push(benign_hop(rng));
            }
        }
        11 | 12 => {
            c.kind = "unlisted".into();
            for _ in 0..rng.usize(3) {
                c.hops.push(benign_hop(rng));
            }
            let mut it = unlisted_host(rng);
            let l = location_for(rng, &mut it);
            c.hops.push(mk_hop(rng, l, it));
        }
        13 | 14 => {
            c.kind = "limit".into();
            for _ in 0..(8 + rng.usize(8)) {
                c.hops.push(benign_hop(rng));
            }
        }
        15 => {
            c.kind = "junk".into();
            for _ in 0..rng.usize(3) {
                c.hops.push(benign_hop(rng));
            }
            let (l, i) = junk_location(rng);
            c.hops.push(mk_hop(rng, l, i));
        }
        16 | 17 => {
            c.kind = "disabled".into();
            c.allow_redirects = false;
            for _ in 0..(1 + rng.usize(3)) {
                c.hops.push(if rng.bool() {
                    benign_hop(rng)
                } else {
                    let mut it = internal_host(rng);
                    let l = location_for(rng, &mut it);
                    mk_hop(rng, l, it)
                });
            }
        }
        _ => {
            c.kind = "benign".into();
            for _ in 0..rng.usize(7) {
                c.hops.push(benign_hop(rng));
            }
        }
    }
    c
}

// ------------------------------------------------------------------------------------------------
// execution + oracle

static NAIVE: std::sync::atomic::AtomicBool = std::sync::atomic::AtomicBool::new(false);

struct Exec {
    records: Vec<Rec>,
    /// "ok:<status>" | "err:<Kind>" | "panic"
    outcome: String,
    built: bool,
}

fn execute(c: &Case) -> Exec {
    let script: Vec<Reply> = c.hops.iter().map(|h| Reply::redirect(h.status, &hex::decode(&h.location_hex).unwrap_or_default())).collect();
    let mock = Mock::scripted(script);
    let mut b = Request::builder().method(c.method.as_str()).uri(c.start.as_str());
    for (k, v) in &c.headers {
        b = b.header(k.as_str(), v.as_str());
    }
    let req = match b.body(vec![0x42u8; c.body_len]) {
        Ok(r) => r,
        Err(_) => return Exec { records: vec![], outcome: "request-not-built".into(), built: false },
    };
    let allow = if c.with_allow_all_list { Some(vec![HostPattern::new("http://"), HostPattern::new("https://")]) } else { None };
    let m2 = mock.clone();
    let asynch = c.asynch;
    let allow_redirects = c.allow_redirects;
    if NAIVE.load(std::sync::atomic::Ordering::Relaxed) {
        // monitor self-test only: a follower with no protections at all, to show the oracle fires
        let mut req = req;
        let mut outcome = String::from("err:naive-limit");
        for _ in 0..20 {
            let (uri, method, headers, body) = (req.uri().clone(), req.method().clone(), req.headers().clone(), req.body().clone());
            let resp = match c2pa::http::SyncHttpResolver::http_resolve(&m2, req) {
                Ok(r) => r,
                Err(_) => break,
            };
            let loc = resp.headers().get("location").and_then(|v| v.to_str().ok()).map(|s| s.to_string());
            let next = match (resp.status().is_redirection(), loc) {
                (true, Some(l)) => url::Url::parse(&uri.to_string()).and_then(|b| b.join(&l)).ok().and_then(|u| u.as_str().parse::<c2pa::http::http::Uri>().ok()),
                _ => {
                    outcome = format!("ok:{}", resp.status().as_u16());
                    break;
                }
            };
            let Some(next) = next else {
                outcome = "err:naive-unparsable".into();
                break;
            };
            let mut b = Request::builder().method(method).uri(next);
            for (k, v) in headers.iter() {
                b = b.header(k, v);
            }
            req = match b.body(body) {
                Ok(r) => r,
                Err(_) => break,
            };
        }
        return Exec { records: mock.records(), outcome, built: true };
    }
    let r = report::catch_sdk(move || {
        if asynch {
            let stack = verif_hooks::async_resolver_stack(m2, allow, allow_redirects);
            httpmon::block_on(stack.http_resolve_async(req)).map(|r| r.status().as_u16())
        } else {
            let stack = verif_hooks::sync_resolver_stack(m2, allow, allow_redirects);
            stack.http_resolve(req).map(|r| r.status().as_u16())
        }
    });
    let outcome = match r {
        Err(p) => format!("panic:{p}"),
        Ok(Ok(s)) => format!("ok:{s}"),
        Ok(Err(e)) => format!("err:{}", httpmon::http_err_kind(&e)),
    };
    Exec { records: mock.records(), outcome, built: true }
}

#[derive(Default)]
struct Verdict {
    violations: Vec<(String, String)>,
    classes: Vec<String>,
    counters: BTreeMap<String, u64>,
    unjudged: Vec<String>,
    selfcheck_fail: Vec<String>,
    trivial: bool,
}

fn judge(c: &Case, e: &Exec) -> Verdict {
    let mut v = Verdict::default();
    if !e.built {
        v.trivial = true;
        return v;
    }
    let mode = if c.asynch { "async" } else { "sync" };
    let n = e.records.len();
    *v.counters.entry("requests_recorded".into()).or_insert(0) += n as u64;
    *v.counters.entry("redirect_hops_followed".into()).or_insert(0) += n.saturating_sub(1) as u64;
    if e.outcome.starts_with("panic") {
        v.violations.push(("panic|redirect-resolver".into(), e.outcome.clone()));
    }
    // (1) internal targets
    for (k, r) in e.records.iter().enumerate().skip(1) {
        let parts = split_uri(&r.uri);
        let host = parts.host.clone().unwrap_or_default();
        let info = classify_host(&host);
        let hop = if k == 1 { "hop1" } else { "hop2+" };
        let scheme = parts.scheme.clone().unwrap_or_default().to_ascii_lowercase();
        let sch = if scheme == "http" || scheme == "https" { "http(s)" } else { "other-scheme" };
        if host.is_empty() {
            v.violations.push((format!("no-host|{sch}|{hop}"), format!("hop {k} request without a host was sent: {}", r.uri)));
        }
        if let Some(cl) = info.judged {
            v.violations.push((
                format!("{cl}|{}|{hop}", info.encoding),
                format!("redirect hop {k} sent a request to {} host `{host}` ({}); uri={} after Location={:?}", cl, info.encoding, r.uri, c.hops.get(k - 1).map(|h| h.location.clone())),
            ));
        } else if let Some(u) = info.unjudged {
            v.unjudged.push(format!("followed|{u}|{}", info.encoding.split('+').next().unwrap_or("")));
        }
        // (4) credential headers
        for (name, _) in &r.headers {
            let l = name.to_ascii_lowercase();
            if FORBIDDEN.contains(&l.as_str()) {
                v.violations.push((format!("header|{l}"), format!("hop {k} request to {} carries `{name}`", r.uri)));
            }
        }
    }
    // (2) redirect limit
    if n > 11 {
        v.violations.push((format!("limit|{}", if n == 12 { "12".to_string() } else { ">12".to_string() }), format!("{n} requests recorded for one call (more than ten redirects followed)")));
    }
    // (3) redirects disabled
    if !c.allow_redirects && n > 1 {
        v.violations.push(("disabled|followed".into(), format!("redirects disabled but {n} requests were sent")));
    }
    if !c.allow_redirects && c.hops.first().is_some() && e.outcome.starts_with("ok:200") {
        v.violations.push(("disabled|ok-200".into(), "redirects disabled, first reply was a redirect, yet the call returned the final 200".into()));
    }

    // ---- evidence classes (never verdicts) ----
    // which scripted hop stopped the chain: the reply to request n-1 is hops[n-1]
    let stop = c.hops.get(n.saturating_sub(1));
    let oc = e.outcome.split(':').take(2).collect::<Vec<_>>().join(":");
    match c.kind.as_str() {
        "attack" | "unlisted" | "junk" => {
            // the interesting hop is the last-but-maybe-one scripted hop of kind internal/unlisted/junk
            let idx = c.hops.iter().position(|h| matches!(h.intent.kind.as_str(), "internal" | "unlisted" | "junk"));
            if let Some(i) = idx {
                let h = &c.hops[i];
                let reached = n > i; // request i got the reply hops[i]
                if reached {
                    let followed = n > i + 1;
                    let res = if followed { "followed".to_string() } else { format!("refused:{oc}") };
                    let cls = format!("{mode}|{}|{}|{}|{}", h.intent.kind, h.intent.class, h.intent.enc, res);
                    if h.intent.kind == "internal" {
                        v.classes.push(cls);
                        *v.counters.entry(format!("form:{}:{}", h.intent.form, if followed { "followed" } else { "refused" })).or_insert(0) += 1;
                    } else {
                        v.unjudged.push(format!("{}|{}|{}", h.intent.kind, h.intent.class, res));
                        if h.intent.kind == "unlisted" {
                            // still a non-trivial, judged execution of the loop (headers/limit judged)
                            v.classes.push(format!("{mode}|unlisted-form|{}|{}", h.intent.class, if followed { "followed" } else { "refused" }));
                        }
                    }
                } else {
                    *v.counters.entry("attack_hop_not_reached".into()).or_insert(0) += 1;
                }
            }
        }
        "limit" => {
            let _ = stop;
            v.classes.push(format!("{mode}|limit|scripted={}|records={}|{}", c.hops.len().min(13), n, oc));
        }
        "disabled" => {
            v.classes.push(format!("{mode}|disabled|first={}|records={}|{}", c.hops[0].intent.kind, n, oc));
        }
        _ => {
            v.classes.push(format!("{mode}|benign|hops={}|records={}|{}", c.hops.len(), n.min(12), oc));
        }
    }
    if n > 1 {
        let mut sent: Vec<String> = c.headers.iter().map(|h| h.0.to_ascii_lowercase()).filter(|h| FORBIDDEN.contains(&h.as_str())).collect();
        sent.sort();
        sent.dedup();
        if !sent.is_empty() {
            let kept: usize = e.records[1].headers.len();
            v.classes.push(format!("{mode}|headers|sent={}|others-kept={}", sent.join("+"), kept.min(6)));
            *v.counters.entry("hops_checked_for_credential_headers".into()).or_insert(0) += (n - 1) as u64;
        }
        for (k, _r) in e.records.iter().enumerate().skip(1) {
            if let Some(h) = c.hops.get(k - 1) {
                *v.counters.entry(format!("followed:{}", h.intent.kind)).or_insert(0) += 1;
            }
        }
    }
    // oracle self-check: the classifier must recover the generator's intent from the generated host text
    for h in &c.hops {
        if !h.intent.plain || h.intent.host.is_empty() {
            continue;
        }
        let info = classify_host(&h.intent.host);
        let ok = match h.intent.kind.as_str() {
            "internal" => info.judged == Some(h.intent.class.as_str()),
            "unlisted" => info.judged.is_none() && info.unjudged == Some(h.intent.class.as_str()),
            "public" | "decoy" => info.judged.is_none(),
            _ => true,
        };
        if !ok {
            v.selfcheck_fail.push(format!("{} intended {}:{} classified {:?}/{:?}", h.intent.host, h.intent.kind, h.intent.class, info.judged, info.unjudged));
        }
    }
    v
}

/// Directed cases executed on every run (fixed, seed-independent).
fn directed() -> Vec<Case> {
    let mut out = Vec::new();
    let base = |kind: &str, asynch: bool, hops: Vec<Hop>| Case {
        kind: kind.into(),
        asynch,
        allow_redirects: true,
        with_allow_all_list: false,
        start: "https://origin.example.com/start".into(),
        method: "GET".into(),
        body_len: 0,
        headers: vec![("aUtHoRiZaTiOn".into(), "Bearer x".into()), ("COOKIE".into(), "a=b".into()), ("proxy-AUTHORIZATION".into(), "Basic x".into()), ("hOsT".into(), "origin.example.com".into()), ("Accept".into(), "*/*".into())],
        hops,
    };
    let hop = |loc: &str, class: &str, kind: &str| Hop {
        status: 302,
        location_hex: hex::encode(loc),
        location: loc.into(),
        intent: Intent { kind: kind.into(), class: class.into(), enc: "directed".into(), form: "directed".into(), host: String::new(), plain: false },
    };
    let internal: &[(&str, &str)] = &[
        ("http://localhost/", "localhost"),
        ("http://LocalHost./", "localhost"),
        ("http://a.b.localhost/", "localhost"),
        ("http://127.0.0.1/", "loopback"),
        ("http://127.1/", "loopback"),
        ("http://2130706433/", "loopback"),
        ("http://017700000001/", "loopback"),
        ("http://0x7f.1/", "loopback"),
        ("http://0x7f000001/", "loopback"),
        ("http://0177.0.0.0x1/", "loopback"),
        ("http://127.0.0.1./", "loopback"),
        ("http://%31%32%37.0.0.1/", "loopback"),
        ("http://0.0.0.0/", "unspecified"),
        ("http://0/", "unspecified"),
        ("http://10.0.0.1/", "private"),
        ("http://172.16.0.1/", "private"),
        ("http://172.31.255.255/", "private"),
        ("http://192.168.0.1/", "private"),
        ("http://169.254.169.254/latest/meta-data/", "link-local"),
        ("http://0xa9fea9fe/", "link-local"),
        ("http://100.64.0.1/", "shared"),
        ("http://100.127.255.255/", "shared"),
        ("http://192.0.2.1/", "documentation"),
        ("http://198.51.100.7/", "documentation"),
        ("http://203.0.113.9/", "documentation"),
        ("http://224.0.0.1/", "multicast"),
        ("http://239.255.255.255/", "multicast"),
        ("http://255.255.255.255/", "broadcast"),
        ("http://[::]/", "unspecified"),
        ("http://[::1]/", "loopback"),
        ("http://[0:0:0:0:0:0:0:1]/", "loopback"),
        ("http://[::0.0.0.1]/", "loopback"),
        ("http://[ff02::1]/", "multicast"),
        ("http://[fc00::1]/", "private"),
        ("http://[fd00::1]/", "private"),
        ("http://[fe80::1]/", "link-local"),
        ("http://[febf::1]/", "link-local"),
        ("http://[::ffff:127.0.0.1]/", "loopback"),
        ("http://[::ffff:7f00:1]/", "loopback"),
        ("http://[::FFFF:169.254.169.254]/", "link-local"),
        ("http://[0:0:0:0:0:ffff:10.0.0.1]/", "private"),
        ("http://[::ffff:100.64.0.1]/", "shared"),
        ("//127.0.0.1/", "loopback"),
        ("http:\\\\127.0.0.1\\", "loopback"),
        ("http://user@127.0.0.1/", "loopback"),
        ("http://example.com@127.0.0.1/", "loopback"),
        ("http:127.0.0.1/", "loopback"),
        ("http:/127.0.0.1/", "loopback"),
        ("ftp://127.0.0.1/", "loopback"),
        ("foo://127.0.0.1/", "loopback"),
        ("foo://0x7f.1/", "loopback"),
        ("foo://LOCALHOST/", "localhost"),
        ("foo://api.LocalHost.:80/", "localhost"),
        ("foo://127.0.0.1./", "loopback"),
        ("foo://0177.0.0.1/", "loopback"),
        ("foo://2130706433/", "loopback"),
        ("foo://127.1/", "loopback"),
        ("foo://[::ffff:127.0.0.1]/", "loopback"),
        ("localhost:80", "localhost"),
        ("http://lo%C2%ADcalhost/", "localhost"),
        ("http://127%E3%80%821/", "loopback"),
        ("http://%EF%BC%91%EF%BC%92%EF%BC%97.0.0.1/", "loopback"),
    ];
    for (i, (loc, class)) in internal.iter().enumerate() {
        // as the first hop and after one public hop
        out.push(base("attack", i % 2 == 0, vec![hop(loc, class, "internal")]));
        out.push(base("attack", i % 2 == 1, vec![hop("https://cdn.example.com/next", "public", "public"), hop(loc, class, "internal"), hop("/after", "same-origin", "relative")]));
    }
    for asynch in [false, true] {
        for nhops in [9usize, 10, 11, 12, 15] {
            out.push(base("limit", asynch, (0..nhops).map(|i| hop(&format!("https://h{i}.example.com/{i}"), "public", "public")).collect()));
            out.push(base("limit", asynch, (0..nhops).map(|_| hop("", "same-origin", "relative")).collect()));
        }
        let mut d = base("disabled", asynch, vec![hop("https://cdn.example.com/", "public", "public")]);
        d.allow_redirects = false;
        out.push(d);
        let mut d = base("disabled", asynch, vec![hop("/same-origin", "same-origin", "relative")]);
        d.allow_redirects = false;
        out.push(d);
        out.push(base("benign", asynch, vec![hop("https://other.example.net/x", "public", "public"), hop("/y", "same-origin", "relative")]));
        for u in ["http://[::127.0.0.1]/", "http://[64:ff9b::7f00:1]/", "http://[2002:7f00:1::1]/", "http://[::ffff:0:127.0.0.1]/", "http://0.1.2.3/", "http://240.0.0.1/"] {
            out.push(base("unlisted", asynch, vec![hop(u, &classify_host(split_uri(u).host.as_deref().unwrap_or("")).unjudged.unwrap_or("?").to_string(), "unlisted")]));
        }
    }
    out
}

fn main() {
    let mut run = Run::from_args("C27", "exploration");
    report::quiet_panics();
    run.rule = "case = one call through RedirectResolver[/RestrictedResolver] over a scripted recording transport: 0..15 scripted 3xx replies whose Location comes from a grammar (24 URL shapes x hosts: localhost names, IPv4 in 1-4 part dec/oct/hex/padded/percent-encoded/full-width notation at every class boundary, IPv6 incl. mapped/compatible/NAT64/6to4, decoys, relative, junk), random credential headers in odd casing, sync and async, redirects on/off; plus a fixed directed list. Non-trivial = the redirect loop was reached (a 3xx reply was consumed); distinct = (mode, intent kind, address class, notation, outcome) / (limit shape) / (header set).".into();
    run.assumptions = vec![
        "the oracle judges only what the recording transport received (hop index >= 1); a refusal is always acceptable".into(),
        "internal classes are exactly those the statement lists; 0.0.0.0/8 other than 0.0.0.0, 240/4, IPv4-compatible, NAT64, 6to4, SIIT, site-local and IPv6-documentation targets are generated and reported, not judged".into(),
        "names are judged syntactically (localhost, *.localhost, case-insensitive, one optional trailing dot); DNS resolution is out of scope".into(),
        "a host text that the WHATWG IPv4 number parser reads as an address is judged as that address, whatever the URI scheme".into(),
        "hop 0 (the caller's own URI) is never judged, it may name an internal host by design".into(),
    ];

    // development aid: `c27 --probe <location>...` shows how one Location fares (one hop, sync)
    if let Some(i) = std::env::args().position(|a| a == "--probe") {
        for loc in std::env::args().skip(i + 1) {
            let c = Case { kind: "attack".into(), asynch: false, allow_redirects: true, with_allow_all_list: false, start: "https://origin.example.com/start".into(), method: "GET".into(), body_len: 0, headers: vec![], hops: vec![Hop { status: 302, location_hex: hex::encode(&loc), location: loc.clone(), intent: Intent::default() }] };
            let e = execute(&c);
            let j = judge(&c, &e);
            let joined = url::Url::parse(&c.start).and_then(|b| b.join(&loc)).map(|u| u.to_string());
            println!("{loc:?}: url-join={joined:?} outcome={} recorded={:?} violations={:?}", e.outcome, e.records.iter().map(|r| r.uri.clone()).collect::<Vec<_>>(), j.violations.iter().map(|v| v.0.clone()).collect::<Vec<_>>());
        }
        return;
    }
    // monitor self-test: `c27 --selftest-naive` runs the workload against an unprotected follower and
    // prints the distinct signatures the oracle raises (no evidence file is written, exit code 3)
    if std::env::args().any(|a| a == "--selftest-naive") {
        NAIVE.store(true, std::sync::atomic::Ordering::Relaxed);
        let mut cases = directed();
        let mut rng = Rng::new(run.seed, "c27");
        for _ in 0..50_000 {
            cases.push(gen_case(&mut rng));
        }
        let res = par::par_map(cases.len(), |i| judge(&cases[i], &execute(&cases[i])).violations);
        let mut sigs: BTreeMap<String, u64> = BTreeMap::new();
        for v in res {
            for (s, _) in v {
                *sigs.entry(s).or_insert(0) += 1;
            }
        }
        let mut by_class: BTreeMap<String, u64> = BTreeMap::new();
        for (s, n) in &sigs {
            *by_class.entry(s.split('|').next().unwrap_or("").to_string()).or_insert(0) += n;
        }
        println!("selftest-naive: {} distinct signatures; by first field: {:?}", sigs.len(), by_class);
        std::process::exit(3);
    }
    if let Some(p) = run.replay.clone() {
        let v: serde_json::Value = serde_json::from_slice(&std::fs::read(&p).expect("replay file")).expect("json");
        let c: Case = serde_json::from_value(v["witness"]["case"].clone()).expect("case");
        let e = execute(&c);
        let j = judge(&c, &e);
        println!("replay: outcome={} records={:?}", e.outcome, e.records.iter().map(|r| r.uri.clone()).collect::<Vec<_>>());
        println!("replay: violations={:?}", j.violations);
        std::process::exit(if j.violations.is_empty() { 0 } else { 1 });
    }

    let directed_cases = directed();
    let n_directed = directed_cases.len();
    let n_random: usize = run.tier.pick(300_000, 4_000_000);
    let mut rng = Rng::new(run.seed, "c27");
    let mut unjudged: BTreeMap<String, u64> = BTreeMap::new();
    let mut selfcheck = 0u64;
    let mut sampled: std::collections::BTreeSet<String> = Default::default();
    let mut remaining = n_random;
    let mut first = true;
    // batches bound the memory of the thorough tier; the case stream depends only on the seed
    while first || remaining > 0 {
        let mut cases: Vec<Case> = if first { directed_cases.clone() } else { Vec::new() };
        first = false;
        let take = remaining.min(250_000);
        remaining -= take;
        for _ in 0..take {
            cases.push(gen_case(&mut rng));
        }
        let results = par::par_map(cases.len(), |i| {
            let e = execute(&cases[i]);
            let v = judge(&cases[i], &e);
            (e.outcome, e.records.iter().map(|r| r.uri.clone()).collect::<Vec<_>>(), v)
        });
        for (i, (outcome, uris, v)) in results.into_iter().enumerate() {
            run.eval();
            if v.trivial {
                run.count("trivial:request-not-built", 1);
                continue;
            }
            for (k, n) in &v.counters {
                run.count(k, *n);
            }
            let oc = outcome.split(':').take(2).collect::<Vec<_>>().join(":");
            run.count(&format!("outcome:{oc}"), 1);
            for c in &v.classes {
                run.nontrivial(c.clone());
            }
            for u in &v.unjudged {
                *unjudged.entry(u.clone()).or_insert(0) += 1;
            }
            for s in &v.selfcheck_fail {
                selfcheck += 1;
                if selfcheck <= 5 {
                    println!("SELF-CHECK MISMATCH (harness): {s}");
                }
            }
            let kind = format!("{}:{oc}", cases[i].kind);
            let need_sample = sampled.insert(kind.clone());
            if need_sample || !v.violations.is_empty() {
                let cj = json!({"case": cases[i], "outcome": outcome, "recorded_uris": uris});
                if need_sample {
                    run.sample(&kind, 1, cj.clone());
                }
                for (sig, what) in &v.violations {
                    run.violation(sig, what, cj.clone());
                }
            }
        }
    }
    if selfcheck > 0 {
        run.inconclusive(format!("oracle self-check failed on {selfcheck} generated hosts (classifier did not recover the generator's intent) — harness defect"));
    }
    run.set("directed_cases", json!(n_directed));
    run.set("random_cases", json!(n_random));
    run.set("unjudged", json!(unjudged));
    run.set("oracle_selfcheck_mismatches", json!(selfcheck));
    run.engine("release", true, json!({"threads": par::workers()}));
    if selfcheck > 0 {
        // an oracle that disagrees with its own generator must not certify anything
        run.finish(usize::MAX)
    }
    run.finish(60);
}
