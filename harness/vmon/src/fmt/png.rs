//! PNG (ISO/IEC 15948) chunk parser: signature, length/type/data/CRC chunks, CRC verification with the
//! crate-local CRC-32, IHDR first, IEND present; bytes after IEND are reported as one `trailing`
//! element.  The C2PA manifest store is the payload of a `caBX` chunk.
use super::{be32, crc32, Container, Elem, Parsed};

pub const SIG: [u8; 8] = [0x89, b'P', b'N', b'G', 0x0D, 0x0A, 0x1A, 0x0A];

pub fn parse(data: &[u8]) -> Result<Parsed, String> {
    if data.len() < 8 || data[..8] != SIG {
        return Err("bad PNG signature".into());
    }
    let mut p = Parsed::default();
    p.elems.push(Elem::new("signature", 0, 8, 0, 8));
    let mut o = 8usize;
    let mut seen_iend = false;
    let mut idx = 0usize;
    while o < data.len() {
        if seen_iend {
            p.elems.push(Elem::new("trailing", o, data.len() - o, o, data.len() - o));
            break;
        }
        let len = be32(data, o).ok_or("truncated chunk header")? as usize;
        let typ = data.get(o + 4..o + 8).ok_or("truncated chunk type")?;
        if len > 0x7FFF_FFFF {
            return Err(format!("chunk length {len} exceeds 2^31-1"));
        }
        if !typ.iter().all(|c| c.is_ascii_alphabetic()) {
            return Err(format!("chunk type {:02x?} at {o} is not alphabetic", typ));
        }
        let end = o.checked_add(12 + len).ok_or("overflow")?;
        if end > data.len() {
            return Err(format!("chunk {} at {o} (length {len}) runs past the end of the file", String::from_utf8_lossy(typ)));
        }
        let body = &data[o + 8..o + 8 + len];
        let crc = be32(data, o + 8 + len).unwrap();
        let want = crc32(&[typ, body]);
        if crc != want {
            return Err(format!("chunk {} at {o}: CRC {crc:08x}, computed {want:08x}", String::from_utf8_lossy(typ)));
        }
        if idx == 0 && typ != b"IHDR" {
            return Err("first chunk is not IHDR".into());
        }
        let mut e = Elem::new(String::from_utf8_lossy(typ).to_string(), o, 12 + len, o + 8, len);
        if typ == b"caBX" {
            e.is_c2pa = true;
            p.containers.push(Container { ranges: vec![(o, 12 + len)], store: body.to_vec(), store_ranges: vec![(o + 8, len)], encoded: false, label: "caBX".into() });
        }
        if typ == b"IEND" {
            if len != 0 {
                return Err("IEND with data".into());
            }
            seen_iend = true;
        }
        p.elems.push(e);
        o = end;
        idx += 1;
    }
    if !seen_iend {
        return Err("no IEND chunk".into());
    }
    Ok(p)
}
