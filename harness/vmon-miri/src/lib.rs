//! Sanitizer-sized workloads for C13 (hash pipeline) and C24 (shared contexts), run under Miri
//! (`cargo +nightly miri test -p vmon-miri`) and ThreadSanitizer (`-Zsanitizer=thread`) on the
//! C-free build of c2pa.  The functional assertions here are deliberately the same oracles as
//! in the release monitors (reference digest; result equals the sequential run; cancellation
//! only from the own context) — the engines add UB / data-race detection on top.
use c2pa::{Builder, BuilderIntent, Context, HashRange, Reader, Signer};
use sha2::{Digest, Sha256};
use std::io::Cursor;
use std::sync::Arc;

pub const CERT_ED25519: &[u8] = include_bytes!("/repo/sdk/tests/fixtures/certs/ed25519.pub");
pub const KEY_ED25519: &[u8] = include_bytes!("/repo/sdk/tests/fixtures/certs/ed25519.pem");

fn jpeg_seg(marker: u8, payload: &[u8]) -> Vec<u8> {
    let mut v = vec![0xFF, marker];
    v.extend_from_slice(&((payload.len() + 2) as u16).to_be_bytes());
    v.extend_from_slice(payload);
    v
}

/// Structurally valid 8x8 baseline JPEG (about 130 bytes).
pub fn tiny_jpeg() -> Vec<u8> {
    let mut v = vec![0xFF, 0xD8];
    v.extend(jpeg_seg(0xE0, b"JFIF\0\x01\x01\0\0\x01\0\x01\0\0"));
    let mut dqt = vec![0u8];
    dqt.extend(std::iter::repeat(16u8).take(64));
    v.extend(jpeg_seg(0xDB, &dqt));
    v.extend(jpeg_seg(0xC0, &[8, 0, 8, 0, 8, 1, 1, 0x11, 0]));
    let mut counts = [0u8; 16];
    counts[0] = 1;
    let mut dht_dc = vec![0x00u8];
    dht_dc.extend_from_slice(&counts);
    dht_dc.push(0);
    v.extend(jpeg_seg(0xC4, &dht_dc));
    let mut dht_ac = vec![0x10u8];
    dht_ac.extend_from_slice(&counts);
    dht_ac.push(0);
    v.extend(jpeg_seg(0xC4, &dht_ac));
    v.extend(jpeg_seg(0xDA, &[1, 1, 0x00, 0, 63, 0]));
    v.push(0x3F);
    v.extend_from_slice(&[0xFF, 0xD9]);
    v
}

pub fn signer() -> c2pa::BoxedSigner {
    c2pa::create_signer::from_keys(CERT_ED25519, KEY_ED25519, c2pa::SigningAlg::Ed25519, None).expect("ed25519 fixture signer")
}

pub fn settings(generator: &str, with_signer: bool) -> String {
    let mut v = serde_json::json!({
        "verify": {"verify_trust": false, "verify_after_sign": false},
        "builder": {"thumbnail": {"enabled": false}, "claim_generator_info": {"name": generator}},
    });
    if with_signer {
        v["signer"] = serde_json::json!({"local": {"alg": "ed25519", "sign_cert": String::from_utf8_lossy(CERT_ED25519), "private_key": String::from_utf8_lossy(KEY_ED25519)}});
    }
    v.to_string()
}

pub fn definition() -> serde_json::Value {
    serde_json::json!({"title": "miri", "assertions": [{"label": "org.verif.test", "data": {"k": 1}}]})
}

/// Signs the tiny JPEG with `signer` on `ctx`.
pub fn sign_tiny(ctx: &Arc<Context>, signer: &dyn Signer) -> c2pa::Result<Vec<u8>> {
    let mut b = Builder::from_shared_context(ctx).with_definition(definition())?;
    b.set_intent(BuilderIntent::Create(c2pa::DigitalSourceType::DigitalCapture));
    let mut src = Cursor::new(tiny_jpeg());
    let mut dst = Cursor::new(Vec::new());
    b.sign(signer, "jpg", &mut src, &mut dst)?;
    Ok(dst.into_inner())
}

/// Reads `bytes`; returns (validation state, claim generator name, number of failure codes).
pub fn read_summary(ctx: &Arc<Context>, bytes: &[u8]) -> c2pa::Result<(String, String, usize)> {
    let r = Reader::from_shared_context(ctx).with_stream("jpg", Cursor::new(bytes.to_vec()))?;
    let v: serde_json::Value = serde_json::from_str(&r.json()).unwrap_or_default();
    let gen = v["manifests"]
        .as_object()
        .and_then(|m| m.values().next())
        .and_then(|m| m["claim_generator_info"][0]["name"].as_str())
        .unwrap_or("")
        .to_string();
    let fails = r.validation_results().map(|vr| vr.active_manifest().map(|a| a.failure().len()).unwrap_or(0)).unwrap_or(0);
    Ok((format!("{:?}", r.validation_state()), gen, fails))
}

/// Reference for C13: digest of exactly the selected bytes (exclusion or inclusion ranges, no markers).
pub fn reference_digest(data: &[u8], ranges: &[(u64, u64)], exclusion: bool) -> Vec<u8> {
    let mut sel = Vec::new();
    if ranges.is_empty() {
        sel.extend_from_slice(data);
    } else if exclusion {
        for (p, b) in data.iter().enumerate() {
            let p = p as u64;
            if !ranges.iter().any(|(s, l)| p >= *s && p < s + l) {
                sel.push(*b);
            }
        }
    } else {
        let mut rs = ranges.to_vec();
        rs.sort();
        for (s, l) in rs {
            sel.extend_from_slice(&data[s as usize..(s + l) as usize]);
        }
    }
    Sha256::digest(&sel).to_vec()
}

pub fn hash_with_buf(data: &[u8], ranges: &[(u64, u64)], exclusion: bool, buf: usize) -> c2pa::Result<(Vec<u8>, Vec<(u32, u32)>)> {
    let mut steps = Vec::new();
    let hr: Option<Vec<HashRange>> = if ranges.is_empty() { None } else { Some(ranges.iter().map(|(s, l)| HashRange::new(*s, *l)).collect()) };
    let mut cur = Cursor::new(data.to_vec());
    let d = c2pa::verif_hooks::hash_stream_with_buf("sha256", &mut cur, hr, exclusion, buf, &mut |s, t| {
        steps.push((s, t));
        Ok(())
    })?;
    Ok((d, steps))
}
