//! C36 — time-stamps are used only when they match the signature.
//!
//! Ground truth is by construction.  A test PKI (root, second root, TSA certificates of several
//! kinds, signing certificates with four validity windows) is generated per run.  Time-stamp tokens
//! are produced by two independent TSAs: `openssl ts -reply` (genTime = now) and a DER encoder in
//! `vmon::pki_tsa` (any genTime / any TSA certificate); one representative of every token class is
//! cross-checked with `openssl ts -verify -attime genTime`.  Tokens are embedded either by the SDK's
//! own signing path (a Signer whose `send_timestamp_request` is answered by the local TSA) or, for
//! combinations the signing path refuses, through the direct-COSE signer's unprotected header
//! (`sigTst` = TimeStampResp for claim v1, `sigTst2` = TimeStampToken for claim v2).  The message the
//! imprint must cover is computed here from RFC 9052 / C2PA §10.3.2.5 (Sig_structure with context
//! "CounterSignature" over the claim bytes for v1 and over the CBOR bstr of the COSE signature for v2).
//!
//! Oracle (from the statement):
//!   * token usable  := imprint matches ∧ CMS signature verifies (certificate present, TSTInfo intact,
//!     TSA certificate valid at genTime) ∧ (TSA has the timeStamping EKU and chains to an anchor, when
//!     `verify_timestamp_trust` is on and the claim is v2);
//!   * not usable ⇒ `signature_info.time` is not reported, no `timeStamp.validated` success, and a
//!     `timeStamp.*` informational/failure code is present;
//!   * usable ⇒ `signature_info.time` == genTime and `timeStamp.validated` present (a right token is
//!     never rejected);
//!   * signing time := genTime if usable else now; a signing certificate that is not valid at that
//!     time is never Valid/Trusted; an expired one with a usable token inside its window is accepted.
use c2pa::{Context, Signer, SigningAlg};
use coset::cbor::value::Value;
use serde_json::json;
use std::sync::{Arc, Mutex};
use vmon::cose_direct::{DirectCoseSigner, SignCtx};
use vmon::pki::{self, oids, Cert, CertSpec, Ext, Key, KeyKind, Md, DAY};
use vmon::pki_tsa::{self, CliTsa, TokenSpec};
use vmon::{assets, par, report, Run};

// ------------------------------------------------------------------------------------------------
// PKI
// ------------------------------------------------------------------------------------------------
struct Tsa {
    cert: Cert,
    key: Arc<Key>,
    /// issuer chain put into tokens after the TSA certificate
    chain: Vec<Cert>,
}

struct Pki {
    now: i64,
    root: Cert,
    root_k: Arc<Key>,
    other_root: Cert,
    tsa_ec: Tsa,
    tsa_rsa: Tsa,
    tsa_untrusted: Tsa,
    tsa_no_eku: Tsa,
    /// valid [now-400d, now-100d]
    tsa_expired: Tsa,
    /// valid [now-10d, now+400d]
    tsa_young: Tsa,
    /// valid [now-400d, now-20d]: expired now, valid at G_PAST
    tsa_lapsed: Tsa,
    wrong_key: Arc<Key>,
    ee_key: Arc<Key>,
}

const G_PAST_DAYS: i64 = 30;

#[derive(Clone, Copy, Debug, PartialEq, Eq)]
enum CertClass {
    Valid,
    ExpiredValidAtPast,
    ExpiredBeforePast,
    NotYetAtPast,
}

impl CertClass {
    const ALL: [CertClass; 4] = [CertClass::Valid, CertClass::ExpiredValidAtPast, CertClass::ExpiredBeforePast, CertClass::NotYetAtPast];
    fn name(&self) -> &'static str {
        match self {
            CertClass::Valid => "cert-valid",
            CertClass::ExpiredValidAtPast => "cert-expired-valid-30d-ago",
            CertClass::ExpiredBeforePast => "cert-expired-40d-ago",
            CertClass::NotYetAtPast => "cert-valid-since-20d",
        }
    }
    fn window(&self, now: i64) -> (i64, i64) {
        match self {
            CertClass::Valid => (now - 60 * DAY, now + 300 * DAY),
            CertClass::ExpiredValidAtPast => (now - 60 * DAY, now - 10 * DAY),
            CertClass::ExpiredBeforePast => (now - 90 * DAY, now - 40 * DAY),
            CertClass::NotYetAtPast => (now - 20 * DAY, now + 300 * DAY),
        }
    }
}

fn build_pki() -> Pki {
    let now = pki::now_unix();
    let root_k = Key::pooled(KeyKind::P256, 3600);
    let mut rs = CertSpec::ca("c36 Root", None);
    rs.not_before = now - 1000 * DAY;
    let root = pki::issue(&rs, &root_k, None);
    let other_k = Key::pooled(KeyKind::P256, 3601);
    let mut os = CertSpec::ca("c36 Other Root", None);
    os.not_before = now - 1000 * DAY;
    let other_root = pki::issue(&os, &other_k, None);

    let mk = |cn: &str, kind: KeyKind, slot: usize, nb: i64, na: i64, issuer: (&Cert, &Key), eku: bool| -> Tsa {
        let key = Key::pooled(kind, slot);
        let mut s = CertSpec::tsa(cn);
        s.not_before = nb;
        s.not_after = na;
        if !eku {
            s.set_ext(Ext::eku(&[oids::EKU_EMAIL_PROTECTION]));
        }
        let cert = pki::issue(&s, &key, Some(issuer));
        Tsa { cert, key, chain: vec![issuer.0.clone()] }
    };
    let w = (now - 400 * DAY, now + 400 * DAY);
    Pki {
        now,
        tsa_ec: mk("c36 TSA ec", KeyKind::P256, 3610, w.0, w.1, (&root, &root_k), true),
        tsa_rsa: mk("c36 TSA rsa", KeyKind::Rsa2048, 3611, w.0, w.1, (&root, &root_k), true),
        tsa_untrusted: mk("c36 TSA other root", KeyKind::P256, 3612, w.0, w.1, (&other_root, &other_k), true),
        tsa_no_eku: mk("c36 TSA no eku", KeyKind::P256, 3613, w.0, w.1, (&root, &root_k), false),
        tsa_expired: mk("c36 TSA expired", KeyKind::P256, 3614, now - 400 * DAY, now - 100 * DAY, (&root, &root_k), true),
        tsa_young: mk("c36 TSA young", KeyKind::P256, 3615, now - 10 * DAY, now + 400 * DAY, (&root, &root_k), true),
        tsa_lapsed: mk("c36 TSA lapsed", KeyKind::P256, 3616, now - 400 * DAY, now - 20 * DAY, (&root, &root_k), true),
        wrong_key: Key::pooled(KeyKind::P256, 3617),
        ee_key: Key::pooled(KeyKind::Ed25519, 3620),
        root,
        root_k,
        other_root,
    }
}

fn ee_cert(p: &Pki, c: CertClass) -> Cert {
    let mut s = CertSpec::ee(&format!("c36 signer {}", c.name()));
    let (nb, na) = c.window(p.now);
    s.not_before = nb;
    s.not_after = na;
    pki::issue(&s, &p.ee_key, Some((&p.root, &p.root_k)))
}

// ------------------------------------------------------------------------------------------------
// Token classes
// ------------------------------------------------------------------------------------------------
#[derive(Clone, Copy, Debug, PartialEq, Eq)]
enum Tok {
    Right(Md),
    RightRsaTsa,
    RightCli(Md),
    RightCliRsa,
    OtherMessage,
    OtherMessageCli,
    /// imprint computed over the message of the *other* claim version (claim bytes ↔ signature)
    OtherVersionMessage,
    AlgMismatchDeclared512,
    AlgMismatchDeclared256,
    SigFlip,
    SigFlipCli,
    WrongKey,
    TstInfoFlip,
    TstInfoFlipCli,
    NoCerts,
    NoCertsCli,
    TsaNoEku,
    TsaExpiredAtGen,
    TsaNotYetAtGen,
    TsaLapsedNowValidAtGen,
    UntrustedTsa,
    Sha1Imprint,
    SigningTimeAttrDiffers,
    /// tag of the `values` SET of the signed messageDigest attribute changed (0x31 -> 0x30)
    SignedAttrSetTagFlip,
    /// length octet of INTEGER s inside the ECDSA-Sig-Value changed (r and s themselves untouched)
    EcdsaSigDerLengthFlip,
    /// one bit flipped at a seeded-random position of a right token; region 0 = CMS signature value,
    /// 1 = TSTInfo, 2 = signed messageDigest attribute
    RandFlip { region: u8, r: u32, cli: bool },
}

impl Tok {
    fn all() -> Vec<Tok> {
        use Tok::*;
        vec![
            Right(Md::Sha256),
            Right(Md::Sha384),
            Right(Md::Sha512),
            RightRsaTsa,
            RightCli(Md::Sha256),
            RightCli(Md::Sha512),
            RightCliRsa,
            OtherMessage,
            OtherMessageCli,
            OtherVersionMessage,
            AlgMismatchDeclared512,
            AlgMismatchDeclared256,
            SigFlip,
            SigFlipCli,
            WrongKey,
            TstInfoFlip,
            TstInfoFlipCli,
            NoCerts,
            NoCertsCli,
            TsaNoEku,
            TsaExpiredAtGen,
            TsaNotYetAtGen,
            TsaLapsedNowValidAtGen,
            UntrustedTsa,
            Sha1Imprint,
            SigningTimeAttrDiffers,
            SignedAttrSetTagFlip,
            EcdsaSigDerLengthFlip,
        ]
    }
    fn name(&self) -> String {
        use Tok::*;
        match self {
            Right(m) => format!("right-{}", m.name()),
            RightRsaTsa => "right-rsa-tsa".into(),
            RightCli(m) => format!("right-{}(openssl-ts)", m.name()),
            RightCliRsa => "right-rsa-tsa(openssl-ts)".into(),
            OtherMessage => "other-message".into(),
            OtherMessageCli => "other-message(openssl-ts)".into(),
            OtherVersionMessage => "other-claim-version-message".into(),
            AlgMismatchDeclared512 => "imprint-alg-mismatch:declared-sha512".into(),
            AlgMismatchDeclared256 => "imprint-alg-mismatch:declared-sha256".into(),
            SigFlip => "cms-signature-byte-flipped".into(),
            SigFlipCli => "cms-signature-byte-flipped(openssl-ts)".into(),
            WrongKey => "cms-signed-with-other-key".into(),
            TstInfoFlip => "tstinfo-gentime-digit-changed".into(),
            TstInfoFlipCli => "tstinfo-gentime-digit-changed(openssl-ts)".into(),
            NoCerts => "no-certificates".into(),
            NoCertsCli => "no-certificates(openssl-ts)".into(),
            TsaNoEku => "tsa-without-timestamping-eku".into(),
            TsaExpiredAtGen => "tsa-expired-at-gentime".into(),
            TsaNotYetAtGen => "tsa-not-yet-valid-at-gentime".into(),
            TsaLapsedNowValidAtGen => "tsa-expired-now-valid-at-gentime".into(),
            UntrustedTsa => "untrusted-tsa".into(),
            Sha1Imprint => "right-sha1".into(),
            SigningTimeAttrDiffers => "right-signingtime-attr-differs".into(),
            SignedAttrSetTagFlip => "signed-attr-values-set-tag-changed".into(),
            EcdsaSigDerLengthFlip => "ecdsa-sig-der-length-octet-changed".into(),
            RandFlip { region, cli, .. } => format!(
                "random-bit-flip:{}{}",
                ["cms-signature", "tstinfo", "signed-message-digest-attr"][*region as usize % 3],
                if *cli { "(openssl-ts)" } else { "" }
            ),
        }
    }
    /// cause class for signatures (producer suffix removed)
    fn cause(&self) -> String {
        self.name().split('(').next().unwrap_or("").to_string()
    }
    fn is_cli(&self) -> bool {
        use Tok::*;
        matches!(self, RightCli(_) | RightCliRsa | OtherMessageCli | SigFlipCli | TstInfoFlipCli | NoCertsCli | RandFlip { cli: true, .. })
    }
}

/// What the generator knows about a produced token.
#[derive(Clone, Debug, Default)]
struct Truth {
    imprint_ok: bool,
    /// certificate present ∧ signature over intact TSTInfo verifies with it
    cms_ok: bool,
    tsa_valid_at_gen: bool,
    tsa_eku_ok: bool,
    tsa_trusted: bool,
    /// the statement does not decide this class at all (reason)
    unjudged: Option<&'static str>,
    gen_time: i64,
    /// the time a validator may report when it uses the token (genTime, or the signed signingTime attribute)
    acceptable_times: Vec<i64>,
}

struct Made {
    resp: Vec<u8>,
    token: Vec<u8>,
    truth: Truth,
    /// digest the imprint was requested for (for the CLI cross-check)
    right_digest: (Md, Vec<u8>),
    tsa_cert: Vec<u8>,
    chain: Vec<Vec<u8>>,
}

fn flip(b: &mut [u8], at: usize) {
    b[at] ^= 0x01;
}

/// Changes the last seconds digit of genTime to another digit (keeps the DER well-formed).
fn change_gentime_digit(buf: &mut [u8]) -> Result<(), String> {
    let (_, off) = pki_tsa::locate_gen_time(buf).ok_or("genTime not found")?;
    let d = buf[off];
    if !d.is_ascii_digit() {
        return Err("genTime digit not found".into());
    }
    buf[off] = if d == b'9' { b'8' } else { d + 1 };
    Ok(())
}

/// Value of the signed signingTime attribute (UTCTime) of a token, unix seconds.
fn signing_time_attr(buf: &[u8]) -> Option<i64> {
    let oid = pki::der::oid(pki_tsa::OID_ATTR_SIGNING_TIME);
    let pos = buf.windows(oid.len()).position(|w| w == oid.as_slice())? + oid.len();
    // SET { UTCTime "YYMMDDHHMMSSZ" }
    if buf.get(pos)? != &0x31 || buf.get(pos + 2)? != &0x17 || buf.get(pos + 3)? != &13 {
        return None;
    }
    let s = std::str::from_utf8(buf.get(pos + 4..pos + 16)?).ok()?;
    let dt = chrono::NaiveDateTime::parse_from_str(&format!("20{s}"), "%Y%m%d%H%M%S").ok()?;
    Some(dt.and_utc().timestamp())
}

/// Flips one bit inside the named region of a token / response (the region is found structurally).
fn rand_flip(buf: &mut [u8], region: u8, r: u32) -> Result<(), String> {
    let (start, len) = match region % 3 {
        // value bytes of the signature only (the tail of `s` / of the RSA block): DER framing bytes of an
        // ECDSA-Sig-Value are a separate, directed class (EcdsaSigDerLengthFlip)
        0 => (buf.len().saturating_sub(30), 30.min(buf.len())),
        1 => pki_tsa::locate_tst_info(buf).ok_or("TSTInfo not found")?,
        _ => {
            let oid = pki::der::oid(pki_tsa::OID_ATTR_MESSAGE_DIGEST);
            let pos = buf.windows(oid.len()).position(|w| w == oid.as_slice()).ok_or("messageDigest attribute not found")?;
            // SET header length, OCTET STRING header, digest (the SET tag itself is the directed class SignedAttrSetTagFlip)
            (pos + oid.len() + 1, 35)
        }
    };
    if len == 0 || start + len > buf.len() {
        return Err("flip region out of range".into());
    }
    buf[start + (r as usize & 0xffff) % len] ^= 1 << ((r >> 16) % 8);
    Ok(())
}

/// Produces the token of class `tok` for `message` (the right message) / `other_version_message`.
fn make(p: &Pki, tok: Tok, message: &[u8], other_version_message: &[u8]) -> Result<Made, String> {
    use Tok::*;
    let g_past = p.now - G_PAST_DAYS * DAY;
    let mut wrong = message.to_vec();
    let l = wrong.len();
    wrong[l / 2] ^= 0x40;
    let mut t = Truth { imprint_ok: true, cms_ok: true, tsa_valid_at_gen: true, tsa_eku_ok: true, tsa_trusted: true, ..Default::default() };

    if tok.is_cli() {
        let (tsa, md, msg, cert_req) = match tok {
            RightCli(m) => (&p.tsa_ec, m, message, true),
            RightCliRsa => (&p.tsa_rsa, Md::Sha256, message, true),
            OtherMessageCli => (&p.tsa_ec, Md::Sha256, wrong.as_slice(), true),
            SigFlipCli | TstInfoFlipCli | RandFlip { .. } => (&p.tsa_ec, Md::Sha256, message, true),
            NoCertsCli => (&p.tsa_ec, Md::Sha256, message, false),
            _ => unreachable!(),
        };
        let cli = CliTsa::new(&tsa.cert, &tsa.key, &tsa.chain);
        let mut resp = cli.stamp_digest(md, &pki_tsa::digest(md, msg), cert_req)?;
        let (gt, _) = pki_tsa::locate_gen_time(&resp).ok_or("cannot find genTime in openssl reply")?;
        t.gen_time = gt;
        match tok {
            OtherMessageCli => t.imprint_ok = false,
            SigFlipCli => {
                let n = resp.len();
                flip(&mut resp, n - 1);
                t.cms_ok = false;
            }
            TstInfoFlipCli => {
                change_gentime_digit(&mut resp)?;
                t.cms_ok = false;
            }
            NoCertsCli => t.cms_ok = false,
            RandFlip { region, r, .. } => {
                rand_flip(&mut resp, region, r)?;
                t.cms_ok = false;
            }
            _ => {}
        }
        // openssl writes its own clock reading into the signed signingTime attribute (which the SDK prefers over
        // genTime); it can differ from genTime by a second in either direction
        t.acceptable_times = vec![gt];
        t.acceptable_times.extend(signing_time_attr(&resp));
        let token = pki_tsa::token_of_resp(&resp).ok_or("no token in reply")?;
        return Ok(Made {
            resp,
            token,
            truth: t,
            right_digest: (md, pki_tsa::digest(md, message)),
            tsa_cert: tsa.cert.der.clone(),
            chain: tsa.chain.iter().map(|c| c.der.clone()).collect(),
        });
    }

    let (tsa, md): (&Tsa, Md) = match tok {
        Right(m) => (&p.tsa_ec, m),
        RightRsaTsa => (&p.tsa_rsa, Md::Sha256),
        TsaNoEku => (&p.tsa_no_eku, Md::Sha256),
        TsaExpiredAtGen => (&p.tsa_expired, Md::Sha256),
        TsaNotYetAtGen => (&p.tsa_young, Md::Sha256),
        TsaLapsedNowValidAtGen => (&p.tsa_lapsed, Md::Sha256),
        UntrustedTsa => (&p.tsa_untrusted, Md::Sha256),
        AlgMismatchDeclared512 => (&p.tsa_ec, Md::Sha512),
        Sha1Imprint => (&p.tsa_ec, Md::Sha1),
        _ => (&p.tsa_ec, Md::Sha256),
    };
    let imprint = match tok {
        OtherMessage => pki_tsa::digest(md, &wrong),
        OtherVersionMessage => pki_tsa::digest(md, other_version_message),
        AlgMismatchDeclared512 => {
            let d = pki_tsa::digest(Md::Sha256, message);
            [d.clone(), d].concat()
        }
        AlgMismatchDeclared256 => pki_tsa::digest(Md::Sha512, message)[..32].to_vec(),
        _ => pki_tsa::digest(md, message),
    };
    let mut certs = vec![tsa.cert.der.clone()];
    certs.extend(tsa.chain.iter().map(|c| c.der.clone()));
    if tok == NoCerts {
        certs.clear();
    }
    let key: &Key = if tok == WrongKey { &p.wrong_key } else { &tsa.key };
    let spec = TokenSpec {
        imprint_md: md,
        imprint,
        gen_time: g_past,
        signing_time_attr: if tok == SigningTimeAttrDiffers { Some(g_past + 3 * DAY) } else { None },
        omit_signing_time: false,
        tsa_cert: &tsa.cert,
        tsa_key: key,
        certs,
        accuracy_secs: Some(1),
        nonce: Some(0x1122334455),
    };
    let tk = pki_tsa::make_token(&spec);
    let (mut resp, mut token) = (tk.resp, tk.token);
    t.gen_time = g_past;
    t.acceptable_times = vec![g_past];
    match tok {
        OtherMessage | OtherVersionMessage | AlgMismatchDeclared512 | AlgMismatchDeclared256 => t.imprint_ok = false,
        SigFlip => {
            let (n, m) = (resp.len(), token.len());
            flip(&mut resp, n - 1);
            flip(&mut token, m - 1);
            t.cms_ok = false;
        }
        WrongKey | NoCerts => t.cms_ok = false,
        TstInfoFlip => {
            change_gentime_digit(&mut resp)?;
            change_gentime_digit(&mut token)?;
            t.cms_ok = false;
        }
        RandFlip { region, r, .. } => {
            rand_flip(&mut resp, region, r)?;
            rand_flip(&mut token, region, r)?;
            t.cms_ok = false;
        }
        SignedAttrSetTagFlip => {
            for b in [&mut resp, &mut token] {
                let oid = pki::der::oid(pki_tsa::OID_ATTR_MESSAGE_DIGEST);
                let pos = b.windows(oid.len()).position(|w| w == oid.as_slice()).ok_or("messageDigest attribute not found")?;
                if b[pos + oid.len()] != 0x31 {
                    return Err("SET tag not where expected".into());
                }
                b[pos + oid.len()] = 0x30;
            }
            t.cms_ok = false;
        }
        EcdsaSigDerLengthFlip => {
            for b in [&mut resp, &mut token] {
                let n = b.len();
                let ls = [32usize, 33].into_iter().find(|ls| b[n - ls - 2] == 0x02 && b[n - ls - 1] as usize == *ls).ok_or("INTEGER s header not found")?;
                b[n - ls - 1] ^= 0x10;
            }
            t.unjudged = Some("r and s are untouched and still verify; only the DER framing of the ECDSA-Sig-Value is corrupt (openssl rejects it): encoding leniency, not decided by the statement");
        }
        TsaNoEku => t.tsa_eku_ok = false,
        TsaExpiredAtGen | TsaNotYetAtGen => t.tsa_valid_at_gen = false,
        UntrustedTsa => t.tsa_trusted = false,
        TsaLapsedNowValidAtGen => {
            t.unjudged = Some("TSA certificate valid at genTime but expired today: the statement does not say which time governs the TSA certificate")
        }
        Sha1Imprint => t.unjudged = Some("SHA-1 message imprint: matching, but the statement does not say whether weak imprints count"),
        SigningTimeAttrDiffers => {
            t.acceptable_times = vec![g_past, g_past + 3 * DAY];
        }
        _ => {}
    }
    Ok(Made {
        resp,
        token,
        truth: t,
        right_digest: (md, pki_tsa::digest(md, message)),
        tsa_cert: tsa.cert.der.clone(),
        chain: tsa.chain.iter().map(|c| c.der.clone()).collect(),
    })
}

// ------------------------------------------------------------------------------------------------
// Messages (independent of the SDK)
// ------------------------------------------------------------------------------------------------
fn cbor(v: &Value) -> Vec<u8> {
    let mut out = Vec::new();
    coset::cbor::into_writer(v, &mut out).expect("cbor");
    out
}

/// Sig_structure for a countersignature: ["CounterSignature", body_protected, external_aad = h'', payload].
fn countersign_structure(protected: &[u8], payload: &[u8]) -> Vec<u8> {
    cbor(&Value::Array(vec![
        Value::Text("CounterSignature".into()),
        Value::Bytes(protected.to_vec()),
        Value::Bytes(Vec::new()),
        Value::Bytes(payload.to_vec()),
    ]))
}

/// (message for claim v1, message for claim v2)
fn messages(ctx: &SignCtx) -> (Vec<u8>, Vec<u8>) {
    let v1 = countersign_structure(ctx.protected, ctx.claim_bytes);
    let v2 = countersign_structure(ctx.protected, &cbor(&Value::Bytes(ctx.signature.to_vec())));
    (v1, v2)
}

fn tst_container(val: &[u8]) -> Value {
    Value::Map(vec![(
        Value::Text("tstTokens".into()),
        Value::Array(vec![Value::Map(vec![(Value::Text("val".into()), Value::Bytes(val.to_vec()))])]),
    )])
}

// ------------------------------------------------------------------------------------------------
// Signing
// ------------------------------------------------------------------------------------------------
fn sign_with(signer: &dyn Signer, claim_v: u8, format: &str, asset: &[u8], verify_after_sign: bool) -> Result<Vec<u8>, String> {
    let settings = json!({
        "verify": {"verify_after_sign": verify_after_sign, "verify_trust": false, "verify_timestamp_trust": false},
        "builder": {"thumbnail": {"enabled": false}}
    });
    let ctx = Context::new().with_settings(settings.to_string().as_str()).map_err(|e| format!("{e:?}"))?;
    let mut def = json!({"title": "verif", "assertions": [{"label": "org.verif.test", "data": {"k": 1}}]});
    if claim_v == 1 {
        def["claim_version"] = json!(1);
        def["claim_generator_info"] = json!([{"name": "verif", "version": "1"}]);
    }
    let mut b = c2pa::Builder::from_context(ctx).with_definition(def).map_err(|e| format!("{e:?}"))?;
    if claim_v != 1 {
        b.set_intent(c2pa::BuilderIntent::Edit);
    }
    let mut src = std::io::Cursor::new(asset.to_vec());
    let mut dst = std::io::Cursor::new(Vec::new());
    b.sign(signer, format, &mut src, &mut dst).map_err(|e| format!("{e:?}"))?;
    Ok(dst.into_inner())
}

#[derive(Default)]
struct Slot {
    made: Option<Made>,
    err: Option<String>,
}

/// The SDK's own signing path with a TSA answered locally.
struct TsaSigner {
    inner: c2pa::BoxedSigner,
    reply: Box<dyn Fn(&[u8], &[u8]) -> Option<c2pa::Result<Vec<u8>>> + Send + Sync>,
}

impl Signer for TsaSigner {
    fn sign(&self, data: &[u8]) -> c2pa::Result<Vec<u8>> {
        self.inner.sign(data)
    }
    fn alg(&self) -> SigningAlg {
        self.inner.alg()
    }
    fn certs(&self) -> c2pa::Result<Vec<Vec<u8>>> {
        self.inner.certs()
    }
    fn reserve_size(&self) -> usize {
        self.inner.reserve_size() + 12_000
    }
    fn time_authority_url(&self) -> Option<String> {
        Some("http://tsa.invalid/".into())
    }
    fn send_timestamp_request(&self, message: &[u8]) -> Option<c2pa::Result<Vec<u8>>> {
        // the request the SDK would have POSTed
        let req = self.timestamp_request_body(message).unwrap_or_default();
        (self.reply)(message, &req)
    }
}

// ------------------------------------------------------------------------------------------------
// Cases
// ------------------------------------------------------------------------------------------------
#[derive(Clone, Copy, Debug, PartialEq, Eq)]
enum Path {
    Direct,
    /// Builder::sign with a normal signer; the TSA answers the SDK's own TimeStampReq
    SdkSign,
}

#[derive(Clone, Debug)]
struct Case {
    tok: Tok,
    cert: CertClass,
    v: u8,
    path: Path,
}

struct ReadObs {
    mode: &'static str,
    state: String,
    error: Option<String>,
    time: Option<String>,
    codes: Vec<(String, String)>, // (kind, code) of the active manifest
}

struct Obs {
    case: Case,
    sign_err: Option<String>,
    truth: Option<Truth>,
    token_b64: String,
    tsa_pem: String,
    ee_pem: String,
    ee_window: (i64, i64),
    read_at: i64,
    reads: Vec<ReadObs>,
    cli_check: Option<Result<(bool, String), String>>,
}

fn b64(b: &[u8]) -> String {
    use base64::Engine;
    base64::engine::general_purpose::STANDARD.encode(b)
}

fn read_modes(p: &Pki) -> Vec<(&'static str, serde_json::Value)> {
    vec![
        ("no-trust", json!({"verify": {"verify_trust": false, "verify_timestamp_trust": false}})),
        (
            "trust+tsa-trust",
            json!({"verify": {"verify_trust": true, "verify_timestamp_trust": true}, "trust": {"trust_anchors": p.root.pem()}}),
        ),
    ]
}

fn read_all(p: &Pki, format: &str, signed: &[u8]) -> Vec<ReadObs> {
    let mut out = Vec::new();
    for (mode, settings) in read_modes(p) {
        let r = report::catch_sdk(|| {
            let ctx = Context::new().with_settings(settings.to_string().as_str()).expect("settings");
            let res = c2pa::Reader::from_context(ctx).with_stream(format, std::io::Cursor::new(signed.to_vec()));
            match res {
                Ok(reader) => {
                    let time = reader.active_manifest().and_then(|m| m.signature_info()).and_then(|s| s.time.clone());
                    let state = format!("{:?}", reader.validation_state());
                    let codes: Vec<(String, String)> =
                        report::codes_of(&reader).into_iter().filter(|c| c.0 == "active").map(|c| (c.1, c.2)).collect();
                    (state, None, time, codes)
                }
                Err(e) => ("Err".to_string(), Some(report::err_kind(&e)), None, vec![]),
            }
        });
        match r {
            Ok((state, error, time, codes)) => out.push(ReadObs { mode, state, error, time, codes }),
            Err(pn) => out.push(ReadObs { mode, state: "Panic".into(), error: Some(pn), time: None, codes: vec![] }),
        }
    }
    out
}

fn run_case(p: &Arc<Pki>, c: &Case, asset: &assets::Asset, with_cli_check: bool) -> Obs {
    let ee = ee_cert(p, c.cert);
    let chain = vec![ee.der.clone(), p.root.der.clone()];
    let slot: Arc<Mutex<Slot>> = Arc::new(Mutex::new(Slot::default()));
    let mut obs = Obs {
        case: c.clone(),
        sign_err: None,
        truth: None,
        token_b64: String::new(),
        tsa_pem: String::new(),
        ee_pem: ee.pem(),
        ee_window: c.cert.window(p.now),
        read_at: 0,
        reads: vec![],
        cli_check: None,
    };
    let signed = match c.path {
        Path::Direct => {
            let (tok, v, slot2) = (c.tok, c.v, slot.clone());
            let p2 = p.clone();
            let f = move |ctx: &SignCtx| -> Vec<(String, Value)> {
                let p: &Pki = &p2;
                let (m1, m2) = messages(ctx);
                let (msg, other) = if v == 1 { (m1, m2) } else { (m2, m1) };
                match make(p, tok, &msg, &other) {
                    Ok(made) => {
                        let hdr = if v == 1 { ("sigTst".to_string(), tst_container(&made.resp)) } else { ("sigTst2".to_string(), tst_container(&made.token)) };
                        slot2.lock().unwrap().made = Some(made);
                        vec![hdr]
                    }
                    Err(e) => {
                        slot2.lock().unwrap().err = Some(e);
                        vec![]
                    }
                }
            };
            let signer = DirectCoseSigner::new(p.ee_key.clone(), chain).with_unprotected(Arc::new(f), 12_000);
            report::catch_sdk(|| sign_with(&signer, c.v, asset.format, &asset.bytes, false))
        }
        Path::SdkSign => {
            let chain_pem = pki::pem_bundle(&chain);
            let inner = match c2pa::create_signer::from_keys(chain_pem.as_bytes(), &p.ee_key.private_pem(), SigningAlg::Ed25519, None) {
                Ok(s) => s,
                Err(e) => {
                    obs.sign_err = Some(format!("create_signer:{}", report::err_kind(&e)));
                    return obs;
                }
            };
            let (tok, slot2) = (c.tok, slot.clone());
            let p2 = p.clone();
            let reply = move |message: &[u8], req: &[u8]| -> Option<c2pa::Result<Vec<u8>>> {
                let p: &Pki = &p2;
                // `right` classes made by openssl answer the SDK's own request; the others are made for `message`
                let made = if matches!(tok, Tok::RightCli(Md::Sha256)) {
                    let cli = CliTsa::new(&p.tsa_ec.cert, &p.tsa_ec.key, &p.tsa_ec.chain);
                    cli.reply(req).and_then(|resp| {
                        let (gt, _) = pki_tsa::locate_gen_time(&resp).ok_or("no genTime")?;
                        let token = pki_tsa::token_of_resp(&resp).ok_or("no token")?;
                        let st_attr = signing_time_attr(&resp);
                        Ok(Made {
                            resp,
                            token,
                            truth: Truth { imprint_ok: true, cms_ok: true, tsa_valid_at_gen: true, tsa_eku_ok: true, tsa_trusted: true, gen_time: gt, acceptable_times: [Some(gt), st_attr].into_iter().flatten().collect(), unjudged: None },
                            right_digest: (Md::Sha256, pki_tsa::digest(Md::Sha256, message)),
                            tsa_cert: p.tsa_ec.cert.der.clone(),
                            chain: vec![p.root.der.clone()],
                        })
                    })
                } else {
                    make(p, tok, message, b"the message of the other claim version is not known on this path")
                };
                match made {
                    Ok(m) => {
                        let r = m.resp.clone();
                        slot2.lock().unwrap().made = Some(m);
                        Some(Ok(r))
                    }
                    Err(e) => {
                        slot2.lock().unwrap().err = Some(e);
                        None
                    }
                }
            };
            let signer = TsaSigner { inner, reply: Box::new(reply) };
            report::catch_sdk(|| sign_with(&signer, c.v, asset.format, &asset.bytes, true))
        }
    };
    let signed = match signed {
        Ok(Ok(s)) => s,
        Ok(Err(e)) => {
            obs.sign_err = Some(e);
            return obs;
        }
        Err(pn) => {
            obs.sign_err = Some(format!("panic:{pn}"));
            return obs;
        }
    };
    let mut s = slot.lock().unwrap();
    if let Some(e) = s.err.take() {
        obs.sign_err = Some(format!("tsa:{e}"));
        return obs;
    }
    let Some(made) = s.made.take() else {
        obs.sign_err = Some("tsa:never asked".into());
        return obs;
    };
    drop(s);
    obs.token_b64 = b64(if c.v == 1 { &made.resp } else { &made.token });
    obs.tsa_pem = pki::to_pem(&made.tsa_cert);
    if with_cli_check {
        // independent verdict on the token itself: full verification (imprint, CMS, TSA purpose, chain to the root) at genTime
        let r = pki_tsa::cli_ts_verify(&made.resp, false, &made.right_digest.1, &[p.root.der.clone()], &made.chain, Some(made.truth.gen_time));
        obs.cli_check = Some(r.map(|v| (v.ok, v.detail)));
    }
    obs.truth = Some(made.truth);
    obs.read_at = pki::now_unix();
    obs.reads = read_all(p, asset.format, &signed);
    obs
}

fn parse_time(s: &str) -> Option<i64> {
    chrono::DateTime::parse_from_rfc3339(s).ok().map(|d| d.timestamp())
}

fn main() {
    let mut run = Run::from_args("C36", "exploration");
    report::quiet_panics();
    run.rule = "one case = token class (23: right/other message/alg mismatch/corrupted/no certs/TSA EKU, validity, trust; own encoder or openssl ts -reply) \
                x signing-certificate validity window (4) x claim version (1: sigTst, 2: sigTst2) x delivery (direct COSE; SDK signing path with a local TSA), \
                read back with trust off and with trust + time-stamp trust on. Non-trivial = the token was embedded and the Reader produced a state; \
                classes = token|cert|version|path|mode|state|time-used|timestamp-codes"
        .into();
    run.assumptions = vec![
        "ground truth is the generator's label (which digest was stamped, which byte was changed, which TSA certificate signed); one token per class is cross-checked with `openssl ts -verify -attime genTime`".into(),
        "the imprint of sigTst covers Sig_structure[\"CounterSignature\", protected, h'', claim] and that of sigTst2 covers Sig_structure[\"CounterSignature\", protected, h'', cbor(bstr(signature))] (C2PA 2.x §10.3.2.5)".into(),
        "'CMS signature verifies' is read as: signer certificate present, signature over the intact TSTInfo verifies, TSA certificate valid at genTime (the quantifier lists out-of-window times)".into(),
        "the TSA's timeStamping EKU is judged only for claim v2 with verify_timestamp_trust on (the SDK documents v1 time-stamps as exempt); whether a TSA chains to a trust anchor is never judged (the statement is silent on trust): untrusted-TSA cases are generated and reported as unjudged classes/counters".into(),
        "the state of a manifest whose certificate is valid now but whose token is unusable is not judged (the statement only requires a time-stamp failure code and that the time is not used)".into(),
    ];
    match pki::openssl_cli_version() {
        Ok(v) => run.set("openssl_cli", json!(v)),
        Err(e) => {
            run.inconclusive(format!("openssl cli unavailable: {e}"));
            run.finish(1);
        }
    }
    let debug = std::env::var("C36_DEBUG").is_ok();
    let p = Arc::new(build_pki());
    let asset = assets::tiny_assets().into_iter().find(|a| a.format == "png").expect("tiny png");
    let jpg = assets::tiny_assets().into_iter().find(|a| a.format == "jpg" || a.format == "jpeg");
    let all_assets = assets::tiny_assets();
    let thorough = !run.quick();

    // ---- case list -----------------------------------------------------------------------------
    let mut cases: Vec<Case> = Vec::new();
    for tok in Tok::all() {
        for cert in CertClass::ALL {
            for v in [1u8, 2] {
                cases.push(Case { tok, cert, v, path: Path::Direct });
            }
        }
    }
    // SDK signing path: certificate valid now (the path refuses the others — recorded below), v1 and v2
    for tok in [Tok::RightCli(Md::Sha256), Tok::Right(Md::Sha256), Tok::OtherMessage, Tok::SigFlip, Tok::TstInfoFlip, Tok::UntrustedTsa, Tok::TsaExpiredAtGen, Tok::NoCerts] {
        for v in [1u8, 2] {
            cases.push(Case { tok, cert: CertClass::Valid, v, path: Path::SdkSign });
        }
    }
    for cert in [CertClass::ExpiredValidAtPast, CertClass::NotYetAtPast] {
        cases.push(Case { tok: Tok::Right(Md::Sha256), cert, v: 2, path: Path::SdkSign });
    }
    // seeded-random single-bit corruptions of right tokens (own encoder and openssl ts), both versions
    let mut rng = vmon::Rng::new(run.seed, "c36-flips");
    let n_flips = run.tier.pick(24usize, 600usize);
    for i in 0..n_flips {
        let tok = Tok::RandFlip { region: (i % 3) as u8, r: rng.next_u64() as u32, cli: i % 2 == 1 };
        let cert = if i % 4 == 3 { CertClass::ExpiredValidAtPast } else { CertClass::Valid };
        cases.push(Case { tok, cert, v: 1 + ((i / 3) % 2) as u8, path: Path::Direct });
    }
    if let Ok(sw) = std::env::var("C36_SWEEP") {
        // debugging aid: every single-bit flip of one region (own encoder, v1)
        let region: u8 = sw.parse().unwrap_or(2);
        cases.clear();
        for byte in 0..48u32 {
            for bit in 0..8u32 {
                cases.push(Case { tok: Tok::RandFlip { region, r: byte | (bit << 16), cli: false }, cert: CertClass::Valid, v: 1, path: Path::Direct });
            }
        }
    }
    run.set("cases", json!(cases.len()));

    let results = par::par_map(cases.len(), |i| {
        let c = &cases[i];
        // CLI cross-check once per (token class, version) on the direct path with the valid certificate
        let check = c.path == Path::Direct && c.cert == CertClass::Valid;
        let a = if thorough {
            &all_assets[i % all_assets.len()]
        } else if i % 5 == 4 {
            jpg.as_ref().unwrap_or(&asset)
        } else {
            &asset
        };
        run_case(&p, c, a, check)
    });

    let mut cli_disagree = 0u64;
    for o in results {
        run.eval();
        let c = &o.case;
        let path = if c.path == Path::Direct { "direct" } else { "sdk-sign" };
        let tokname = c.tok.name();
        if let Some(e) = &o.sign_err {
            if c.path == Path::SdkSign {
                // the normal signing path refusing is an observation of its own, not judged here
                run.count(&format!("sdk_sign_refused:{}:{}", c.cert.name(), e.split(['(', ' ', ':']).next().unwrap_or("")), 1);
                if debug {
                    println!("{tokname:45} {:28} v{} {path}: sign error {e}", c.cert.name(), c.v);
                }
                if c.cert == CertClass::Valid && !e.starts_with("panic") {
                    run.nontrivial(format!("{tokname}|{}|v{}|{path}|sign-refused", c.cert.name(), c.v));
                }
                if e.starts_with("panic:") {
                    run.violation(&format!("{}|any|v{}|panic-while-signing", c.tok.cause(), c.v), "SDK panicked while signing with a local TSA", json!({"case": format!("{c:?}"), "error": e}));
                }
                continue;
            }
            if e.starts_with("panic:") {
                run.violation(&format!("{}|any|v{}|panic-while-embedding", c.tok.cause(), c.v), "SDK panicked while embedding a direct COSE signature", json!({"case": format!("{c:?}"), "error": e}));
            } else {
                run.inconclusive(format!("{tokname} {} v{} {path}: could not produce the case: {e}", c.cert.name(), c.v));
            }
            continue;
        }
        let t = o.truth.clone().expect("truth");
        // generator vs openssl ts -verify (full verification): must agree, else the case generator is broken
        if let Some(chk) = &o.cli_check {
            match chk {
                Ok((ok, detail)) => {
                    run.count("openssl_ts_verify_runs", 1);
                    let expect = t.imprint_ok && t.cms_ok && t.tsa_valid_at_gen && t.tsa_eku_ok && t.tsa_trusted;
                    // classes the generator leaves unjudged are reported, not compared
                    if t.unjudged.is_none() && *ok != expect {
                        cli_disagree += 1;
                        run.inconclusive(format!("generator and `openssl ts -verify` disagree on {tokname} v{}: generator says usable={expect}, openssl says {ok} ({detail})", c.v));
                    } else {
                        run.count(if *ok { "openssl_ts_verify_ok" } else { "openssl_ts_verify_rejected" }, 1);
                    }
                    if debug {
                        println!("  openssl ts -verify {tokname} v{}: ok={ok} {detail}", c.v);
                    }
                }
                Err(e) => run.inconclusive(format!("openssl ts -verify could not run for {tokname}: {e}")),
            }
        }
        for r in &o.reads {
            let trust_mode = r.mode == "trust+tsa-trust";
            let trust_applies = trust_mode && c.v == 2;
            let base_ok = t.imprint_ok && t.cms_ok && t.tsa_valid_at_gen;
            // Some(usable) when judged
            let usable: Option<bool> = if t.unjudged.is_some() {
                None
            } else if !base_ok {
                Some(false)
            } else if t.tsa_eku_ok && t.tsa_trusted {
                Some(true)
            } else if trust_applies && !t.tsa_eku_ok {
                Some(false) // a certificate without the timeStamping EKU is not a TSA certificate (RFC 3161 2.3)
            } else if trust_applies {
                None // untrusted TSA with time-stamp trust on: the statement conditions use of the time on imprint + CMS only
            } else if !t.tsa_eku_ok {
                None // EKU without trust checking / v1 exemption: not decided by the statement
            } else if trust_mode {
                None // untrusted TSA, v1 claim, trust on: SDK's documented legacy exemption
            } else {
                Some(true) // untrusted TSA but trust checking is off: a right token
            };
            let time = r.time.as_deref().and_then(parse_time);
            let ts_codes: Vec<&(String, String)> = r.codes.iter().filter(|c| c.1.starts_with("timeStamp.")).collect();
            let validated = ts_codes.iter().any(|c| c.0 == "success" && c.1 == "timeStamp.validated");
            let ts_nonsuccess: Vec<String> = ts_codes.iter().filter(|c| c.0 != "success").map(|c| c.1.clone()).collect();
            let accepted = r.state == "Valid" || r.state == "Trusted";
            let failures: Vec<String> = r.codes.iter().filter(|c| c.0 == "failure").map(|c| c.1.clone()).collect();
            let mut cls_codes: Vec<String> = ts_codes.iter().map(|c| c.1.trim_start_matches("timeStamp.").to_string()).collect();
            cls_codes.sort();
            cls_codes.dedup();
            let class = format!(
                "{tokname}|{}|v{}|{path}|{}|{}|time={}|ts=[{}]",
                c.cert.name(),
                c.v,
                r.mode,
                r.state,
                match time {
                    Some(x) if t.acceptable_times.contains(&x) => "token",
                    Some(_) => "other",
                    None => "none",
                },
                cls_codes.join(",")
            );
            let witness = json!({
                "token_class": tokname, "token_case": format!("{:?}", c.tok), "cert_class": c.cert.name(), "claim_version": c.v, "delivery": path, "read_mode": r.mode,
                "generator_truth": {"imprint_matches": t.imprint_ok, "cms_verifies": t.cms_ok, "tsa_cert_valid_at_gentime": t.tsa_valid_at_gen,
                                    "tsa_has_timestamping_eku": t.tsa_eku_ok, "tsa_chains_to_anchor": t.tsa_trusted, "gen_time": t.gen_time, "unjudged": t.unjudged},
                "signing_cert_window": [o.ee_window.0, o.ee_window.1], "read_at": o.read_at,
                "observed": {"state": r.state, "error": r.error, "signature_info.time": r.time, "timestamp_codes": ts_codes, "failure_codes": failures},
                "header": if c.v == 1 { "sigTst (TimeStampResp)" } else { "sigTst2 (TimeStampToken)" },
                "token_der_b64": o.token_b64, "tsa_cert_pem": o.tsa_pem, "signing_cert_pem": o.ee_pem,
                "replay": "embed token_der_b64 under the header in the unprotected bucket of a COSE_Sign1 made with signing_cert_pem's key; imprint message per module doc",
            });
            if debug {
                println!("{:45} {:?} {:28} v{} {:8} {:16} {:8} time={:?} ts={:?} fail={:?}", tokname, c.tok, c.cert.name(), c.v, path, r.mode, r.state, r.time, ts_codes, failures);
            }
            if r.state == "Panic" {
                run.violation(&format!("{}|any|v{}|panic-while-validating", c.tok.cause(), c.v), "SDK panicked while validating a time-stamped manifest", witness);
                continue;
            }
            if r.state == "Err" {
                run.count("reader_err", 1);
            }
            run.nontrivial(class);
            run.sample(&format!("{}", c.tok.cause()), 1, witness.clone());
            let sigv = format!("v{}", c.v);
            match usable {
                None => {
                    run.count(&format!("unjudged:{}:{}:v{}:time-{}", c.tok.cause(), r.mode, c.v, if time.is_some() { "reported" } else { "none" }), 1);
                }
                Some(false) => {
                    // `timeStamp.validated` speaks about imprint + CMS only (C2PA: a token may be validated and
                    // untrusted at once); `timeStamp.trusted` about the TSA credential.  One violation per read,
                    // the strongest symptom first, so that one defect maps to one signature.
                    let trusted = ts_codes.iter().any(|c| c.0 == "success" && c.1 == "timeStamp.trusted");
                    let reported_valid = if base_ok { trusted } else { validated || trusted };
                    if let Some(x) = time {
                        let what = if t.acceptable_times.contains(&x) { "the token's genTime" } else { "a time" };
                        run.violation(
                            &format!("{}|any|{sigv}|signing-time-reported-from-unusable-token", c.tok.cause()),
                            &format!("token of class {tokname} must not be used ({}), but signature_info.time reports {what}", r.mode),
                            witness.clone(),
                        );
                    } else if reported_valid {
                        run.violation(
                            &format!("{}|any|{sigv}|unusable-token-reported-valid", c.tok.cause()),
                            &format!("token of class {tokname} must not be used ({}), but a timeStamp success code says it was: {ts_codes:?}", r.mode),
                            witness.clone(),
                        );
                    } else if ts_nonsuccess.is_empty() && r.state != "Err" {
                        run.violation(
                            &format!("{}|any|{sigv}|no-timestamp-failure-code", c.tok.cause()),
                            &format!("token of class {tokname} is unusable ({}) but no timeStamp.* informational/failure code was reported", r.mode),
                            witness.clone(),
                        );
                    }
                }
                Some(true) => {
                    let time_ok = time.map(|x| t.acceptable_times.contains(&x)).unwrap_or(false);
                    if !(time_ok && validated) {
                        run.violation(
                            &format!("{}|any|{sigv}|right-token-rejected", c.tok.cause()),
                            &format!("matching, valid token ({tokname}) not used: time={:?}, validated={validated}, codes={ts_nonsuccess:?}", r.time),
                            witness.clone(),
                        );
                    }
                }
            }
            // ---- signing certificate validity at the signing time --------------------------------
            let (nb, na) = o.ee_window;
            let valid_at = |x: i64| nb <= x && x <= na;
            let cert_ok_if_used = valid_at(t.gen_time);
            let cert_ok_if_unused = valid_at(o.read_at);
            let cert_ok: Option<bool> = match usable {
                Some(true) => Some(cert_ok_if_used),
                Some(false) => Some(cert_ok_if_unused),
                None => (cert_ok_if_used == cert_ok_if_unused).then_some(cert_ok_if_used),
            };
            match cert_ok {
                Some(false) if accepted => run.violation(
                    &format!("{}|{}|{sigv}|accepted-outside-certificate-validity", c.tok.cause(), c.cert.name()),
                    &format!(
                        "signing certificate ({}) not valid at the signing time ({}), manifest read as {}",
                        c.cert.name(),
                        if usable == Some(true) { "token genTime" } else { "now: no usable token" },
                        r.state
                    ),
                    witness.clone(),
                ),
                Some(true) if !accepted && usable == Some(true) && !valid_at(o.read_at) => run.violation(
                    &format!("{}|{}|{sigv}|expired-certificate-with-valid-token-rejected", c.tok.cause(), c.cert.name()),
                    &format!("expired signing certificate with a matching valid token inside its validity window read as {} {failures:?}", r.state),
                    witness.clone(),
                ),
                Some(true) if !accepted => run.count(&format!("valid-cert-not-accepted:{}:{}", c.tok.cause(), r.state), 1),
                None => run.count("cert_verdict_unjudged", 1),
                _ => {}
            }
        }
    }
    run.set("generator_vs_openssl_disagreements", json!(cli_disagree));
    // "observed nothing" guard; the thorough tier adds formats and repetitions, not classes (510 observed)
    let min = if run.quick() { 300 } else { 400 };
    run.finish(min);
}
