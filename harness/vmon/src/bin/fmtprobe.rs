//! Development probe for vmon::fmt: parse every tiny asset + fixture, embed a dummy store with the
//! SDK, parse again, print what the independent parser sees.
use c2pa::jumbf_io::{load_jumbf_from_memory, save_jumbf_to_memory};
use std::io::Cursor;
use vmon::{assets, fmt, jumbf, report, Rng};

fn main() {
    report::quiet_panics();
    let mut list = assets::tiny_assets();
    list.extend(assets::fixture_assets(3_000_000));
    for (n, f) in [("sample1.heic", "heic"), ("sample1.m4a", "m4a"), ("c.mov", "mov"), ("MultiPage.tif", "tif"), ("test.tiff", "tiff"), ("sample1.png", "png"), ("mars.webp", "webp"), ("dashinit.mp4", "mp4"), ("legacy.mp4", "mp4"), ("C.jpg", "jpg"), ("cloud_manifest.c2pa", "c2pa")] {
        if let Some(b) = assets::fixture(n) {
            list.push(assets::Asset { name: n.to_string(), format: f, bytes: b });
        }
    }
    let mut rng = Rng::new(1, "probe");
    for a in &list {
        if let Ok(f) = std::env::var("FP_ONLY") { if !a.name.contains(&f) { continue; } }
        let p0 = fmt::parse(a.format, &a.bytes);
        let d0 = match &p0 {
            Ok(p) => format!("ok elems={} containers={} notes={:?}", p.elems.len(), p.containers.len(), p.notes),
            Err(e) => format!("REJECT {e}"),
        };
        let m0 = fmt::media_sig(a.format, &a.bytes).map(|v| v.len()).map_err(|e| e);
        println!("{:28} {:5} len={:8} parse: {}  media_sig: {:?}", a.name, a.format, a.bytes.len(), d0, m0);
        for sz in [100usize, 70000] {
            let store = jumbf::dummy_store(sz, &mut |n| rng.bytes(n)).unwrap();
            let r = report::catch_sdk(|| save_jumbf_to_memory(a.format, &a.bytes, &store));
            match r {
                Ok(Ok(out)) => {
                    let back = load_jumbf_from_memory(a.format, &out);
                    let same = back.as_ref().map(|b| *b == store).unwrap_or(false);
                    let p1 = fmt::parse(a.format, &out);
                    let d1 = match &p1 {
                        Ok(p) => format!("ok containers={} store_eq={} c2pa_elems={:?}", p.containers.len(), p.containers.first().map(|c| c.store == store).unwrap_or(false), p.elems.iter().filter(|e| e.is_c2pa).map(|e| e.kind.clone()).take(3).collect::<Vec<_>>()),
                        Err(e) => format!("REJECT {e}"),
                    };
                    let locs = c2pa::verif_hooks::object_locations(a.format, &mut Cursor::new(out.clone()));
                    let m1 = fmt::media_sig(a.format, &out);
                    let meq = match (&m1, fmt::media_sig(a.format, &a.bytes)) {
                        (Ok(x), Ok(y)) => (*x == y).to_string(),
                        _ => "n/a".into(),
                    };
                    let mut rem = Cursor::new(Vec::new());
                    let rr = c2pa::verif_hooks::remove_jumbf_from_stream(a.format, &mut Cursor::new(out.clone()), &mut rem);
                    let rem = rem.into_inner();
                    let mut rem0 = Cursor::new(Vec::new());
                    let rr0 = c2pa::verif_hooks::remove_jumbf_from_stream(a.format, &mut Cursor::new(a.bytes.clone()), &mut rem0);
                    if let Ok(d) = std::env::var("FP_DUMP") {
                        let _ = std::fs::create_dir_all(&d);
                        let base = format!("{d}/{}.{sz}", a.name);
                        let _ = std::fs::write(format!("{base}.orig"), &a.bytes);
                        let _ = std::fs::write(format!("{base}.emb"), &out);
                        let _ = std::fs::write(format!("{base}.rem"), &rem);
                        let _ = std::fs::write(format!("{base}.rem0"), rem0.get_ref());
                    }
                    println!("    store={sz}: sdk_roundtrip={same} out_len={} parse: {} media_eq={} locs={:?} remove={:?}/{:?} rem_eq_orig={} rem_eq_rem0={}", out.len(), d1, meq, locs.map(|v| v.into_iter().map(|l| format!("{}+{}:{}", l.0, l.1, l.2)).collect::<Vec<_>>()).map_err(|e| e.to_string()), rr.map_err(|e| e.to_string()), rr0.map_err(|e| e.to_string()), rem == a.bytes, rem == rem0.into_inner());
                }
                Ok(Err(e)) => println!("    store={sz}: save error {e}"),
                Err(p) => println!("    store={sz}: PANIC {p}"),
            }
        }
    }
}
