#!/bin/sh
. "$(cd "$(dirname "$0")" && pwd)/env.sh"
# Builds c2patool from /repo's working tree into /verif/.build/cli (never into /repo/target).
# Prints the path of the binary on the last line of stdout.  A no-op when the build is fresh.
# Debug profile on purpose: the release profile of /repo uses thin LTO (several minutes per rebuild);
# C32 judges file-system effects and validation results, not speed.
set -e
ROOT=$(cd "$(dirname "$0")/.." && pwd)
REPO=${VERIF_REPO:-/repo}
export CARGO_TARGET_DIR="$ROOT/.build/cli"
export CARGO_NET_OFFLINE=true
mkdir -p "$CARGO_TARGET_DIR" "$ROOT/.build/logs"
LOG="$ROOT/.build/logs/build-cli.log"
if ! cargo build --offline --manifest-path "$REPO/cli/Cargo.toml" --bin c2patool >"$LOG" 2>&1; then
    tail -n 40 "$LOG" >&2
    echo "build_cli: cargo build failed (see $LOG)" >&2
    exit 1
fi
echo "$CARGO_TARGET_DIR/debug/c2patool"
