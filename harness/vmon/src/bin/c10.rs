//! C10 — untrusted input never crashes, hangs or exhausts memory.
//!
//! Parent process: builds a corpus (every non-empty fixture, signed + clean tiny assets of every
//! format, extracted manifest stores, a builder archive), writes it to a scratch directory and runs
//! shards of cases in child processes (this binary with `--child`).  A case is an index; the input
//! is regenerated deterministically from (corpus, seed, index), so witnesses can be rebuilt and the
//! `dbg` build (overflow checks + debug assertions) can replay any subset.
//!
//! Oracles (written from the statement):
//!   1. process outcome: a panic (caught inside the child), a signal / abort / stack overflow of the
//!      child (classified from the wait status + its stderr);
//!   2. counting global allocator: peak live bytes during the call <= 8*len + D + 16 MiB
//!      (D = core.max_decompressed_manifest_size_in_mb = 1 MiB), calibrated on the benign corpus
//!      (every fixture must stay below 25 % of its budget, otherwise the oracle is inconclusive);
//!   3. work counters of the caller-side stream: bytes read <= 64*len + 1 MiB, seeks <= 16*len + 10^4;
//!   4. CPU time (thread clock in the child) <= 20 s for inputs <= 1 MiB — only a violation when a
//!      solo re-run under RLIMIT_CPU confirms it; a wall-clock stall alone is inconclusive.
//! Entry points: Reader::with_stream, Builder::add_ingredient_from_stream, Builder::with_archive,
//! Reader::with_manifest_data_and_stream, jumbf_io::load_jumbf_from_memory, under 12 hint families.
use c2pa::{Builder, BuilderIntent, Context, Reader};
use serde_json::{json, Value};
use std::collections::BTreeMap;
use std::io::{Cursor, Write};
use std::path::{Path, PathBuf};
use vmon::iokit::{self, CountingAlloc};
use vmon::wrap::CountingStream;
use vmon::{assets, embedkit, hostile, par, report, signers, Rng, Run};

#[global_allocator]
static ALLOC: CountingAlloc = CountingAlloc;

const HINTS: [(&str, &str); 12] = [
    ("jpeg", "jpg"), ("png", "png"), ("gif", "gif"), ("tiff", "tif"), ("jxl", "jxl"), ("riff", "wav"),
    ("bmff", "mp4"), ("flac", "flac"), ("mp3", "mp3"), ("pdf", "pdf"), ("svg", "svg"), ("c2pa", "c2pa"),
];
const D_BYTES: u64 = 1 << 20;

fn hint_family(h: &str) -> &'static str {
    match h.trim().to_ascii_lowercase().as_str() {
        "jpg" | "jpeg" => "jpeg",
        "png" => "png",
        "gif" => "gif",
        "tif" | "tiff" | "dng" => "tiff",
        "jxl" => "jxl",
        "wav" | "avi" | "webp" => "riff",
        "mp4" | "m4a" | "mov" | "heic" | "heif" | "avif" | "m4v" => "bmff",
        "flac" => "flac",
        "mp3" => "mp3",
        "pdf" => "pdf",
        "svg" => "svg",
        "c2pa" => "c2pa",
        _ => "other",
    }
}

fn alloc_budget(len: u64) -> u64 {
    8 * len + D_BYTES + (16 << 20)
}
fn read_budget(len: u64) -> u64 {
    64 * len + (1 << 20)
}
fn seek_budget(len: u64) -> u64 {
    16 * len + 10_000
}

fn settings() -> String {
    json!({
        "core": {"max_decompressed_manifest_size_in_mb": 1},
        "verify": {"verify_trust": true, "remote_manifest_fetch": false, "ocsp_fetch": false},
        "trust": {"trust_anchors": signers::trust_anchors_pem()},
        "builder": {"thumbnail": {"enabled": false}}
    })
    .to_string()
}
fn ctx() -> Context {
    Context::new().with_settings(settings().as_str()).expect("settings")
}

// ------------------------------------------------------------------------------------------------
// corpus

#[derive(Clone, Debug)]
struct Item {
    name: String,
    fmt: String,
    /// fixture | tiny-signed | tiny-clean | store | archive
    kind: String,
    bytes: Vec<u8>,
    /// index of the clean asset a store belongs to (for with_manifest_data_and_stream)
    pair: Option<usize>,
}

fn ext_fmt(name: &str) -> Option<&'static str> {
    let e = name.rsplit('.').next()?.to_ascii_lowercase();
    Some(match e.as_str() {
        "jpg" | "jpeg" => "jpg",
        "png" => "png",
        "gif" => "gif",
        "tif" | "tiff" => "tif",
        "dng" => "dng",
        "webp" => "webp",
        "wav" => "wav",
        "avi" => "avi",
        "jxl" => "jxl",
        "mp4" => "mp4",
        "mov" => "mov",
        "m4a" => "m4a",
        "m4s" => "mp4",
        "heic" => "heic",
        "heif" => "heif",
        "avif" => "avif",
        "flac" => "flac",
        "mp3" => "mp3",
        "svg" => "svg",
        "c2pa" => "c2pa",
        "pdf" => "pdf",
        "zip" => "zip",
        "psd" => "psd",
        "txt" => "txt",
        _ => return None,
    })
}

fn build_corpus() -> Vec<Item> {
    let mut items = Vec::new();
    let mut names: Vec<String> = std::fs::read_dir(assets::fixtures_dir()).map(|d| d.filter_map(|e| e.ok()).filter(|e| e.path().is_file()).map(|e| e.file_name().to_string_lossy().to_string()).collect()).unwrap_or_default();
    names.sort();
    for n in names {
        let Some(f) = ext_fmt(&n) else { continue };
        if let Some(b) = assets::fixture(&n) {
            items.push(Item { name: n, fmt: f.into(), kind: "fixture".into(), bytes: b, pair: None });
        }
    }
    if let Some(b) = assets::fixture("ingredient/manifest_data.c2pa") {
        items.push(Item { name: "ingredient/manifest_data.c2pa".into(), fmt: "c2pa".into(), kind: "fixture".into(), bytes: b, pair: None });
    }
    let tiny: Vec<assets::Asset> = embedkit::extended_tiny_assets();
    let signed: Vec<Option<(Vec<u8>, Vec<u8>)>> = par::par_map(tiny.len(), |i| {
        let a = &tiny[i];
        report::catch_sdk(|| {
            let mut b = Builder::from_context(ctx()).with_definition(json!({"title": "c10", "assertions": [{"label": "org.verif.test", "data": {"k": [1, 2, 3], "s": "text"}}]})).ok()?;
            b.set_intent(BuilderIntent::Edit);
            let signer = signers::test_signer("ed25519");
            let mut src = Cursor::new(a.bytes.clone());
            let mut dst = Cursor::new(Vec::new());
            let store = b.sign(signer.as_ref(), a.format, &mut src, &mut dst).ok()?;
            Some((dst.into_inner(), store))
        })
        .ok()
        .flatten()
    });
    for (a, s) in tiny.iter().zip(signed.into_iter()) {
        let clean_idx = items.len();
        items.push(Item { name: a.name.clone(), fmt: a.format.into(), kind: "tiny-clean".into(), bytes: a.bytes.clone(), pair: None });
        if let Some((signed, store)) = s {
            items.push(Item { name: format!("signed:{}", a.name), fmt: a.format.into(), kind: "tiny-signed".into(), bytes: signed, pair: Some(clean_idx) });
            if matches!(a.name.as_str(), "tiny.jpg" | "tiny.png" | "tiny.mp4" | "tiny.tif" | "tiny.wav" | "tiny.mp3") {
                items.push(Item { name: format!("store:{}", a.name), fmt: "c2pa".into(), kind: "store".into(), bytes: store, pair: Some(clean_idx) });
            }
        }
    }
    // a builder archive
    let mut out = Cursor::new(Vec::new());
    if let Ok(Ok(())) = report::catch_sdk(|| {
        let mut b = Builder::from_context(ctx()).with_definition(json!({"title": "archive", "assertions": [{"label": "org.verif.test", "data": {"k": 1}}]}))?;
        b.set_intent(BuilderIntent::Edit);
        b.to_archive(&mut out)
    }) {
        items.push(Item { name: "builder.archive".into(), fmt: "c2pa".into(), kind: "archive".into(), bytes: out.into_inner(), pair: None });
    }
    items
}

fn write_corpus(dir: &Path, items: &[Item]) {
    std::fs::create_dir_all(dir).expect("corpus dir");
    let mut idx = Vec::new();
    for (i, it) in items.iter().enumerate() {
        std::fs::write(dir.join(format!("{i}.bin")), &it.bytes).expect("corpus write");
        idx.push(json!({"name": it.name, "fmt": it.fmt, "kind": it.kind, "pair": it.pair, "len": it.bytes.len()}));
    }
    std::fs::write(dir.join("index.json"), serde_json::to_vec(&idx).unwrap()).expect("index");
}

fn load_corpus(dir: &Path) -> Vec<Item> {
    let idx: Vec<Value> = serde_json::from_slice(&std::fs::read(dir.join("index.json")).expect("index")).expect("index json");
    idx.iter()
        .enumerate()
        .map(|(i, v)| Item {
            name: v["name"].as_str().unwrap_or("").into(),
            fmt: v["fmt"].as_str().unwrap_or("").into(),
            kind: v["kind"].as_str().unwrap_or("").into(),
            bytes: std::fs::read(dir.join(format!("{i}.bin"))).unwrap_or_default(),
            pair: v["pair"].as_u64().map(|x| x as usize),
        })
        .collect()
}

// ------------------------------------------------------------------------------------------------
// cases

#[derive(Clone, Copy, Debug, PartialEq, Eq)]
enum Ep {
    WithStream,
    Ingredient,
    Archive,
    ManifestData,
    LoadJumbf,
}
impl Ep {
    fn name(&self) -> &'static str {
        match self {
            Ep::WithStream => "Reader::with_stream",
            Ep::Ingredient => "Builder::add_ingredient_from_stream",
            Ep::Archive => "Builder::with_archive",
            Ep::ManifestData => "Reader::with_manifest_data_and_stream",
            Ep::LoadJumbf => "load_jumbf_from_memory",
        }
    }
}

struct Eval {
    ep: Ep,
    hint: String,
    /// main input (the stream / the memory block)
    bytes: std::sync::Arc<Vec<u8>>,
    /// manifest data for ManifestData
    store: Option<std::sync::Arc<Vec<u8>>>,
}

struct Case {
    base: String,
    base_fmt: String,
    kind: String,
    evals: Vec<Eval>,
}

struct Plan {
    benign: usize,
    mutants: usize,
    directed: usize,
    base_cap: usize,
}

const DIRECTED: usize = 17;

fn plan(tier_quick: bool, items: &[Item]) -> Plan {
    let dev = std::env::var("VERIF_C10_MUTANTS").ok().and_then(|s| s.parse::<usize>().ok());
    Plan { benign: items.len(), mutants: dev.unwrap_or(if tier_quick { 4000 } else { 60_000 }), directed: DIRECTED, base_cap: if tier_quick { 300_000 } else { 1_100_000 } }
}

fn default_store(items: &[Item]) -> std::sync::Arc<Vec<u8>> {
    std::sync::Arc::new(items.iter().find(|i| i.kind == "store").map(|i| i.bytes.clone()).unwrap_or_default())
}

/// Directed cases: the minimal forms of the findings reported for this property; they run on every
/// invocation (independent of the seed).
fn directed_case(items: &[Item], d: usize) -> Option<Case> {
    use std::sync::Arc;
    use vmon::jumbf;
    use vmon::storegen::{self, Edit};
    let store_item = items.iter().find(|i| i.name == "store:tiny.png")?;
    let store = &store_item.bytes;
    let root = jumbf::parse_store(store)?;
    let mut all = Vec::new();
    root.walk(&mut all);
    // the cbor box of the org.verif.test assertion
    let target = all.iter().find(|b| &b.typ == b"cbor" && b.path.contains("org.verif.test"))?;
    let claim = all.iter().find(|b| &b.typ == b"cbor" && b.path.contains("c2pa.claim"))?;
    let assertion = all.iter().find(|b| &b.typ == b"jumb" && b.path.ends_with("org.verif.test"))?;
    let mk = |name: &str, bytes: Vec<u8>| -> Option<Case> {
        let b = Arc::new(bytes);
        Some(Case { base: "store:tiny.png".into(), base_fmt: "c2pa".into(), kind: format!("{name}+directed"), evals: vec![Eval { ep: Ep::WithStream, hint: "c2pa".into(), bytes: b, store: None }] })
    };
    match d {
        0 => {
            let mut deep = vec![0xC1u8; 200_000];
            deep.push(0);
            mk("store:cbor-deep", storegen::apply_edit(store, &root, target.start, &Edit::Replace(jumbf::make_box(b"cbor", &deep))))
        }
        1 => {
            // first text key of the assertion map declared 0xFFFFFFFF bytes long (same length, in place)
            let mut v = store.clone();
            let at = target.payload_start() + 1;
            if v.get(at).map(|b| b >> 5) != Some(3) || at + 5 > target.end() {
                return None;
            }
            v[at] = 0x7A;
            v[at + 1..at + 5].copy_from_slice(&[0xFF; 4]);
            mk("store:cbor-head", v)
        }
        9 | 10 => {
            // nested tags: the decoder's depth limit covers arrays and maps only
            let pat = if d == 9 { "c2pa.actions" } else { "c2pa.signature" };
            let b = all.iter().find(|b| &b.typ == b"cbor" && b.path.contains(pat))?;
            let mut deep = vec![0xC1u8; 100_000];
            deep.push(0);
            mk("store:cbor-deep", storegen::apply_edit(store, &root, b.start, &Edit::Replace(jumbf::make_box(b"cbor", &deep))))
        }
        2 => mk("store:cbor-huge-len", storegen::apply_edit(store, &root, claim.start, &Edit::Replace(jumbf::make_box(b"cbor", &[0x9A, 0x02, 0xFA, 0xF0, 0x80, 1, 2, 3])))),
        6 => mk("store:cbor-huge-len", storegen::apply_edit(store, &root, claim.start, &Edit::Replace(jumbf::make_box(b"cbor", &[0x5A, 0x02, 0xFA, 0xF0, 0x80, 1, 2, 3])))),
        7 => mk("store:cbor-huge-len", storegen::apply_edit(store, &root, target.start, &Edit::Replace(jumbf::make_box(b"cbor", &[0x7A, 0x02, 0xFA, 0xF0, 0x80, 1, 2, 3])))),
        8 => mk("store:cbor-huge-len", storegen::apply_edit(store, &root, target.start, &Edit::Replace(jumbf::make_box(b"cbor", &[0xBA, 0x02, 0xFA, 0xF0, 0x80, 1, 2, 3])))),
        3 => {
            let mut rep = Vec::new();
            for _ in 0..45_000 {
                rep.extend_from_slice(&store[assertion.start..assertion.end()]);
            }
            mk("store:box-dup", storegen::apply_edit(store, &root, assertion.start, &Edit::InsertAfter(rep)))
        }
        4 | 5 => {
            let mp3 = items.iter().find(|i| i.name == "tiny.mp3")?;
            let mut v = mp3.bytes.clone();
            if v.len() < 20 || &v[..3] != b"ID3" {
                return None;
            }
            // first frame header at 10: id(4) size(4) flags(2)
            let size: [u8; 4] = if d == 4 { [0x4E, 0x03, 0x00, 0x00] } else { [0xFF, 0xFF, 0xFF, 0x06] };
            v[14..18].copy_from_slice(&size);
            Some(Case { base: "tiny.mp3".into(), base_fmt: "mp3".into(), kind: "elem-header+directed".into(), evals: vec![Eval { ep: Ep::WithStream, hint: "mp3".into(), bytes: Arc::new(v), store: None }] })
        }
        13 => {
            // signed JPEG + a second, very short APP11 JUMBF segment (11 content bytes: CI "JP", the box
            // instance number of the manifest segment, packet sequence 2, three payload bytes)
            let j = items.iter().find(|i| i.name == "signed:tiny.jpg")?;
            let b = &j.bytes;
            let mut o = 2usize;
            let mut hit = None;
            while o + 4 <= b.len() && b[o] == 0xFF {
                let len = u16::from_be_bytes([b[o + 2], b[o + 3]]) as usize;
                if b[o + 1] == 0xEB && len >= 10 && &b[o + 4..o + 6] == b"JP" {
                    hit = Some((o, len));
                    break;
                }
                if b[o + 1] == 0xDA {
                    break;
                }
                o += 2 + len;
            }
            let (o, len) = hit?;
            let en = [b[o + 6], b[o + 7]];
            let mut seg = vec![0xFF, 0xEB, 0x00, 13, b'J', b'P', en[0], en[1], 0, 0, 0, 2, 0xAA, 0xBB, 0xCC];
            let at = o + 2 + len;
            let mut v = b[..at].to_vec();
            v.append(&mut seg);
            v.extend_from_slice(&b[at..]);
            Some(Case { base: "signed:tiny.jpg".into(), base_fmt: "jpg".into(), kind: "elem-dup+directed".into(), evals: vec![Eval { ep: Ep::WithStream, hint: "jpg".into(), bytes: Arc::new(v.clone()), store: None }, Eval { ep: Ep::LoadJumbf, hint: "jpg".into(), bytes: Arc::new(v), store: None }] })
        }
        14 | 15 | 16 => {
            // "short manifest element" sweep: the element that carries the manifest, well-formed as a
            // container element (consistent length fields) but with its payload cut to every length
            // 0..=N — the inputs on which an off-by-one in a handler's minimum-length guard indexes past
            // the end.  One case, one evaluation per length and entry point.
            let c2pa_uuid: [u8; 16] = [0x63, 0x32, 0x70, 0x61, 0x00, 0x11, 0x00, 0x10, 0x80, 0x00, 0x00, 0xAA, 0x00, 0x38, 0x9B, 0x71];
            // jumb payload: jumd(size, "jumd", uuid, toggles 3, "c2pa\0") + an empty cbor box
            let mut jumd = Vec::new();
            jumd.extend_from_slice(&c2pa_uuid);
            jumd.push(3);
            jumd.extend_from_slice(b"c2pa\0");
            let mut jumb_payload = jumbf::make_box(b"jumd", &jumd);
            jumb_payload.extend_from_slice(&jumbf::make_box(b"cbor", &[0xA0]));
            let (fmt, name, fulls): (&str, &str, Vec<Vec<u8>>) = match d {
                14 => {
                    let base = vmon::embedkit::tiny_jxl(false);
                    ("jxl", "tiny.jxl", (0..=jumb_payload.len()).map(|l| { let mut v = base.clone(); v.extend_from_slice(&jumbf::make_box(b"jumb", &jumb_payload[..l])); v }).collect())
                }
                15 => {
                    let base = items.iter().find(|i| i.name == "tiny.mp4")?.bytes.clone();
                    // uuid box: usertype, version/flags, purpose "manifest\0", merkle offset, JUMBF
                    let mut pl = vec![0xD8, 0xFE, 0xC3, 0xD6, 0x1B, 0x0E, 0x48, 0x3C, 0x92, 0x97, 0x58, 0x28, 0x87, 0x7E, 0xC4, 0x81, 0, 0, 0, 0];
                    pl.extend_from_slice(b"manifest\0");
                    pl.extend_from_slice(&[0u8; 8]);
                    pl.extend_from_slice(&jumbf::make_box(b"jumb", &jumb_payload));
                    ("mp4", "tiny.mp4", (0..=pl.len()).map(|l| { let mut v = base.clone(); v.extend_from_slice(&jumbf::make_box(b"uuid", &pl[..l])); v }).collect())
                }
                _ => {
                    let base = items.iter().find(|i| i.name == "tiny.wav")?.bytes.clone();
                    if base.len() < 12 || &base[..4] != b"RIFF" {
                        return None;
                    }
                    let full = jumbf::make_box(b"jumb", &jumb_payload);
                    ("wav", "tiny.wav", (0..=full.len().min(48)).map(|l| {
                        let mut v = base.clone();
                        v.extend_from_slice(b"C2PA");
                        v.extend_from_slice(&(l as u32).to_le_bytes());
                        v.extend_from_slice(&full[..l]);
                        if l % 2 == 1 {
                            v.push(0);
                        }
                        let riff_len = (v.len() - 8) as u32;
                        v[4..8].copy_from_slice(&riff_len.to_le_bytes());
                        v
                    }).collect())
                }
            };
            let mut evals = Vec::new();
            for v in fulls {
                let b = Arc::new(v);
                evals.push(Eval { ep: Ep::WithStream, hint: fmt.into(), bytes: b.clone(), store: None });
                evals.push(Eval { ep: Ep::LoadJumbf, hint: fmt.into(), bytes: b.clone(), store: None });
                evals.push(Eval { ep: Ep::Ingredient, hint: fmt.into(), bytes: b, store: None });
            }
            Some(Case { base: name.into(), base_fmt: fmt.into(), kind: "elem-short+directed".into(), evals })
        }
        11 | 12 => {
            // minimal TIFF whose only IFD entry is a SubIFDs tag (0x014A, LONG) with a forged count
            let count: u32 = if d == 11 { 0x0400_0000 } else { 0x4000_0000 };
            let mut v = vec![b'I', b'I', 42, 0, 8, 0, 0, 0, 1, 0, 0x4A, 0x01, 4, 0];
            v.extend_from_slice(&count.to_le_bytes());
            v.extend_from_slice(&[0, 0, 0, 0, 0, 0, 0, 0]);
            Some(Case { base: "tiny.tif".into(), base_fmt: "tif".into(), kind: "elem-header+directed".into(), evals: vec![Eval { ep: Ep::WithStream, hint: "tif".into(), bytes: Arc::new(v.clone()), store: None }, Eval { ep: Ep::WithStream, hint: "dng".into(), bytes: Arc::new(v), store: None }] })
        }
        _ => None,
    }
}

/// `make_case` on a thread with a very large stack: re-embedding a deeply nested store drives the
/// SDK *writer*, which recurses without bound (reported under the read entry points, not here).
fn make_case_safe(items: &[Item], seed: u64, idx: usize, pl: &Plan) -> Option<Case> {
    std::thread::scope(|s| {
        std::thread::Builder::new().stack_size(3 << 30).spawn_scoped(s, || std::panic::catch_unwind(std::panic::AssertUnwindSafe(|| make_case(items, seed, idx, pl))).ok().flatten()).ok()?.join().ok().flatten()
    })
}

/// Deterministic case construction from (corpus, seed, index).
fn make_case(items: &[Item], seed: u64, idx: usize, pl: &Plan) -> Option<Case> {
    use std::sync::Arc;
    if idx >= pl.benign + pl.mutants {
        return directed_case(items, idx - pl.benign - pl.mutants);
    }
    let dstore = default_store(items);
    if idx < pl.benign {
        // benign: the item under every entry point and every hint family
        let it = &items[idx];
        let bytes = Arc::new(it.bytes.clone());
        let mut evals = Vec::new();
        let big = it.bytes.len() > 1_200_000;
        for (_, h) in HINTS {
            if big && hint_family(h) != hint_family(&it.fmt) && h != "c2pa" && h != "jpg" {
                continue;
            }
            evals.push(Eval { ep: Ep::WithStream, hint: h.into(), bytes: bytes.clone(), store: None });
            evals.push(Eval { ep: Ep::LoadJumbf, hint: h.into(), bytes: bytes.clone(), store: None });
            evals.push(Eval { ep: Ep::Ingredient, hint: h.into(), bytes: bytes.clone(), store: None });
        }
        evals.push(Eval { ep: Ep::WithStream, hint: it.fmt.clone(), bytes: bytes.clone(), store: None });
        evals.push(Eval { ep: Ep::Archive, hint: String::new(), bytes: bytes.clone(), store: None });
        match (it.kind.as_str(), it.pair) {
            ("store", Some(p)) => evals.push(Eval { ep: Ep::ManifestData, hint: items[p].fmt.clone(), bytes: Arc::new(items[p].bytes.clone()), store: Some(bytes.clone()) }),
            _ => evals.push(Eval { ep: Ep::ManifestData, hint: it.fmt.clone(), bytes: bytes.clone(), store: Some(dstore.clone()) }),
        }
        return Some(Case { base: it.name.clone(), base_fmt: it.fmt.clone(), kind: "benign".into(), evals });
    }
    let j = idx - pl.benign;
    let mut rng = Rng::new(seed, "c10-case").fork(j as u64);
    // base choice: half of the cases from tiny assets/stores (cheap, deep), half from fixtures
    let cands: Vec<usize> = items.iter().enumerate().filter(|(_, it)| it.bytes.len() <= pl.base_cap && it.bytes.len() > 0).map(|(i, _)| i).collect();
    let tinyc: Vec<usize> = cands.iter().copied().filter(|i| items[*i].kind != "fixture").collect();
    let bi = if rng.chance(6, 10) && !tinyc.is_empty() { *rng.pick(&tinyc) } else { *rng.pick(&cands) };
    let it = &items[bi];
    let others: Vec<&[u8]> = (0..3).map(|_| items[*rng.pick(&cands)].bytes.as_slice()).collect();
    let is_store = it.fmt == "c2pa";
    let located = if is_store { None } else { hostile::locate_store(&it.fmt, &it.bytes) };
    // choose mutator
    let roll = rng.below(100);
    let mut kind = String::new();
    let mut bytes: Option<Vec<u8>> = None;
    let mut store_only: Option<Vec<u8>> = None;
    if is_store || (located.is_some() && roll < 55) {
        // store-level mutation (in the sidecar, or inside the asset when the length is unchanged / re-embedded)
        let store: Vec<u8> = if is_store { it.bytes.clone() } else { located.map(|(s, l)| it.bytes[s..s + l].to_vec()).unwrap_or_default() };
        if let Some(m) = hostile::store_mutant(&store, &mut rng) {
            kind = m.kind.clone();
            if is_store {
                bytes = Some(m.bytes);
            } else if let Some((s, l)) = located {
                if m.bytes.len() == l {
                    let mut v = it.bytes.clone();
                    v[s..s + l].copy_from_slice(&m.bytes);
                    bytes = Some(v);
                } else {
                    // re-embed through the SDK writer (drives, does not judge); fall back to the bare store
                    let clean = it.pair.map(|p| items[p].bytes.clone()).unwrap_or_else(|| it.bytes.clone());
                    match embedkit::save(&it.fmt, &clean, &m.bytes, true) {
                        Ok(v) if v.len() <= hostile::MAX_MUTANT * 2 => {
                            kind.push_str("+embedded");
                            bytes = Some(v);
                        }
                        _ => store_only = Some(m.bytes),
                    }
                }
            }
        }
    }
    if bytes.is_none() && store_only.is_none() {
        let r = rng.below(100);
        let (k, v) = if it.fmt == "svg" && r < 35 {
            ("xml-hostile", hostile::xml_hostile(&it.bytes, &mut rng))
        } else if r < 30 {
            ("elem-header", hostile::elem_header(&it.fmt, &it.bytes, &mut rng))
        } else if r < 45 {
            ("length-field", hostile::length_field(&it.bytes, &mut rng))
        } else if r < 55 {
            ("elem-shuffle", hostile::elem_shuffle(&it.fmt, &it.bytes, &mut rng))
        } else if r < 63 {
            ("nest-container", hostile::nest_container(&it.fmt, &it.bytes, &mut rng))
        } else {
            ("byte", None)
        };
        match v {
            Some(v) => {
                kind = k.into();
                bytes = Some(v);
            }
            None => {
                kind = "byte".into();
                bytes = Some(hostile::byte_level(&it.bytes, &others, &mut rng));
            }
        }
    }
    let mut evals = Vec::new();
    let fmt = it.fmt.clone();
    let rot = HINTS[j % 12].1.to_string();
    if let Some(st) = store_only {
        // a bare hostile store belonging to asset `it`
        let st = Arc::new(st);
        let asset = Arc::new(it.pair.map(|p| items[p].bytes.clone()).unwrap_or_else(|| it.bytes.clone()));
        evals.push(Eval { ep: Ep::WithStream, hint: "c2pa".into(), bytes: st.clone(), store: None });
        evals.push(Eval { ep: Ep::ManifestData, hint: fmt.clone(), bytes: asset, store: Some(st.clone()) });
        evals.push(Eval { ep: Ep::Archive, hint: String::new(), bytes: st.clone(), store: None });
        evals.push(Eval { ep: Ep::LoadJumbf, hint: rot, bytes: st, store: None });
        kind.push_str("+bare");
    } else {
        let b = Arc::new(bytes.unwrap_or_default());
        if is_store {
            let asset = Arc::new(it.pair.map(|p| items[p].bytes.clone()).unwrap_or_default());
            let afmt = it.pair.map(|p| items[p].fmt.clone()).unwrap_or_else(|| "jpg".into());
            evals.push(Eval { ep: Ep::WithStream, hint: "c2pa".into(), bytes: b.clone(), store: None });
            evals.push(Eval { ep: Ep::ManifestData, hint: afmt, bytes: asset, store: Some(b.clone()) });
            evals.push(Eval { ep: Ep::Archive, hint: String::new(), bytes: b.clone(), store: None });
            if j % 3 == 0 {
                evals.push(Eval { ep: Ep::Ingredient, hint: "c2pa".into(), bytes: b.clone(), store: None });
            }
            evals.push(Eval { ep: Ep::LoadJumbf, hint: rot, bytes: b, store: None });
        } else {
            let truehint = if fmt == "zip" || fmt == "psd" || fmt == "txt" { "jpg".to_string() } else { fmt.clone() };
            evals.push(Eval { ep: Ep::WithStream, hint: truehint.clone(), bytes: b.clone(), store: None });
            match j % 6 {
                0 => evals.push(Eval { ep: Ep::WithStream, hint: rot, bytes: b.clone(), store: None }),
                1 => evals.push(Eval { ep: Ep::LoadJumbf, hint: rot, bytes: b.clone(), store: None }),
                2 => evals.push(Eval { ep: Ep::Ingredient, hint: if (j / 6) % 2 == 0 { truehint } else { rot }, bytes: b.clone(), store: None }),
                3 => evals.push(Eval { ep: Ep::ManifestData, hint: if (j / 6) % 2 == 0 { truehint } else { rot }, bytes: b.clone(), store: Some(located.map(|(s, l)| Arc::new(it.bytes[s..s + l].to_vec())).unwrap_or(dstore.clone())) }),
                4 => evals.push(Eval { ep: Ep::Archive, hint: String::new(), bytes: b.clone(), store: None }),
                _ => evals.push(Eval { ep: Ep::LoadJumbf, hint: truehint, bytes: b.clone(), store: None }),
            }
        }
    }
    Some(Case { base: it.name.clone(), base_fmt: fmt, kind, evals })
}

// ------------------------------------------------------------------------------------------------
// child

thread_local! {
    static PANIC_INFO: std::cell::RefCell<Option<(String, String)>> = const { std::cell::RefCell::new(None) };
}

fn top_repo_frame(bt: &str) -> String {
    for line in bt.lines() {
        let l = line.trim();
        let sym = l.split_once(": ").map(|x| x.1).unwrap_or(l);
        if (sym.contains("c2pa::") || sym.contains("c2pa_crypto::") || sym.contains("c2pa_status_tracker::")) && !sym.contains("verif_hooks") && !sym.starts_with("at ") {
            let s = sym.trim_start_matches('<');
            // drop the trailing ::h<hash>
            let s = match s.rfind("::h") {
                Some(p) if s.len() - p == 19 => &s[..p],
                _ => s,
            };
            return s.chars().take(120).collect();
        }
    }
    "unknown".into()
}

fn install_hook() {
    std::panic::set_hook(Box::new(|info| {
        let loc = info.location().map(|l| format!("{}:{}", l.file(), l.line())).unwrap_or_default();
        let bt = std::backtrace::Backtrace::force_capture().to_string();
        let frame = top_repo_frame(&bt);
        PANIC_INFO.with(|p| *p.borrow_mut() = Some((loc, frame)));
    }));
}

fn cpu_ms() -> u64 {
    let mut ts = libc::timespec { tv_sec: 0, tv_nsec: 0 };
    unsafe { libc::clock_gettime(libc::CLOCK_THREAD_CPUTIME_ID, &mut ts) };
    ts.tv_sec as u64 * 1000 + ts.tv_nsec as u64 / 1_000_000
}

/// file path of a panic location, reduced to crate-relative form without the line number
fn loc_file(loc: &str) -> String {
    let f = loc.rsplit_once(':').map(|x| x.0).unwrap_or(loc);
    if let Some(p) = f.find("/sdk/src/") {
        return format!("sdk/src/{}", &f[p + 9..]);
    }
    if let Some(p) = f.find("/registry/src/") {
        let rest = &f[p + 14..];
        return rest.split_once('/').map(|x| x.1.to_string()).unwrap_or_else(|| rest.to_string());
    }
    f.to_string()
}

fn run_eval(e: &Eval) -> Value {
    let len = e.bytes.len() as u64 + e.store.as_ref().map(|s| s.len() as u64).unwrap_or(0);
    let context = ctx();
    let data: Vec<u8> = (*e.bytes).clone();
    let store: Option<Vec<u8>> = e.store.as_ref().map(|s| (**s).clone());
    let ep = e.ep;
    let hint = e.hint.clone();
    // the call runs on a thread with the default Rust thread stack (2 MiB)
    let h = std::thread::Builder::new().stack_size(2 << 20).spawn(move || {
        let mut cs = CountingStream::new(Cursor::new(data));
        let t0 = cpu_ms();
        let w0 = iokit::alloc_global_window_start();
        let r = std::panic::catch_unwind(std::panic::AssertUnwindSafe(|| -> Result<String, String> {
            match ep {
                Ep::WithStream => Reader::from_context(context).with_stream(&hint, &mut cs).map(|r| format!("ok:{:?}", r.validation_state())).map_err(|e| report::err_kind(&e)),
                Ep::Ingredient => {
                    let mut b = Builder::from_context(context);
                    b.add_ingredient_from_stream(json!({"title": "i"}).to_string(), &hint, &mut cs).map(|_| "ok".to_string()).map_err(|e| report::err_kind(&e))
                }
                Ep::Archive => Builder::from_context(context).with_archive(&mut cs).map(|_| "ok".to_string()).map_err(|e| report::err_kind(&e)),
                Ep::ManifestData => Reader::from_context(context).with_manifest_data_and_stream(store.as_deref().unwrap_or(&[]), &hint, &mut cs).map(|r| format!("ok:{:?}", r.validation_state())).map_err(|e| report::err_kind(&e)),
                Ep::LoadJumbf => c2pa::jumbf_io::load_jumbf_from_memory(&hint, cs.inner.get_ref()).map(|_| "ok".to_string()).map_err(|e| report::err_kind(&e)),
            }
        }));
        let (peak, largest) = iokit::alloc_global_window_end(w0);
        let cpu = cpu_ms().saturating_sub(t0);
        let (out, panic) = match r {
            Ok(Ok(s)) => (s, None),
            Ok(Err(k)) => (format!("err:{k}"), None),
            Err(p) => {
                let msg = report::panic_msg(&p);
                let (loc, frame) = PANIC_INFO.with(|x| x.borrow_mut().take()).unwrap_or_default();
                ("panic".to_string(), Some((msg, loc, frame)))
            }
        };
        (out, panic, peak, largest, cs.counts.bytes_read, cs.counts.seeks, cpu)
    });
    match h.map(|h| h.join()) {
        Ok(Ok((out, panic, peak, largest, rd, seeks, cpu))) => {
            let mut v = json!({"ep": e.ep.name(), "hint": e.hint, "len": len, "out": out, "peak": peak, "largest": largest, "rd": rd, "seeks": seeks, "cpu_ms": cpu});
            if let Some((msg, loc, frame)) = panic {
                v["panic"] = json!(msg.chars().take(300).collect::<String>());
                v["loc"] = json!(loc);
                v["frame"] = json!(frame);
            }
            v
        }
        _ => json!({"ep": e.ep.name(), "hint": e.hint, "len": len, "out": "harness-thread-error"}),
    }
}

fn child_main(args: &[String]) -> ! {
    let get = |k: &str| args.iter().position(|a| a == k).and_then(|i| args.get(i + 1)).cloned();
    let corpus = PathBuf::from(get("--corpus").expect("--corpus"));
    let list = get("--list").expect("--list");
    let out_path = get("--out").expect("--out");
    let seed: u64 = get("--seed").and_then(|s| s.parse().ok()).unwrap_or(1);
    let quick = get("--tier").as_deref() != Some("thorough");
    if let Some(l) = get("--cpu-limit").and_then(|s| s.parse::<u64>().ok()) {
        let lim = libc::rlimit { rlim_cur: l, rlim_max: l + 5 };
        unsafe { libc::setrlimit(libc::RLIMIT_CPU, &lim) };
    }
    // a request above 6 GiB fails instead of being attempted (shared machine)
    iokit::alloc_refuse_above(6 << 30);
    install_hook();
    let items = load_corpus(&corpus);
    let pl = plan(quick, &items);
    let idxs: Vec<usize> = std::fs::read_to_string(&list).unwrap_or_default().lines().filter_map(|l| l.trim().parse().ok()).collect();
    let mut out = std::fs::OpenOptions::new().create(true).append(true).open(&out_path).expect("out");
    let prog = format!("{out_path}.progress");
    for idx in idxs {
        let _ = std::fs::write(&prog, format!("{idx} gen"));
        let case = match make_case_safe(&items, seed, idx, &pl) {
            Some(c) => c,
            None => {
                let _ = PANIC_INFO.with(|x| x.borrow_mut().take());
                let _ = writeln!(out, "{}", json!({"i": idx, "harness": "no-case"}));
                continue;
            }
        };
        for (k, e) in case.evals.iter().enumerate() {
            let _ = std::fs::write(&prog, format!("{idx} {k}"));
            let mut v = run_eval(e);
            v["i"] = json!(idx);
            v["k"] = json!(k);
            v["base"] = json!(case.base);
            v["fmt"] = json!(case.base_fmt);
            v["kind"] = json!(case.kind);
            let _ = writeln!(out, "{v}");
        }
    }
    let _ = std::fs::write(&prog, "done");
    std::process::exit(0);
}

// ------------------------------------------------------------------------------------------------
// parent

struct ChildRun {
    lines: Vec<Value>,
    /// (case index, eval index, classification, stderr tail)
    crashes: Vec<(usize, usize, String, String)>,
    stalls: Vec<(usize, usize)>,
    /// killed after CPU_KILL_S seconds of measured CPU time inside one evaluation
    cpu_hogs: Vec<(usize, usize)>,
    /// the child died / stalled while *generating* a case (harness side): inconclusive
    gen_failures: Vec<(usize, String)>,
}

/// CPU budget is 20 s; the child is killed (and the case counted) at 25 s of measured CPU time.
const CPU_KILL_S: f64 = 25.0;

/// user+system CPU seconds of process `pid` (all threads) from /proc.
fn proc_cpu_s(pid: u32) -> f64 {
    let Ok(s) = std::fs::read_to_string(format!("/proc/{pid}/stat")) else { return 0.0 };
    let Some(p) = s.rfind(')') else { return 0.0 };
    let f: Vec<&str> = s[p + 1..].split_whitespace().collect();
    // after the command: state is f[0]; utime = field 14 overall -> f[11], stime -> f[12]
    let ut: f64 = f.get(11).and_then(|x| x.parse().ok()).unwrap_or(0.0);
    let st: f64 = f.get(12).and_then(|x| x.parse().ok()).unwrap_or(0.0);
    let hz = unsafe { libc::sysconf(libc::_SC_CLK_TCK) } as f64;
    (ut + st) / if hz > 0.0 { hz } else { 100.0 }
}

fn classify_exit(status: &std::process::ExitStatus, stderr: &str) -> String {
    use std::os::unix::process::ExitStatusExt;
    if stderr.contains("has overflowed its stack") {
        return "stack-overflow".into();
    }
    if stderr.contains("memory allocation of") {
        return "alloc-failure-abort".into();
    }
    match status.signal() {
        Some(libc::SIGSEGV) => "sigsegv".into(),
        Some(libc::SIGABRT) => "abort".into(),
        Some(libc::SIGXCPU) => "cpu-limit".into(),
        Some(libc::SIGKILL) => "killed".into(),
        Some(s) => format!("signal-{s}"),
        None => format!("exit-{}", status.code().unwrap_or(-1)),
    }
}

/// Runs `exe --child` over `idxs`, restarting after crashes/stalls; returns everything observed.
fn run_shard(exe: &Path, corpus: &Path, scratch: &Path, tag: &str, idxs: &[usize], seed: u64, tier: &str, stall_s: u64, cpu_limit: Option<u64>) -> ChildRun {
    let mut res = ChildRun { lines: Vec::new(), crashes: Vec::new(), stalls: Vec::new(), cpu_hogs: Vec::new(), gen_failures: Vec::new() };
    let mut remaining: Vec<usize> = idxs.to_vec();
    let mut round = 0;
    while !remaining.is_empty() && round < 200 {
        round += 1;
        let list = scratch.join(format!("{tag}.{round}.list"));
        let out = scratch.join(format!("{tag}.{round}.out"));
        let err = scratch.join(format!("{tag}.{round}.err"));
        std::fs::write(&list, remaining.iter().map(|i| i.to_string()).collect::<Vec<_>>().join("\n")).expect("list");
        let mut cmd = std::process::Command::new(exe);
        cmd.arg("--child").arg("--corpus").arg(corpus).arg("--list").arg(&list).arg("--out").arg(&out).arg("--seed").arg(seed.to_string()).arg("--tier").arg(tier);
        if let Some(l) = cpu_limit {
            cmd.arg("--cpu-limit").arg(l.to_string());
        }
        cmd.env("RUST_BACKTRACE", "0").env("RUST_MIN_STACK", "2097152");
        cmd.stdout(std::process::Stdio::null()).stderr(std::fs::File::create(&err).expect("err"));
        let Ok(mut child) = cmd.spawn() else { break };
        let prog = PathBuf::from(format!("{}.progress", out.display()));
        let mut last = String::new();
        let mut since = std::time::Instant::now();
        let mut stalled = false;
        let mut cpu_hog = false;
        let mut cpu_at_change = 0f64;
        let mut cpu_at_wall = 0f64;
        let mut since_first = std::time::Instant::now();
        let status = loop {
            match child.try_wait() {
                Ok(Some(st)) => break Some(st),
                Ok(None) => {}
                Err(_) => break None,
            }
            std::thread::sleep(std::time::Duration::from_millis(100));
            let cur = std::fs::read_to_string(&prog).unwrap_or_default();
            if cur != last {
                last = cur;
                since = std::time::Instant::now();
                cpu_at_change = proc_cpu_s(child.id());
                cpu_at_wall = cpu_at_change;
                since_first = std::time::Instant::now();
            } else if proc_cpu_s(child.id()) - cpu_at_change > CPU_KILL_S {
                // measured CPU time of the child inside one evaluation (load-independent)
                let _ = child.kill();
                let _ = child.wait();
                cpu_hog = true;
                break None;
            } else if since.elapsed().as_secs() > stall_s {
                // no progress marker for a while: only a stall if the child is not burning CPU either
                // (a busy child is left to reach the CPU limit, however long that takes under load)
                let now = proc_cpu_s(child.id());
                if now - cpu_at_wall < 0.5 || since_first.elapsed().as_secs() > 1800 {
                    let _ = child.kill();
                    let _ = child.wait();
                    stalled = true;
                    break None;
                }
                cpu_at_wall = now;
                since = std::time::Instant::now();
            }
        };
        let text = std::fs::read_to_string(&out).unwrap_or_default();
        for l in text.lines() {
            if let Ok(v) = serde_json::from_str::<Value>(l) {
                res.lines.push(v);
            }
        }
        let cur = std::fs::read_to_string(&prog).unwrap_or_default();
        let ok = status.map(|s| s.success()).unwrap_or(false);
        if ok && cur == "done" {
            break;
        }
        // where did it stop?
        let mut it = cur.split_whitespace();
        let (ci, ekt) = (it.next().and_then(|x| x.parse::<usize>().ok()), it.next().unwrap_or("0").to_string());
        let Some(ci) = ci else { break };
        let in_gen = ekt == "gen";
        let ek = ekt.parse::<usize>().unwrap_or(0);
        if in_gen {
            res.gen_failures.push((ci, if stalled { "stall".into() } else if cpu_hog { "cpu".into() } else { status.map(|s| classify_exit(&s, &std::fs::read_to_string(&err).unwrap_or_default())).unwrap_or_default() }));
        } else if cpu_hog {
            res.cpu_hogs.push((ci, ek));
        } else if stalled {
            res.stalls.push((ci, ek));
        } else if let Some(st) = status {
            let e = std::fs::read_to_string(&err).unwrap_or_default();
            let tail: String = e.chars().rev().take(600).collect::<String>().chars().rev().collect();
            res.crashes.push((ci, ek, classify_exit(&st, &e), tail));
        }
        // skip the whole offending case and go on
        match remaining.iter().position(|x| *x == ci) {
            Some(p) => remaining.drain(..=p),
            None => break,
        };
    }
    res
}

/// Signature parts.  A defect must map to few signatures, so the entry point and the hint are
/// reduced to what determines the code that runs: store-level mutants reach the JUMBF/CBOR/COSE
/// parsers through every entry point ("store-parse|any"); container-level mutants reach the handler
/// chosen by content sniffing (Reader::with_stream: the base format's family) or by the hint alone
/// (all other entry points).  The entry point and the literal hint stay in the witness.
fn cause(_fmt: &str, kind: &str) -> String {
    match kind.split('+').next().unwrap_or(kind) {
        // both mutators put an oversized declared length into a CBOR head
        "store:cbor-head" | "store:cbor-huge-len" => "store:cbor-declared-length".to_string(),
        // both mutators put a large integer into a length/size field of a container element
        "elem-header" | "length-field" => "container-length-field".to_string(),
        k => k.to_string(),
    }
}
fn fmt_family(fmt: &str) -> &'static str {
    match hint_family(fmt) {
        "other" => "nomagic",
        f => f,
    }
}
fn sig_prefix(ep: &str, hf: &str, fmt: &str, kind: &str) -> String {
    // mp3 and flac share the ID3 parsing path (id3_helper): one family for signatures
    let id3 = |f: &str| if f == "mp3" || f == "flac" { "id3".to_string() } else { f.to_string() };
    let p = sig_prefix_raw(ep, hf, fmt, kind);
    match p.split_once('|') {
        Some((a, b)) => format!("{a}|{}", id3(b)),
        None => p,
    }
}
fn sig_prefix_raw(ep: &str, hf: &str, fmt: &str, kind: &str) -> String {
    if kind.starts_with("store:") {
        "store-parse|any".to_string()
    } else if ep == "Reader::with_stream" && fmt_family(fmt) != "nomagic" && fmt_family(fmt) != "svg" && fmt_family(fmt) != "c2pa" {
        format!("container-parse|{}", fmt_family(fmt))
    } else if ep == "Builder::with_archive" {
        "container-parse|archive".to_string()
    } else {
        format!("container-parse|{hf}")
    }
}

fn sanitize(s: &str) -> String {
    s.chars().map(|c| if c.is_ascii_alphanumeric() || "-_.".contains(c) { c } else { '_' }).take(110).collect()
}

fn main() {
    let args: Vec<String> = std::env::args().collect();
    if args.iter().any(|a| a == "--child") {
        child_main(&args);
    }
    let mut run = Run::from_args("C10", "exploration");
    report::quiet_panics();
    run.rule = "corpus = every non-empty fixture + signed/clean tiny assets of every format + extracted manifest stores + a builder archive; benign pass = every item under every entry point x 12 hint families; mutants = deterministic (seed, index): store-level (JUMBF box sizes 0/1/max/len±1, nesting xN, duplicated boxes, CBOR head forms / deep nesting / huge declared lengths, ASN.1 length forms in the signature box, brotli bombs and valid compressed manifests, description-box variants; in place, re-embedded through the SDK writer, or as bare stores), container-level (integers inside element headers located by the independent parsers, plausible length fields, element duplicate/delete/swap/move, container nesting xN for BMFF/RIFF/JXL, XML nesting/entity expansion for SVG) and byte-level (flip/insert/delete/truncate/splice). Non-trivial = an evaluation whose input was accepted far enough to produce a result or a format-specific error; distinct = (entry point, hint family, base format, mutator, outcome).".into();
    run.assumptions = vec![
        "panics are caught inside the child (catch_unwind); aborts, signals and stack overflows are classified from the child's wait status and stderr; each call runs on a thread with Rust's default 2 MiB thread stack".into(),
        "memory: process-wide counting allocator, one case at a time per child; budget 8*len + 1 MiB (decompression limit set to 1 MiB) + 16 MiB, len = stream bytes + manifest-data bytes; the input copy held by the harness is outside the window".into(),
        "work: bytes read <= 64*len + 1 MiB and seeks <= 16*len + 10^4 on the caller-side stream".into(),
        "CPU: measured CPU time only (thread clock inside the child, or user+system time of the child from /proc while it sits in one evaluation; the evaluation is stopped at 25 s CPU against a 20 s budget) for inputs <= 1 MiB; a wall-clock stall without CPU consumption is inconclusive".into(),
        "re-embedding a hostile store into an asset uses the SDK writer as a driver only".into(),
    ];
    let quick = run.quick();
    let tier = if quick { "quick" } else { "thorough" };
    let exe = std::env::current_exe().expect("exe");
    let scratch = tempfile::Builder::new().prefix("c10-").tempdir().expect("scratch");
    let corpus_dir = scratch.path().join("corpus");

    // ---------------- replay of one retained input
    if let Some(p) = run.replay.clone() {
        let v: Value = serde_json::from_slice(&std::fs::read(&p).expect("replay")).expect("json");
        let w = &v["witness"];
        let bin = PathBuf::from(w["input"].as_str().unwrap_or(""));
        let bytes = std::fs::read(&bin).expect("input file");
        let items = vec![Item { name: "replay".into(), fmt: w["hint"].as_str().unwrap_or("jpg").into(), kind: "fixture".into(), bytes, pair: None }];
        write_corpus(&corpus_dir, &items);
        let r = run_shard(&exe, &corpus_dir, scratch.path(), "replay", &[0], run.seed, tier, 120, Some(60));
        println!("replay: crashes={:?} stalls={:?}", r.crashes.iter().map(|c| &c.2).collect::<Vec<_>>(), r.stalls);
        let bad = !r.crashes.is_empty() || r.lines.iter().any(|l| l["out"] == "panic" || l["peak"].as_u64().unwrap_or(0) > alloc_budget(l["len"].as_u64().unwrap_or(0)));
        for l in r.lines.iter().filter(|l| l["out"] == "panic") {
            println!("  panic: {} at {} in {}", l["panic"], l["loc"], l["frame"]);
        }
        std::process::exit(if bad { 1 } else { 0 });
    }

    let items = build_corpus();
    write_corpus(&corpus_dir, &items);
    let pl = plan(quick, &items);
    run.set("corpus", json!({"items": items.len(), "fixtures": items.iter().filter(|i| i.kind == "fixture").count(), "bytes": items.iter().map(|i| i.bytes.len()).sum::<usize>()}));
    let total = pl.benign + pl.mutants + pl.directed;
    let nw = par::workers().max(1);
    // strided shards; benign cases first in every shard
    let shards: Vec<Vec<usize>> = (0..nw).map(|w| (0..total).filter(|i| i % nw == w).collect()).collect();
    let stall_s = 90;
    let runs: Vec<ChildRun> = par::par_map(nw, |w| run_shard(&exe, &corpus_dir, scratch.path(), &format!("s{w}"), &shards[w], run.seed, tier, stall_s, None));

    // ---------------- fold
    let replay_dir = vmon::evidence::verif_root().join("replay").join("C10");
    let _ = std::fs::create_dir_all(&replay_dir);
    let seed0 = run.seed;
    let retain = |sig: &str, idx: usize, k: usize| -> (String, Value) {
        let path = replay_dir.join(format!("{}.bin", sanitize(sig)));
        let mut meta = json!({});
        if let Some(c) = make_case_safe(&items, seed0, idx, &pl) {
            if let Some(e) = c.evals.get(k) {
                if !path.exists() {
                    let _ = std::fs::write(&path, &*e.bytes);
                    if let Some(s) = &e.store {
                        let _ = std::fs::write(path.with_extension("store.bin"), &**s);
                    }
                }
                meta = json!({"base": c.base, "mutator": c.kind, "ep": e.ep.name(), "hint": e.hint, "len": e.bytes.len()});
            }
        }
        (path.display().to_string(), meta)
    };
    let mut interesting: Vec<usize> = Vec::new();
    let mut benign_ratio_max = 0f64;
    let mut benign_worst = String::new();
    let mut max_ratio: BTreeMap<&'static str, (f64, String)> = BTreeMap::new();
    let mut cpu_candidates: Vec<(usize, usize)> = Vec::new();
    for r in &runs {
        for l in &r.lines {
            if l.get("harness").is_some() {
                run.count("generator_panics(harness)", 1);
                continue;
            }
            run.eval();
            let idx = l["i"].as_u64().unwrap_or(0) as usize;
            let k = l["k"].as_u64().unwrap_or(0) as usize;
            let ep = l["ep"].as_str().unwrap_or("");
            let hint = l["hint"].as_str().unwrap_or("");
            let hf = if hint.is_empty() { "none" } else { hint_family(hint) };
            let kind = l["kind"].as_str().unwrap_or("");
            let fmt = l["fmt"].as_str().unwrap_or("");
            let out = l["out"].as_str().unwrap_or("");
            let len = l["len"].as_u64().unwrap_or(0);
            let benign = kind == "benign";
            // trivial: rejected on the hint alone
            let trivial = out == "err:UnsupportedType" || out == "harness-thread-error";
            let mk = kind.split('+').next().unwrap_or(kind);
            if !trivial {
                run.nontrivial(format!("{ep}|{hf}|{fmt}|{mk}|{out}"));
            }
            run.count(&format!("ep:{ep}"), 1);
            run.count(if benign { "benign_evals" } else { "mutant_evals" }, 1);
            let w = json!({"index": idx, "eval": k, "line": l});
            if out == "panic" {
                let frame = l["frame"].as_str().unwrap_or("unknown");
                let file = loc_file(l["loc"].as_str().unwrap_or(""));
                let sig = format!("{}|panic|{}@{}", if kind.starts_with("store:") { "store-parse|any" } else { "container-parse|any" }, frame, file);
                let (path, meta) = retain(&sig, idx, k);
                interesting.push(idx);
                run.violation(&sig, &format!("panic '{}' at {} (top in-repo frame {}) — {} under hint {:?}, base {} mutator {}", l["panic"].as_str().unwrap_or(""), l["loc"].as_str().unwrap_or(""), frame, ep, hint, l["base"].as_str().unwrap_or(""), kind), json!({"input": path, "case": meta, "hint": hint, "observed": w}));
                continue;
            }
            let peak = l["peak"].as_u64().unwrap_or(0);
            let ratio = peak as f64 / alloc_budget(len) as f64;
            if benign && l["base"].as_str().map(|b| !b.contains(':')).unwrap_or(false) && ratio > benign_ratio_max {
                benign_ratio_max = ratio;
                benign_worst = format!("{} via {ep} hint {hint}: peak {peak} of budget {}", l["base"].as_str().unwrap_or(""), alloc_budget(len));
            }
            let e = max_ratio.entry("alloc").or_insert((0.0, String::new()));
            if ratio > e.0 {
                *e = (ratio, format!("{} {kind} {ep} {hint}", l["base"].as_str().unwrap_or("")));
            }
            let rd = l["rd"].as_u64().unwrap_or(0);
            let seeks = l["seeks"].as_u64().unwrap_or(0);
            for (name, val, bud) in [("read", rd, read_budget(len)), ("seek", seeks, seek_budget(len))] {
                let r2 = val as f64 / bud as f64;
                let e = max_ratio.entry(name).or_insert((0.0, String::new()));
                if r2 > e.0 {
                    *e = (r2, format!("{} {kind} {ep} {hint}", l["base"].as_str().unwrap_or("")));
                }
            }
            let over = [("alloc-budget", peak, alloc_budget(len)), ("read-budget", rd, read_budget(len)), ("seek-budget", seeks, seek_budget(len))];
            for (cls, val, bud) in over {
                if val > bud {
                    // cause class of an allocation overrun: when ONE request makes up most of the peak, the
                    // size came from a single declared length in the input — whichever mutator happened to
                    // write it (a random byte flip in a frame-size field and the length-field mutator are
                    // the same defect) — so the signature names that, not the mutator
                    let largest = l["largest"].as_u64().unwrap_or(0);
                    let c = if cls == "alloc-budget" && kind.split(':').next() != Some("store") && largest > val / 2 { "container-length-field".to_string() } else { cause(fmt, kind) };
                    let sig = format!("{}|{cls}|{c}", sig_prefix(ep, hf, fmt, kind));
                    let (path, meta) = retain(&sig, idx, k);
                    interesting.push(idx);
                    run.violation(&sig, &format!("{cls}: {val} > {bud} for a {len}-byte input — {ep} under hint {hint:?}, base {} mutator {kind} (largest single request {})", l["base"].as_str().unwrap_or(""), l["largest"].as_u64().unwrap_or(0)), json!({"input": path, "case": meta, "hint": hint, "observed": w}));
                }
            }
            if l["cpu_ms"].as_u64().unwrap_or(0) > 20_000 && len <= (1 << 20) {
                cpu_candidates.push((idx, k));
            }
            if ratio > 0.5 || l["cpu_ms"].as_u64().unwrap_or(0) > 2000 {
                interesting.push(idx);
                run.sample("near-budget", 4, w.clone());
            }
            run.sample(&format!("{}:{}", if benign { "benign" } else { "mutant" }, mk), 1, json!({"index": idx, "base": l["base"], "ep": ep, "hint": hint, "out": out, "peak": peak, "rd": rd, "seeks": seeks, "cpu_ms": l["cpu_ms"], "len": len}));
        }
        for (ci, ek, class, tail) in &r.crashes {
            let c = make_case_safe(&items, run.seed, *ci, &pl);
            let (ep, hint, base, kind, fmt) = c.as_ref().and_then(|c| c.evals.get(*ek).map(|e| (e.ep.name(), e.hint.clone(), c.base.clone(), c.kind.clone(), c.base_fmt.clone()))).unwrap_or(("unknown", String::new(), String::new(), String::new(), String::new()));
            let hf = if hint.is_empty() { "none" } else { hint_family(&hint) };
            if class == "killed" || class.starts_with("exit-") {
                run.inconclusive(format!("child ended with {class} at case {ci}/{ek} ({ep}, base {base}, mutator {kind}) — not classified"));
                continue;
            }
            let mk = kind.split('+').next().unwrap_or(&kind).to_string();
            let _ = &mk;
            let sig = format!("{}|{class}|{}", sig_prefix(ep, hf, &fmt, &kind), cause(&fmt, &kind));
            let (path, meta) = retain(&sig, *ci, *ek);
            interesting.push(*ci);
            run.violation(&sig, &format!("child process died ({class}) in {ep} under hint {hint:?}, base {base} mutator {kind}; stderr tail: {}", tail.replace('\n', " | ")), json!({"input": path, "case": meta, "hint": hint, "index": ci, "eval": ek}));
        }
        for (ci, ek) in &r.stalls {
            run.inconclusive(format!("child made no progress for {stall_s} s of wall-clock at case {ci}/{ek} without reaching the CPU limit — not judged"));
        }
        for (ci, why) in &r.gen_failures {
            run.inconclusive(format!("case {ci} could not be generated (child {why} inside the harness-side generator / SDK writer used as a driver) — skipped"));
        }
        for (ci, ek) in &r.cpu_hogs {
            cpu_candidates.push((*ci, *ek));
        }
    }
    // ---------------- CPU: measured CPU time (thread clock in the child, or /proc of the killed child)
    cpu_candidates.sort();
    cpu_candidates.dedup();
    for (ci, ek) in cpu_candidates.iter() {
        let c = make_case_safe(&items, run.seed, *ci, &pl);
        let (ep, hint, base, kind, fmt, len) = c.as_ref().and_then(|c| c.evals.get(*ek).map(|e| (e.ep.name(), e.hint.clone(), c.base.clone(), c.kind.clone(), c.base_fmt.clone(), e.bytes.len() + e.store.as_ref().map(|s| s.len()).unwrap_or(0)))).unwrap_or(("unknown", String::new(), String::new(), String::new(), String::new(), 0));
        if len <= (1 << 20) {
            let hf = if hint.is_empty() { "none" } else { hint_family(&hint) };
            let sig = format!("{}|cpu-budget|{}", sig_prefix(ep, hf, &fmt, &kind), cause(&fmt, &kind));
            let (path, meta) = retain(&sig, *ci, *ek);
            interesting.push(*ci);
            run.nontrivial(format!("{ep}|{hf}|{fmt}|{}|cpu-budget", kind.split('+').next().unwrap_or(&kind)));
            run.violation(&sig, &format!("more than 20 s of measured CPU time for a {len}-byte input (evaluation stopped at {CPU_KILL_S} s CPU) — {ep} hint {hint:?}, base {base} mutator {kind}"), json!({"input": path, "case": meta, "hint": hint, "index": ci, "eval": ek}));
        } else {
            run.count("slow_large_inputs(unjudged)", 1);
        }
    }
    // ---------------- calibration
    run.set("benign_alloc_ratio_max", json!({"ratio": benign_ratio_max, "where": benign_worst}));
    run.set("max_budget_ratios", json!(max_ratio.iter().map(|(k, v)| (k.to_string(), json!({"ratio": v.0, "where": v.1}))).collect::<BTreeMap<_, _>>()));
    if benign_ratio_max > 0.25 {
        run.inconclusive(format!("allocation budget calibration: a benign fixture uses {:.0} % of its budget ({benign_worst}); the memory oracle's margin is below the designed 4x", benign_ratio_max * 100.0));
    }
    run.engine("release", true, json!({"children": nw, "cases": total, "benign": pl.benign, "mutants": pl.mutants}));

    // ---------------- dbg engine: overflow checks + debug assertions on a subset
    let dbg_exe = std::env::var("CARGO_TARGET_DIR").map(PathBuf::from).unwrap_or_else(|_| vmon::evidence::verif_root().join(".build")).join("dbg").join("c10");
    let harness_dir = vmon::evidence::verif_root().join("harness");
    let built = if std::env::var("VERIF_C10_NO_DBG").is_ok() {
        false
    } else {
        let st = std::process::Command::new("timeout").arg("2400").arg("cargo").args(["build", "--profile", "dbg", "--offline", "--bin", "c10"]).current_dir(&harness_dir).stdout(std::process::Stdio::null()).stderr(std::process::Stdio::null()).status();
        st.map(|s| s.success()).unwrap_or(false) && dbg_exe.exists()
    };
    if built && exe != dbg_exe {
        // subset: everything interesting + a seeded sample of mutants + all benign cases of small items
        let mut sub: Vec<usize> = interesting.clone();
        let mut rng = Rng::new(run.seed, "c10-dbg");
        let n = run.tier.pick(1200usize, 8_000usize);
        for d in 0..pl.directed {
            sub.push(pl.benign + pl.mutants + d);
        }
        for _ in 0..n {
            sub.push(pl.benign + rng.usize(pl.mutants));
        }
        for (i, it) in items.iter().enumerate() {
            if it.bytes.len() < 400_000 {
                sub.push(i);
            }
        }
        sub.sort();
        sub.dedup();
        let shards: Vec<Vec<usize>> = (0..nw).map(|w| sub.iter().copied().enumerate().filter(|(p, _)| p % nw == w).map(|(_, i)| i).collect()).collect();
        let druns: Vec<ChildRun> = par::par_map(nw, |w| run_shard(&dbg_exe, &corpus_dir, scratch.path(), &format!("d{w}"), &shards[w], run.seed, tier, 240, None));
        let mut evals = 0u64;
        let mut panics = 0u64;
        for r in &druns {
            for l in &r.lines {
                if l.get("harness").is_some() {
                    run.count("generator_panics(harness,dbg)", 1);
                    continue;
                }
                evals += 1;
                run.eval();
                if l["out"] == "panic" {
                    panics += 1;
                    let idx = l["i"].as_u64().unwrap_or(0) as usize;
                    let k = l["k"].as_u64().unwrap_or(0) as usize;
                    let hint = l["hint"].as_str().unwrap_or("");
                    let hf = if hint.is_empty() { "none" } else { hint_family(hint) };
                    let frame = l["frame"].as_str().unwrap_or("unknown");
                    let sig = format!("{}|panic-dbg|{}@{}", if l["kind"].as_str().unwrap_or("").starts_with("store:") { "store-parse|any" } else { "container-parse|any" }, frame, loc_file(l["loc"].as_str().unwrap_or("")));
                    let (path, meta) = retain(&sig, idx, k);
                    run.nontrivial(format!("dbg|{}|{hf}|panic", l["ep"].as_str().unwrap_or("")));
                    run.violation(&sig, &format!("[dbg profile: overflow checks + debug assertions] panic '{}' at {} (top in-repo frame {}) — {} under hint {hint:?}, base {} mutator {}", l["panic"].as_str().unwrap_or(""), l["loc"].as_str().unwrap_or(""), frame, l["ep"].as_str().unwrap_or(""), l["base"].as_str().unwrap_or(""), l["kind"].as_str().unwrap_or("")), json!({"input": path, "case": meta, "hint": hint, "observed": l, "engine": "dbg"}));
                }
            }
            for (ci, ek, class, tail) in &r.crashes {
                if class == "killed" || class.starts_with("exit-") {
                    run.inconclusive(format!("dbg child ended with {class} at case {ci}/{ek}"));
                    continue;
                }
                let c = make_case_safe(&items, run.seed, *ci, &pl);
                let (ep, hint, kind, fmt) = c.as_ref().and_then(|c| c.evals.get(*ek).map(|e| (e.ep.name(), e.hint.clone(), c.kind.clone(), c.base_fmt.clone()))).unwrap_or(("unknown", String::new(), String::new(), String::new()));
                let hf = if hint.is_empty() { "none" } else { hint_family(&hint) };
                let sig = format!("{}|{class}|{}", sig_prefix(ep, hf, &fmt, &kind), cause(&fmt, &kind));
                let (path, meta) = retain(&sig, *ci, *ek);
                run.violation(&sig, &format!("[dbg profile] child process died ({class}) in {ep} under hint {hint:?}; stderr tail: {}", tail.replace('\n', " | ")), json!({"input": path, "case": meta, "hint": hint, "index": ci, "eval": ek, "engine": "dbg"}));
            }
            for (ci, ek) in &r.stalls {
                run.inconclusive(format!("dbg child stalled at case {ci}/{ek} (unoptimised build under load) — not judged"));
            }
        }
        run.engine("dbg", true, json!({"cases": sub.len(), "evaluations": evals, "panics": panics}));
    } else {
        run.engine("dbg", false, json!({"reason": if exe == dbg_exe { "this is the dbg binary" } else { "dbg build unavailable (cargo build --profile dbg failed, timed out or was disabled)" }}));
        run.inconclusive("dbg engine (overflow checks + debug assertions) not run");
    }
    // ---------------- fuzz engine
    let fuzz_dir = harness_dir.join("fuzz");
    if quick {
        run.engine("fuzz", false, json!({"reason": "libFuzzer targets are thorough-only (not run in quick)", "dir": fuzz_dir}));
    } else {
        run_fuzz(&mut run, &fuzz_dir, &corpus_dir, &items);
    }
    let _ = std::fs::remove_dir_all(scratch.path());
    run.finish(200);
}

/// Thorough tier: libFuzzer smoke over the committed targets, seeded with the corpus.
fn run_fuzz(run: &mut Run, fuzz_dir: &Path, corpus_dir: &Path, items: &[Item]) {
    if !fuzz_dir.join("Cargo.toml").exists() {
        run.engine("fuzz", false, json!({"reason": "no fuzz crate"}));
        return;
    }
    let target_dir = vmon::evidence::verif_root().join(".build").join("fuzz");
    let secs = std::env::var("VERIF_C10_FUZZ_SECS").ok().and_then(|s| s.parse::<u64>().ok()).unwrap_or(180);
    let mut detail = Vec::new();
    for target in ["reader_with_stream", "load_jumbf"] {
        let seeds = corpus_dir.join(format!("fuzz-seeds-{target}"));
        let _ = std::fs::create_dir_all(&seeds);
        for (i, it) in items.iter().enumerate() {
            if it.bytes.len() <= 200_000 {
                // first byte selects the hint family in the targets
                let mut b = vec![(i % 12) as u8];
                b.extend_from_slice(&it.bytes);
                let _ = std::fs::write(seeds.join(format!("{i}.bin")), b);
            }
        }
        let artifacts = vmon::evidence::verif_root().join("replay").join("C10").join(format!("fuzz-{target}"));
        let _ = std::fs::create_dir_all(&artifacts);
        let st = std::process::Command::new("timeout")
            .arg((secs + 3000).to_string())
            .args(["cargo", "+nightly", "fuzz", "run", "--fuzz-dir"])
            .arg(fuzz_dir)
            .arg("--target-dir")
            .arg(&target_dir)
            .arg(target)
            .arg(&seeds)
            .arg("--")
            .args(["-timeout=10", "-rss_limit_mb=2048", "-malloc_limit_mb=1024", "-max_len=262144", &format!("-max_total_time={secs}"), &format!("-artifact_prefix={}/", artifacts.display())])
            .env("CARGO_NET_OFFLINE", "true")
            .current_dir(fuzz_dir)
            .stdout(std::process::Stdio::null())
            .stderr(std::fs::File::create(corpus_dir.join(format!("fuzz-{target}.log"))).expect("log"))
            .status();
        let log = std::fs::read_to_string(corpus_dir.join(format!("fuzz-{target}.log"))).unwrap_or_default();
        let execs = log.lines().rev().find(|l| l.contains("stat::number_of_executed_units")).map(|l| l.to_string()).unwrap_or_default();
        let found: Vec<String> = std::fs::read_dir(&artifacts).map(|d| d.filter_map(|e| e.ok()).map(|e| e.file_name().to_string_lossy().to_string()).collect()).unwrap_or_default();
        match st {
            Ok(s) if s.success() => detail.push(json!({"target": target, "ran": true, "stats": execs})),
            Ok(_) if log.contains("ERROR: libFuzzer") || log.contains("panicked at") || log.contains("AddressSanitizer") => {
                let what = log.lines().find(|l| l.contains("panicked at") || l.contains("ERROR:")).unwrap_or("").to_string();
                let class = if log.contains("panicked at") { "panic" } else if log.contains("timeout") { "timeout" } else if log.contains("out-of-memory") || log.contains("malloc limit") { "oom" } else { "sanitizer" };
                if class == "timeout" {
                    run.inconclusive(format!("fuzz target {target}: libFuzzer timeout artifact ({found:?}) — wall-clock, needs a solo CPU re-run"));
                } else {
                    run.violation(&format!("fuzz:{target}|any|{class}|{}", sanitize(&what.chars().filter(|c| !c.is_ascii_digit()).take(80).collect::<String>())), &format!("libFuzzer {target}: {what}"), json!({"artifacts": found, "dir": artifacts}));
                }
                detail.push(json!({"target": target, "ran": true, "finding": what}));
            }
            _ => {
                run.inconclusive(format!("fuzz target {target} could not be built/run (see log in scratch; cargo-fuzz offline build)"));
                detail.push(json!({"target": target, "ran": false}));
            }
        }
    }
    run.engine("fuzz", detail.iter().any(|d| d["ran"] == true), json!(detail));
}
