//! Helpers for the I/O-behaviour monitors (C11, C35, C10): one configurable stream shim
//! (pass-through counting / short reads+writes / fault at the k-th call), an order-insensitive
//! report canonicaliser, and a process-wide counting allocator (installed only by binaries that
//! declare it as `#[global_allocator]`).
use crate::report::{self, Outcome};
use crate::rng::Rng;
use c2pa::{Context, Reader};
use serde_json::{Map, Value};
use std::io::{self, Read, Seek, SeekFrom, Write};

// ------------------------------------------------------------------------------------------------
// report canonicalisation

/// Rebuilds every JSON object with its keys in sorted order.  `Reader::json()` serialises some
/// HashMap-backed maps, so member order varies from run to run; JSON objects are unordered, so the
/// "same report" oracle must not see that.
pub fn canon(v: &Value) -> Value {
    match v {
        Value::Object(m) => {
            let mut keys: Vec<&String> = m.keys().collect();
            keys.sort();
            let mut out = Map::new();
            for k in keys {
                out.insert(k.clone(), canon(&m[k]));
            }
            Value::Object(out)
        }
        Value::Array(a) => Value::Array(a.iter().map(canon).collect()),
        o => o.clone(),
    }
}

pub fn norm_json(json: &str) -> Value {
    match serde_json::from_str::<Value>(json) {
        Ok(v) => report::norm_report_value(&canon(&v)),
        Err(_) => Value::String(format!("unparseable report: {}", &json[..json.len().min(200)])),
    }
}

/// `report::outcome_of` with the key-order-insensitive normaliser.
pub fn outcome_of(res: c2pa::Result<Reader>) -> Outcome {
    match res {
        Ok(r) => Outcome {
            state: format!("{:?}", r.validation_state()),
            error: None,
            report: norm_json(&r.json()),
            codes: report::codes_of(&r),
        },
        Err(e) => Outcome { state: "Err".into(), error: Some(report::err_kind(&e)), report: Value::Null, codes: vec![] },
    }
}

pub fn panic_outcome(p: String) -> Outcome {
    Outcome { state: "Panic".into(), error: Some(p), report: Value::Null, codes: vec![] }
}

/// Reads `stream` under `hint`; a panic inside the SDK becomes state "Panic".
pub fn read_stream<S: Read + Seek + Send>(ctx: Context, hint: &str, stream: S) -> Outcome {
    match report::catch_sdk(move || outcome_of(Reader::from_context(ctx).with_stream(hint, stream))) {
        Ok(o) => o,
        Err(p) => panic_outcome(p),
    }
}

pub fn read_mem(ctx: Context, hint: &str, bytes: &[u8]) -> Outcome {
    read_stream(ctx, hint, io::Cursor::new(bytes.to_vec()))
}

/// Short outcome class: "Valid" | "Trusted" | "Invalid" | "err:<Kind>" | "panic".
pub fn out_class(o: &Outcome) -> String {
    match o.state.as_str() {
        "Err" => format!("err:{}", o.error.clone().unwrap_or_default()),
        "Panic" => "panic".into(),
        s => s.to_string(),
    }
}

/// First differing component of two outcomes: ok-vs-err | error-kind | state | codes | report.
pub fn differing(a: &Outcome, b: &Outcome) -> Option<&'static str> {
    let bad = |o: &Outcome| o.state == "Err" || o.state == "Panic";
    if bad(a) || bad(b) {
        if a.state != b.state {
            return Some("ok-vs-err");
        }
        if a.error != b.error {
            return Some("error-kind");
        }
        return None;
    }
    if a.state != b.state {
        return Some("state");
    }
    if a.codes != b.codes {
        return Some("codes");
    }
    if a.report != b.report {
        return Some("report");
    }
    None
}

// ------------------------------------------------------------------------------------------------
// stream shim

#[derive(Clone, Copy, Debug, PartialEq, Eq)]
pub enum Op {
    Read = 0,
    Write = 1,
    Seek = 2,
    Flush = 3,
}

impl Op {
    pub const ALL: [Op; 4] = [Op::Read, Op::Write, Op::Seek, Op::Flush];
    pub fn name(&self) -> &'static str {
        match self {
            Op::Read => "read",
            Op::Write => "write",
            Op::Seek => "seek",
            Op::Flush => "flush",
        }
    }
}

#[derive(Clone, Copy, Debug)]
pub enum Mode {
    /// pass through, count only
    Pass,
    /// every read/write moves 1..=max_chunk bytes (seeded); every `interrupt_every`-th call fails
    /// with ErrorKind::Interrupted (0 = never)
    Choppy { max_chunk: usize, interrupt_every: u64 },
    /// the k-th (1-based) call of kind `op` fails with ErrorKind::Other; `sticky`: so does every later
    /// call of that kind
    Fault { op: Op, k: u64, sticky: bool },
}

#[derive(Clone, Debug, Default)]
pub struct ShimLog {
    /// calls per Op (index = Op as usize)
    pub calls: [u64; 4],
    pub bytes_read: u64,
    pub bytes_written: u64,
    pub fired: bool,
    /// stream position (as tracked by the shim) when the fault fired
    pub fired_pos: Option<u64>,
    pub interrupts: u64,
    /// largest absolute position a seek asked for
    pub max_seek: u64,
}

pub struct Shim<S> {
    pub inner: S,
    pub mode: Mode,
    pub log: ShimLog,
    rng: Rng,
    ticks: u64,
    pos: u64,
}

impl<S> Shim<S> {
    pub fn new(inner: S, mode: Mode, seed: u64) -> Self {
        Shim { inner, mode, log: ShimLog::default(), rng: Rng::new(seed, "shim"), ticks: 0, pos: 0 }
    }
    pub fn pass(inner: S) -> Self {
        Shim::new(inner, Mode::Pass, 0)
    }
    fn gate(&mut self, op: Op) -> io::Result<()> {
        self.log.calls[op as usize] += 1;
        match self.mode {
            Mode::Fault { op: fop, k, sticky } if fop == op => {
                if self.log.calls[op as usize] == k || (sticky && self.log.fired) {
                    if !self.log.fired {
                        self.log.fired_pos = Some(self.pos);
                    }
                    self.log.fired = true;
                    return Err(io::Error::new(io::ErrorKind::Other, "injected I/O fault"));
                }
            }
            Mode::Choppy { interrupt_every, .. } if interrupt_every > 0 && matches!(op, Op::Read | Op::Write) => {
                self.ticks += 1;
                if self.ticks % interrupt_every == 0 {
                    self.log.interrupts += 1;
                    return Err(io::Error::new(io::ErrorKind::Interrupted, "injected EINTR"));
                }
            }
            _ => {}
        }
        Ok(())
    }
    fn chunk(&mut self, want: usize) -> usize {
        match self.mode {
            Mode::Choppy { max_chunk, .. } if want > 0 => 1 + self.rng.usize(max_chunk.max(1).min(want)),
            _ => want,
        }
    }
}

impl<S: Read> Read for Shim<S> {
    fn read(&mut self, buf: &mut [u8]) -> io::Result<usize> {
        if buf.is_empty() {
            return self.inner.read(buf);
        }
        self.gate(Op::Read)?;
        let k = self.chunk(buf.len());
        let n = self.inner.read(&mut buf[..k])?;
        self.log.bytes_read += n as u64;
        self.pos += n as u64;
        Ok(n)
    }
}
impl<S: Write> Write for Shim<S> {
    fn write(&mut self, buf: &[u8]) -> io::Result<usize> {
        if buf.is_empty() {
            return self.inner.write(buf);
        }
        self.gate(Op::Write)?;
        let k = self.chunk(buf.len());
        let n = self.inner.write(&buf[..k])?;
        self.log.bytes_written += n as u64;
        self.pos += n as u64;
        Ok(n)
    }
    fn flush(&mut self) -> io::Result<()> {
        self.gate(Op::Flush)?;
        self.inner.flush()
    }
}
impl<S: Seek> Seek for Shim<S> {
    fn seek(&mut self, to: SeekFrom) -> io::Result<u64> {
        self.gate(Op::Seek)?;
        let p = self.inner.seek(to)?;
        self.pos = p;
        if let SeekFrom::Start(s) = to {
            self.log.max_seek = self.log.max_seek.max(s);
        }
        self.log.max_seek = self.log.max_seek.max(p);
        Ok(p)
    }
}

// ------------------------------------------------------------------------------------------------
// counting allocator (C10).  Only active in binaries that install it:
//   #[global_allocator] static A: vmon::iokit::CountingAlloc = vmon::iokit::CountingAlloc;

use std::alloc::{GlobalAlloc, Layout, System};
use std::cell::Cell;
use std::sync::atomic::{AtomicUsize, Ordering};

pub struct CountingAlloc;

static LIVE: AtomicUsize = AtomicUsize::new(0);
static PEAK: AtomicUsize = AtomicUsize::new(0);
static LARGEST: AtomicUsize = AtomicUsize::new(0);
/// Requests at or above this size fail (return null → `handle_alloc_error`/abort, or a graceful
/// error where the caller used `try_reserve`).  usize::MAX = never.
static REFUSE_ABOVE: AtomicUsize = AtomicUsize::new(usize::MAX);

thread_local! {
    static T_LIVE: Cell<isize> = const { Cell::new(0) };
    static T_PEAK: Cell<isize> = const { Cell::new(0) };
    static T_LARGEST: Cell<usize> = const { Cell::new(0) };
}

#[inline]
fn on_alloc(sz: usize) {
    let l = LIVE.fetch_add(sz, Ordering::Relaxed) + sz;
    PEAK.fetch_max(l, Ordering::Relaxed);
    LARGEST.fetch_max(sz, Ordering::Relaxed);
    let _ = T_LIVE.try_with(|c| {
        let v = c.get() + sz as isize;
        c.set(v);
        let _ = T_PEAK.try_with(|p| {
            if v > p.get() {
                p.set(v)
            }
        });
    });
    let _ = T_LARGEST.try_with(|c| {
        if sz > c.get() {
            c.set(sz)
        }
    });
}
#[inline]
fn on_free(sz: usize) {
    LIVE.fetch_sub(sz, Ordering::Relaxed);
    let _ = T_LIVE.try_with(|c| c.set(c.get() - sz as isize));
}

unsafe impl GlobalAlloc for CountingAlloc {
    unsafe fn alloc(&self, l: Layout) -> *mut u8 {
        if l.size() >= REFUSE_ABOVE.load(Ordering::Relaxed) {
            return std::ptr::null_mut();
        }
        let p = System.alloc(l);
        if !p.is_null() {
            on_alloc(l.size());
        }
        p
    }
    unsafe fn alloc_zeroed(&self, l: Layout) -> *mut u8 {
        if l.size() >= REFUSE_ABOVE.load(Ordering::Relaxed) {
            return std::ptr::null_mut();
        }
        let p = System.alloc_zeroed(l);
        if !p.is_null() {
            on_alloc(l.size());
        }
        p
    }
    unsafe fn dealloc(&self, p: *mut u8, l: Layout) {
        System.dealloc(p, l);
        on_free(l.size());
    }
    unsafe fn realloc(&self, p: *mut u8, l: Layout, new: usize) -> *mut u8 {
        if new >= REFUSE_ABOVE.load(Ordering::Relaxed) && new > l.size() {
            return std::ptr::null_mut();
        }
        let q = System.realloc(p, l, new);
        if !q.is_null() {
            on_free(l.size());
            on_alloc(new);
        }
        q
    }
}

/// Per-thread measurement window: resets this thread's peak to its current live count.
pub fn alloc_window_start() -> isize {
    T_LARGEST.with(|c| c.set(0));
    T_LIVE.with(|l| {
        let v = l.get();
        T_PEAK.with(|p| p.set(v));
        v
    })
}
/// (peak live bytes above the window start, largest single request) for this thread since `alloc_window_start`.
pub fn alloc_window_end(start: isize) -> (u64, u64) {
    let peak = T_PEAK.with(|p| p.get());
    ((peak - start).max(0) as u64, T_LARGEST.with(|c| c.get()) as u64)
}
pub fn alloc_global_peak() -> usize {
    PEAK.load(Ordering::Relaxed)
}
pub fn alloc_refuse_above(limit: usize) {
    REFUSE_ABOVE.store(limit, Ordering::Relaxed);
}

/// Process-wide measurement window (use with one case at a time per process): resets the global
/// peak to the current live count and returns the live count.
pub fn alloc_global_window_start() -> usize {
    let l = LIVE.load(Ordering::Relaxed);
    PEAK.store(l, Ordering::Relaxed);
    LARGEST.store(0, Ordering::Relaxed);
    l
}
/// (peak live bytes above `start`, largest single request) since `alloc_global_window_start`.
pub fn alloc_global_window_end(start: usize) -> (u64, u64) {
    (PEAK.load(Ordering::Relaxed).saturating_sub(start) as u64, LARGEST.load(Ordering::Relaxed) as u64)
}
