//! A `c2pa::Signer` with `direct_cose_handling() == true`: it builds the complete COSE_Sign1 itself
//! (coset + openssl), so that certificates the normal signing path refuses (`signing_cert_valid`)
//! — or arbitrary x5chain contents, time-stamp / OCSP headers — can be put into a real manifest.
//!
//! Structure produced (RFC 9052 / C2PA §14): tag 18, protected = {1: alg, 33: x5chain}, unprotected =
//! caller-supplied entries + "pad", payload = nil (detached: the claim bytes), signature over
//! Sig_structure ["Signature1", protected, h'', claim].  The result is exactly `reserve_size()` long.
use crate::pki::{Key, KeyKind, Md};
use c2pa::{Signer, SigningAlg};
use coset::{cbor::value::Value, iana, CoseSign1, CoseSign1Builder, HeaderBuilder, Label, TaggedCborSerializable};
use std::sync::{Arc, Mutex};

#[derive(Clone, Copy, Debug, PartialEq, Eq)]
pub enum CoseAlg {
    Ps256,
    Ps384,
    Ps512,
    Es256,
    Es384,
    Es512,
    EdDsa,
}

impl CoseAlg {
    pub fn for_key(kind: KeyKind) -> CoseAlg {
        match kind {
            KeyKind::Rsa1024 | KeyKind::Rsa2047 | KeyKind::Rsa2048 | KeyKind::Rsa3072 => CoseAlg::Ps256,
            KeyKind::P256 | KeyKind::Secp256k1 | KeyKind::BrainpoolP256r1 => CoseAlg::Es256,
            KeyKind::P384 => CoseAlg::Es384,
            KeyKind::P521 => CoseAlg::Es512,
            KeyKind::Ed25519 => CoseAlg::EdDsa,
        }
    }
    pub fn iana(&self) -> iana::Algorithm {
        match self {
            CoseAlg::Ps256 => iana::Algorithm::PS256,
            CoseAlg::Ps384 => iana::Algorithm::PS384,
            CoseAlg::Ps512 => iana::Algorithm::PS512,
            CoseAlg::Es256 => iana::Algorithm::ES256,
            CoseAlg::Es384 => iana::Algorithm::ES384,
            CoseAlg::Es512 => iana::Algorithm::ES512,
            CoseAlg::EdDsa => iana::Algorithm::EdDSA,
        }
    }
    pub fn signing_alg(&self) -> SigningAlg {
        match self {
            CoseAlg::Ps256 => SigningAlg::Ps256,
            CoseAlg::Ps384 => SigningAlg::Ps384,
            CoseAlg::Ps512 => SigningAlg::Ps512,
            CoseAlg::Es256 => SigningAlg::Es256,
            CoseAlg::Es384 => SigningAlg::Es384,
            CoseAlg::Es512 => SigningAlg::Es512,
            CoseAlg::EdDsa => SigningAlg::Ed25519,
        }
    }
    pub fn md(&self) -> Md {
        match self {
            CoseAlg::Ps256 | CoseAlg::Es256 => Md::Sha256,
            CoseAlg::Ps384 | CoseAlg::Es384 => Md::Sha384,
            _ => Md::Sha512,
        }
    }
    /// Raw signature with `key` in the encoding COSE wants.
    pub fn sign(&self, key: &Key, tbs: &[u8]) -> Vec<u8> {
        match self {
            CoseAlg::Ps256 | CoseAlg::Ps384 | CoseAlg::Ps512 => key.sign_pss(self.md(), tbs),
            CoseAlg::Es256 | CoseAlg::Es384 | CoseAlg::Es512 => key.sign_ecdsa_p1363(self.md(), tbs),
            CoseAlg::EdDsa => key.sign(Md::Sha512, tbs),
        }
    }
}

/// What an unprotected-header callback gets to see (enough to build sigTst / sigTst2 / rVals).
pub struct SignCtx<'a> {
    pub claim_bytes: &'a [u8],
    /// serialized protected header (the bstr contents)
    pub protected: &'a [u8],
    /// the Sig_structure that was signed
    pub tbs: &'a [u8],
    pub signature: &'a [u8],
}

pub type UnprotectedFn = Arc<dyn Fn(&SignCtx) -> Vec<(String, Value)> + Send + Sync>;

pub struct DirectCoseSigner {
    pub key: Arc<Key>,
    pub alg: CoseAlg,
    /// x5chain, end-entity first (DER)
    pub chain: Vec<Vec<u8>>,
    pub reserve: usize,
    /// put x5chain in the unprotected bucket (text label "x5chain") instead of protected label 33
    pub x5chain_unprotected: bool,
    /// extra unprotected entries, computed after signing (sigTst, sigTst2, rVals …)
    pub unprotected: Option<UnprotectedFn>,
    /// last produced COSE bytes (for witnesses)
    pub last: Arc<Mutex<Option<Vec<u8>>>>,
}

impl DirectCoseSigner {
    pub fn new(key: Arc<Key>, chain: Vec<Vec<u8>>) -> DirectCoseSigner {
        let alg = CoseAlg::for_key(key.kind);
        let reserve = 2048 + chain.iter().map(|c| c.len()).sum::<usize>();
        DirectCoseSigner {
            key,
            alg,
            chain,
            reserve,
            x5chain_unprotected: false,
            unprotected: None,
            last: Arc::new(Mutex::new(None)),
        }
    }
    pub fn with_unprotected(mut self, f: UnprotectedFn, extra_reserve: usize) -> Self {
        self.unprotected = Some(f);
        self.reserve += extra_reserve;
        self
    }

    fn x5chain_value(&self) -> Value {
        if self.chain.len() == 1 {
            Value::Bytes(self.chain[0].clone())
        } else {
            Value::Array(self.chain.iter().map(|c| Value::Bytes(c.clone())).collect())
        }
    }

    /// Builds the COSE_Sign1 over `claim_bytes`, padded to exactly `target` bytes (None = unpadded).
    pub fn cose_sign1(&self, claim_bytes: &[u8], target: Option<usize>) -> Result<Vec<u8>, String> {
        let mut ph = HeaderBuilder::new().algorithm(self.alg.iana());
        if !self.x5chain_unprotected {
            ph = ph.value(33, self.x5chain_value());
        }
        let mut sign1: CoseSign1 = CoseSign1Builder::new().protected(ph.build()).build();
        let tbs = coset::sig_structure_data(
            coset::SignatureContext::CoseSign1,
            sign1.protected.clone(),
            None,
            b"",
            claim_bytes,
        );
        sign1.signature = self.alg.sign(&self.key, &tbs);
        if self.x5chain_unprotected {
            sign1.unprotected.rest.push((Label::Text("x5chain".into()), self.x5chain_value()));
        }
        if let Some(f) = &self.unprotected {
            let prot = sign1.protected.clone().cbor_bstr().map_err(|e| e.to_string())?;
            let prot_bytes = match prot {
                Value::Bytes(b) => b,
                _ => Vec::new(),
            };
            let ctx = SignCtx { claim_bytes, protected: &prot_bytes, tbs: &tbs, signature: &sign1.signature };
            for (k, v) in f(&ctx) {
                sign1.unprotected.rest.push((Label::Text(k), v));
            }
        }
        let out = pad_to(&sign1, target)?;
        *self.last.lock().unwrap() = Some(out.clone());
        Ok(out)
    }
}

fn pad_to(sign1: &CoseSign1, target: Option<usize>) -> Result<Vec<u8>, String> {
    let base = sign1.clone().to_tagged_vec().map_err(|e| e.to_string())?;
    let Some(target) = target else { return Ok(base) };
    if base.len() == target {
        return Ok(base);
    }
    if base.len() + 6 > target {
        return Err(format!("reserve too small: need {} have {}", base.len() + 6, target));
    }
    // one "pad" entry; if its length header makes the exact size unreachable add a small "pad2"
    for pad2 in [None, Some(0usize), Some(1), Some(2), Some(3)] {
        let room = target - base.len();
        let lo = room.saturating_sub(16);
        for l in lo..=room {
            let mut s = sign1.clone();
            s.unprotected.rest.push((Label::Text("pad".into()), Value::Bytes(vec![0u8; l])));
            if let Some(p2) = pad2 {
                s.unprotected.rest.push((Label::Text("pad2".into()), Value::Bytes(vec![0u8; p2])));
            }
            let v = s.to_tagged_vec().map_err(|e| e.to_string())?;
            if v.len() == target {
                return Ok(v);
            }
            if v.len() > target {
                break;
            }
        }
    }
    Err("could not pad to the exact reserve size".into())
}

impl Signer for DirectCoseSigner {
    fn sign(&self, data: &[u8]) -> c2pa::Result<Vec<u8>> {
        self.cose_sign1(data, Some(self.reserve)).map_err(c2pa::Error::BadParam)
    }
    fn alg(&self) -> SigningAlg {
        self.alg.signing_alg()
    }
    fn certs(&self) -> c2pa::Result<Vec<Vec<u8>>> {
        Ok(self.chain.clone())
    }
    fn reserve_size(&self) -> usize {
        self.reserve
    }
    fn direct_cose_handling(&self) -> bool {
        true
    }
}

/// Signs `asset` (format hint `format`) with `signer` through the public Builder; post-sign
/// verification is off (the point is to embed credentials the SDK would refuse) and so are thumbnails.
pub fn sign_asset(signer: &dyn Signer, format: &str, asset: &[u8]) -> Result<Vec<u8>, String> {
    let settings = serde_json::json!({
        "verify": {"verify_after_sign": false, "verify_trust": false},
        "builder": {"thumbnail": {"enabled": false}}
    });
    let ctx = c2pa::Context::new().with_settings(settings.to_string().as_str()).map_err(|e| format!("{e:?}"))?;
    let mut b = c2pa::Builder::from_context(ctx)
        .with_definition(serde_json::json!({"title": "verif", "assertions": [{"label": "org.verif.test", "data": {"k": 1}}]}))
        .map_err(|e| format!("{e:?}"))?;
    b.set_intent(c2pa::BuilderIntent::Edit);
    let mut src = std::io::Cursor::new(asset.to_vec());
    let mut dst = std::io::Cursor::new(Vec::new());
    b.sign(signer, format, &mut src, &mut dst).map_err(|e| format!("{e:?}"))?;
    Ok(dst.into_inner())
}
