//! Independent per-format container parsers, written by hand from the format specifications.
//!
//! Nothing in here uses SDK code or the container crates the SDK itself relies on (img-parts, riff,
//! id3, quick-xml, mp4 …).  Every parser answers three questions about a byte string:
//!   1. is it a well-formed file of that format (chunk CRCs, sizes, padding, sequence numbers …),
//!   2. what are its structural elements (`Elem`), which of them carry C2PA data,
//!   3. where is the manifest container and which bytes does the store consist of.
//! On top of that `media_sig` gives the format-specific "media content" view used by C09.
pub mod bmff;
pub mod gif;
pub mod id3;
pub mod jpeg;
pub mod jxl;
pub mod png;
pub mod riff;
pub mod svg;
pub mod tiff;

use sha2::{Digest, Sha256};

/// One structural element of a file (segment, chunk, block, box, IFD …).
#[derive(Clone, Debug, PartialEq, Eq)]
pub struct Elem {
    pub kind: String,
    pub start: usize,
    pub len: usize,
    /// payload range (start, len) inside the file (without the element's own header/CRC/padding)
    pub pay_start: usize,
    pub pay_len: usize,
    pub is_c2pa: bool,
}

impl Elem {
    pub fn new(kind: impl Into<String>, start: usize, len: usize, pay_start: usize, pay_len: usize) -> Elem {
        Elem { kind: kind.into(), start, len, pay_start, pay_len, is_c2pa: false }
    }
    pub fn end(&self) -> usize {
        self.start + self.len
    }
    pub fn bytes<'a>(&self, data: &'a [u8]) -> &'a [u8] {
        &data[self.start..self.start + self.len]
    }
    pub fn payload<'a>(&self, data: &'a [u8]) -> &'a [u8] {
        &data[self.pay_start..self.pay_start + self.pay_len]
    }
}

/// A manifest container as located by the independent parser.
#[derive(Clone, Debug, PartialEq, Eq)]
pub struct Container {
    /// byte ranges (start, len) of the container elements (one per JPEG APP11 segment, one chunk, one box …)
    pub ranges: Vec<(usize, usize)>,
    /// the store bytes, re-assembled/decoded by the independent parser
    pub store: Vec<u8>,
    /// where the store bytes live in the file, in order; when `encoded` the ranges hold an encoding
    /// (base64, unsynchronised) of the store rather than the bytes themselves
    pub store_ranges: Vec<(usize, usize)>,
    pub encoded: bool,
    /// e.g. BMFF purpose ("manifest" / "original" / "update")
    pub label: String,
}

impl Container {
    pub fn start(&self) -> usize {
        self.ranges.iter().map(|r| r.0).min().unwrap_or(0)
    }
    pub fn end(&self) -> usize {
        self.ranges.iter().map(|r| r.0 + r.1).max().unwrap_or(0)
    }
}

#[derive(Clone, Debug, Default)]
pub struct Parsed {
    pub family: &'static str,
    /// file-order elements; for the sequential formats (jpeg png gif riff id3 flac jxl bmff c2pa) they are
    /// contiguous and cover the whole file; for tiff/svg they are the referenced regions/tokens
    pub elems: Vec<Elem>,
    pub containers: Vec<Container>,
    /// non-fatal remarks (things a strict reader might dislike but the spec tolerates)
    pub notes: Vec<String>,
}

impl Parsed {
    pub fn has_c2pa(&self) -> bool {
        !self.containers.is_empty() || self.elems.iter().any(|e| e.is_c2pa)
    }
    /// Elements must tile [0, len) exactly (sequential formats).
    pub fn check_tiling(&self, len: usize) -> Result<(), String> {
        let mut pos = 0usize;
        for e in &self.elems {
            if e.start != pos {
                return Err(format!("element {} starts at {} but previous ended at {}", e.kind, e.start, pos));
            }
            if e.pay_start < e.start || e.pay_start + e.pay_len > e.start + e.len {
                return Err(format!("element {} payload outside element", e.kind));
            }
            pos = e.start + e.len;
        }
        if pos != len {
            return Err(format!("elements end at {pos}, file length {len}"));
        }
        Ok(())
    }
}

pub fn sha(b: &[u8]) -> String {
    hex::encode(&Sha256::digest(b)[..12])
}

/// Container family of an SDK format hint (extension or mime type).
pub fn family(fmt: &str) -> Option<&'static str> {
    let f = fmt.to_ascii_lowercase();
    Some(match f.as_str() {
        "jpg" | "jpeg" | "image/jpeg" => "jpeg",
        "png" | "image/png" => "png",
        "gif" | "image/gif" => "gif",
        "wav" | "webp" | "avi" | "image/webp" | "audio/wav" | "audio/wave" | "audio/x-wav" | "audio/vnd.wave" | "video/avi" | "video/msvideo" | "video/x-msvideo" | "application/x-troff-msvideo" => "riff",
        "tif" | "tiff" | "dng" | "image/tiff" | "image/x-adobe-dng" | "image/dng" | "arw" | "nef" => "tiff",
        "svg" | "image/svg+xml" | "xhtml" | "xml" => "svg",
        "mp3" | "audio/mpeg" => "mp3",
        "flac" | "audio/flac" => "flac",
        "jxl" | "image/jxl" => "jxl",
        "mp4" | "mov" | "m4a" | "m4v" | "heic" | "heif" | "avif" | "video/mp4" | "audio/mp4" | "video/quicktime" | "image/heic" | "image/heif" | "image/avif" | "application/mp4" => "bmff",
        "c2pa" | "application/c2pa" | "application/x-c2pa-manifest-store" => "c2pa",
        _ => return None,
    })
}

/// Parses `data` as a file of the family of `fmt`.  Err(..) = not well-formed (with the reason).
pub fn parse(fmt: &str, data: &[u8]) -> Result<Parsed, String> {
    let fam = family(fmt).ok_or_else(|| format!("no independent parser for {fmt}"))?;
    let mut p = match fam {
        "jpeg" => jpeg::parse(data)?,
        "png" => png::parse(data)?,
        "gif" => gif::parse(data)?,
        "riff" => riff::parse(data)?,
        "tiff" => tiff::parse(data)?,
        "svg" => svg::parse(data)?,
        "mp3" => id3::parse(data, false)?,
        "flac" => id3::parse(data, true)?,
        "jxl" => jxl::parse(data)?,
        "bmff" => bmff::parse(data)?,
        "c2pa" => {
            let mut e = Elem::new("c2pa-store", 0, data.len(), 0, data.len());
            e.is_c2pa = true;
            let mut p = Parsed { elems: vec![e], ..Default::default() };
            if !data.is_empty() {
                p.containers.push(Container { ranges: vec![(0, data.len())], store: data.to_vec(), store_ranges: vec![(0, data.len())], encoded: false, label: "sidecar".into() });
            }
            p
        }
        _ => unreachable!(),
    };
    p.family = fam;
    if !matches!(fam, "tiff" | "svg") {
        p.check_tiling(data.len())?;
    }
    Ok(p)
}

/// The "media content" of a file for C09: a sequence of (element-class, digest/hex) entries computed
/// by the independent parser, with every C2PA element left out and every absolute offset stored in
/// the container replaced by (a digest of) the bytes it addresses.
pub fn media_sig(fmt: &str, data: &[u8]) -> Result<Vec<(String, String)>, String> {
    let fam = family(fmt).ok_or_else(|| format!("no independent parser for {fmt}"))?;
    match fam {
        "riff" => riff::media_sig(data),
        "tiff" => tiff::media_sig(data),
        "svg" => svg::media_sig(data),
        "mp3" => id3::media_sig(data, false),
        "flac" => id3::media_sig(data, true),
        "bmff" => bmff::media_sig(data),
        _ => {
            let p = parse(fmt, data)?;
            Ok(p.elems.iter().filter(|e| !e.is_c2pa).map(|e| (e.kind.clone(), sha(e.bytes(data)))).collect())
        }
    }
}

// ---------------------------------------------------------------------------------------------
// small shared helpers

pub(crate) fn be16(b: &[u8], o: usize) -> Option<u16> {
    b.get(o..o.checked_add(2)?).map(|s| u16::from_be_bytes([s[0], s[1]]))
}
pub(crate) fn be32(b: &[u8], o: usize) -> Option<u32> {
    b.get(o..o.checked_add(4)?).map(|s| u32::from_be_bytes([s[0], s[1], s[2], s[3]]))
}
pub(crate) fn be64(b: &[u8], o: usize) -> Option<u64> {
    b.get(o..o.checked_add(8)?).map(|s| u64::from_be_bytes([s[0], s[1], s[2], s[3], s[4], s[5], s[6], s[7]]))
}
pub(crate) fn le32(b: &[u8], o: usize) -> Option<u32> {
    b.get(o..o.checked_add(4)?).map(|s| u32::from_le_bytes([s[0], s[1], s[2], s[3]]))
}

/// The C2PA manifest-store JUMBF description: type UUID 63327061-0011-0010-8000-00AA00389B71.
pub const C2PA_JUMD_UUID: [u8; 16] = [0x63, 0x32, 0x70, 0x61, 0x00, 0x11, 0x00, 0x10, 0x80, 0x00, 0x00, 0xAA, 0x00, 0x38, 0x9B, 0x71];

/// True if `b` (a whole JUMBF box starting with LBox/TBox) is a `jumb` superbox whose first child is
/// a `jumd` with the C2PA manifest-store UUID.  `payload_only` = `b` starts at the superbox payload.
pub fn is_c2pa_superbox(b: &[u8], payload_only: bool) -> bool {
    let p = if payload_only {
        b
    } else {
        if b.len() < 8 || &b[4..8] != b"jumb" {
            return false;
        }
        let hdr = if be32(b, 0) == Some(1) { 16 } else { 8 };
        match b.get(hdr..) {
            Some(p) => p,
            None => return false,
        }
    };
    p.len() >= 24 && &p[4..8] == b"jumd" && p[8..24] == C2PA_JUMD_UUID
}

/// CRC-32 (IEEE 802.3, reflected, as used by PNG) — own table-less implementation.
pub fn crc32(parts: &[&[u8]]) -> u32 {
    let mut c: u32 = 0xFFFF_FFFF;
    for p in parts {
        for &b in *p {
            c ^= b as u32;
            for _ in 0..8 {
                c = if c & 1 != 0 { (c >> 1) ^ 0xEDB8_8320 } else { c >> 1 };
            }
        }
    }
    !c
}

/// Strict RFC 4648 base64 decoder (padding required, no whitespace tolerated unless `allow_ws`).
pub fn base64_decode_strict(s: &[u8], allow_ws: bool) -> Result<Vec<u8>, String> {
    let mut vals: Vec<u8> = Vec::with_capacity(s.len());
    let mut pad = 0usize;
    for &c in s {
        let v = match c {
            b'A'..=b'Z' => c - b'A',
            b'a'..=b'z' => c - b'a' + 26,
            b'0'..=b'9' => c - b'0' + 52,
            b'+' => 62,
            b'/' => 63,
            b'=' => {
                pad += 1;
                continue;
            }
            b' ' | b'\n' | b'\r' | b'\t' if allow_ws => continue,
            _ => return Err(format!("invalid base64 character 0x{c:02x}")),
        };
        if pad > 0 {
            return Err("base64 data after padding".into());
        }
        vals.push(v);
    }
    if pad > 2 || (vals.len() + pad) % 4 != 0 {
        return Err(format!("base64 length/padding wrong ({} symbols, {} pad)", vals.len(), pad));
    }
    let mut out = Vec::with_capacity(vals.len() * 3 / 4);
    for q in vals.chunks(4) {
        match q.len() {
            4 => {
                out.push(q[0] << 2 | q[1] >> 4);
                out.push(q[1] << 4 | q[2] >> 2);
                out.push(q[2] << 6 | q[3]);
            }
            3 => {
                if pad != 1 || q[2] & 0x03 != 0 {
                    return Err("base64 non-canonical tail".into());
                }
                out.push(q[0] << 2 | q[1] >> 4);
                out.push(q[1] << 4 | q[2] >> 2);
            }
            2 => {
                if pad != 2 || q[1] & 0x0F != 0 {
                    return Err("base64 non-canonical tail".into());
                }
                out.push(q[0] << 2 | q[1] >> 4);
            }
            _ => return Err("base64 truncated".into()),
        }
    }
    Ok(out)
}

/// Interval helper: true if [a0,a0+al) ⊆ [b0,b0+bl).
pub fn within(a: (usize, usize), b: (usize, usize)) -> bool {
    a.0 >= b.0 && a.0 + a.1 <= b.0 + b.1
}
pub fn overlaps(a: (usize, usize), b: (usize, usize)) -> bool {
    a.1 > 0 && b.1 > 0 && a.0 < b.0 + b.1 && b.0 < a.0 + a.1
}
