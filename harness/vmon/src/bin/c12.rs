//! C12 — hash-binding layout maps are ordered, disjoint and cover the file.
//!
//! Drives the hooks `verif_hooks::box_map` (AssetBoxHash::get_box_map) and
//! `verif_hooks::object_locations` on every box-hash-capable format (discovered at run time through
//! `verif_hooks::capabilities`): JPEG (restart markers, trailing bytes after EOI, several images,
//! foreign APP11), PNG (data after IEND, private chunks), GIF (every extension kind, trailing bytes),
//! JPEG XL, sidecar — with and without manifest — plus structure-aware mutants of those files that
//! the handler still accepts.  Oracle = interval algebra written from the statement: entries ordered
//! by offset, pairwise disjoint, inside the file, and every byte of the file covered except bytes of
//! the manifest container (located by the independent parser).  The `Cai` region must lie inside the
//! file and must not overlap any non-`Cai` region.
use serde_json::json;
use vmon::assets::Asset;
use vmon::embedkit as kit;
use vmon::{assets, fmt, par, Rng, Run};

#[derive(Clone)]
struct Item {
    name: String,
    format: &'static str,
    /// "base" | "manifest" | "mutant:<kind>"
    variant: String,
    bytes: Vec<u8>,
}

#[derive(Default)]
struct Res {
    evals: u64,
    classes: Vec<String>,
    counters: Vec<(String, u64)>,
    violations: Vec<(String, String)>,
    map_sample: Option<serde_json::Value>,
}

/// Element class of the independent parser at `pos` (for signatures): "ECS", "trailing", "IDAT"…
fn elem_at(p: &Option<fmt::Parsed>, pos: usize) -> String {
    match p {
        Some(p) => p
            .elems
            .iter()
            .find(|e| e.start <= pos && pos < e.start + e.len)
            .map(|e| {
                let k = &e.kind;
                if e.is_c2pa {
                    "c2pa-container".to_string()
                } else if p.family == "jpeg" && k.len() == 3 && k.starts_with('M') && k[1..].chars().all(|c| c.is_ascii_hexdigit()) {
                    "unknown-marker".to_string()
                } else {
                    k.chars().filter(|c| !c.is_ascii_digit()).collect()
                }
            })
            .unwrap_or_else(|| "unparsed".into()),
        None => "unparsed".into(),
    }
}

fn name_class(names: &[String]) -> String {
    names.first().map(|n| if n == "C2PA" { n.clone() } else { n.chars().filter(|c| !c.is_ascii_digit()).collect::<String>() }).unwrap_or_else(|| "?".into())
}

fn run_item(it: &Item) -> Res {
    let mut r = Res::default();
    let fam = fmt::family(it.format).unwrap_or("?");
    let n = it.bytes.len() as u64;
    let parsed = fmt::parse(it.format, &it.bytes).ok();
    let vclass = it.variant.split(':').next().unwrap_or("");
    // ---------------- box map
    match kit::box_map(it.format, &it.bytes) {
        Err(e) if kit::is_panic(&e) => r.violations.push((format!("{fam}|panic-in-get_box_map"), e)),
        Err(e) => {
            if vclass == "mutant" {
                r.counters.push((format!("trivial:mutant-rejected:{fam}"), 1));
            } else if parsed.is_some() {
                r.violations.push((format!("{fam}|box-map-error:{e}|{}", it.name), format!("get_box_map failed on a valid {vclass} asset: {e}")));
            } else {
                r.counters.push((format!("trivial:asset-rejected:{fam}:{e}"), 1));
            }
        }
        Ok(None) => r.counters.push((format!("trivial:no-box-hash-support:{fam}"), 1)),
        Ok(Some(map)) => {
            r.evals += 1;
            r.map_sample = Some(json!({"asset": it.name, "variant": it.variant, "len": n, "map": map.iter().map(|m| json!([m.0, m.1, m.2, m.3])).collect::<Vec<_>>() }));
            let mut bad = false;
            // inside the file
            for (names, s, l, _) in &map {
                if s.checked_add(*l).map(|e| e > n).unwrap_or(true) {
                    r.violations.push((format!("{fam}|entry-outside-file|{}", name_class(names)), format!("{}: entry {:?} {s}+{l} exceeds the file length {n}", it.variant, names)));
                    bad = true;
                    break;
                }
            }
            // ordered + disjoint (as listed)
            if !bad {
                for w in map.windows(2) {
                    let (a, b) = (&w[0], &w[1]);
                    if b.1 < a.1 {
                        r.violations.push((format!("{fam}|unsorted|{}>{}", name_class(&a.0), name_class(&b.0)), format!("{}: entry {:?}@{} listed before {:?}@{}", it.variant, a.0, a.1, b.0, b.1)));
                        bad = true;
                        break;
                    }
                    if a.1 + a.2 > b.1 && a.2 > 0 && b.2 > 0 {
                        let (na, nb) = (name_class(&a.0), name_class(&b.0));
                        let pair = if na == "C2PA" || nb == "C2PA" { "C2PA+other".to_string() } else { format!("{na}+{nb}") };
                        r.violations.push((format!("{fam}|overlap|{pair}"), format!("{}: entry {:?} {}+{} overlaps {:?} {}+{} (independent parser: byte {} is in {})", it.variant, a.0, a.1, a.2, b.0, b.1, b.2, b.1, elem_at(&parsed, b.1 as usize))));
                        bad = true;
                        break;
                    }
                }
            }
            // coverage
            if !bad {
                let mut iv: Vec<(u64, u64)> = map.iter().filter(|m| m.2 > 0).map(|m| (m.1, m.1 + m.2)).collect();
                iv.sort();
                let mut gaps: Vec<(u64, u64)> = Vec::new();
                let mut pos = 0u64;
                for (s, e) in iv {
                    if s > pos {
                        gaps.push((pos, s));
                    }
                    pos = pos.max(e);
                }
                if pos < n {
                    gaps.push((pos, n));
                }
                let containers: Vec<(usize, usize)> = parsed.as_ref().map(|p| p.containers.iter().flat_map(|c| c.ranges.clone()).collect()).unwrap_or_default();
                for (gs, ge) in gaps {
                    let inside = containers.iter().any(|c| fmt::within((gs as usize, (ge - gs) as usize), *c));
                    if inside {
                        continue;
                    }
                    if parsed.is_none() {
                        r.counters.push((format!("unjudged:gap-in-file-the-independent-parser-rejects:{fam}"), 1));
                        bad = true;
                        break;
                    }
                    let gap = &it.bytes[gs as usize..ge as usize];
                    let at_elem_start = parsed.as_ref().map(|p| p.elems.iter().any(|e| e.start == gs as usize)).unwrap_or(false);
                    let here = elem_at(&parsed, gs as usize);
                    let cls = if fam == "jpeg" && at_elem_start && gap.iter().all(|b| *b == 0xFF) {
                        "fill-bytes-before-marker".to_string()
                    } else if fam == "jpeg" && ge == n && at_elem_start && here != "trailing" && here != "EOI" {
                        // the list simply ends at a segment the handler's reader gave up on, and get_box_map still returns Ok
                        "map-stops-at-unreadable-segment".to_string()
                    } else {
                        here
                    };
                    r.violations.push((format!("{fam}|uncovered|{cls}"), format!("{}: bytes {gs}..{ge} of {n} belong to no entry and are not part of the manifest container (independent parser: {})", it.variant, elem_at(&parsed, gs as usize))));
                    bad = true;
                    break;
                }
            }
            if !bad {
                let has_c2pa = map.iter().any(|m| m.0.iter().any(|x| x == "C2PA"));
                r.classes.push(format!("{fam}|{}|boxmap-ok|entries={}|c2pa-entry={}|parser={}", it.variant, bucket(map.len()), has_c2pa, if parsed.is_some() { "accepts" } else { "rejects" }));
            }
        }
    }
    // ---------------- data-hash regions (only meaningful when the file already holds a manifest:
    // otherwise the handler reports positions inside a modified copy of the stream)
    let has_manifest = parsed.as_ref().map(|p| p.containers.len() == 1).unwrap_or(false);
    // ... and only when the handler's own reader finds that manifest: get_object_locations_from_stream and
    // read_cai share one parser per format, and when that parser sees no manifest (a hostile mutant it reads
    // differently from the independent parser) the reported Cai is the placeholder of the modified copy again
    let sdk_sees_manifest = has_manifest && kit::load(it.format, &it.bytes, true).is_ok();
    if has_manifest && !sdk_sees_manifest {
        r.counters.push((format!("unjudged:handler-reader-sees-no-manifest:{fam}"), 1));
    }
    if sdk_sees_manifest && kit::box_map(it.format, &it.bytes).map(|m| m.is_some()).unwrap_or(false) {
        match kit::locations(it.format, &it.bytes) {
            Err(e) if kit::is_panic(&e) => r.violations.push((format!("{fam}|panic-in-object-locations"), e)),
            Err(e) => r.counters.push((format!("unjudged:object-locations-error:{fam}:{e}"), 1)),
            Ok(locs) => {
                r.evals += 1;
                let cai: Vec<(usize, usize)> = locs.iter().filter(|l| l.2 == "Cai").map(|l| (l.0, l.1)).collect();
                let mut bad = false;
                for c in &cai {
                    if c.0.checked_add(c.1).map(|e| e > it.bytes.len()).unwrap_or(true) {
                        r.violations.push((format!("{fam}|cai-outside-file"), format!("{}: Cai {}+{} exceeds the file length {}", it.variant, c.0, c.1, it.bytes.len())));
                        bad = true;
                    }
                    // "never overlaps a non-manifest region": judged against the independent parser's elements too
                    if let Some(p) = &parsed {
                        let in_container = |e: &fmt::Elem| p.containers.iter().any(|ct| ct.ranges.iter().any(|rg| fmt::within((e.start, e.len), *rg)));
                        if let Some(e) = p.elems.iter().find(|e| !e.is_c2pa && e.len > 0 && !in_container(e) && fmt::within((e.start, e.len), *c)) {
                            r.violations.push((format!("{fam}|cai-covers-non-manifest-element"), format!("{}: Cai {}+{} covers the whole non-manifest element {} at {}+{}", it.variant, c.0, c.1, e.kind, e.start, e.len)));
                            bad = true;
                        }
                    }
                    for (o, l, k) in &locs {
                        if k != "Cai" && fmt::overlaps((*o, *l), *c) {
                            r.violations.push((format!("{fam}|cai-overlaps:{k}"), format!("{}: Cai {}+{} overlaps {k} {o}+{l}", it.variant, c.0, c.1)));
                            bad = true;
                        }
                    }
                }
                if cai.is_empty() {
                    r.counters.push((format!("unjudged:no-cai-region-reported:{fam}"), 1));
                } else if !bad {
                    r.classes.push(format!("{fam}|{}|cai-ok|regions={}", it.variant, bucket(locs.len())));
                }
            }
        }
    }
    r
}

fn bucket(n: usize) -> &'static str {
    match n {
        0 => "0",
        1 => "1",
        2..=4 => "2-4",
        5..=9 => "5-9",
        10..=19 => "10-19",
        _ => "20+",
    }
}

/// Structure-aware mutants built from the independent parser's element list.
fn mutants(a: &Item, rng: &mut Rng, per_kind: usize) -> Vec<Item> {
    let mut out = Vec::new();
    let Ok(p) = fmt::parse(a.format, &a.bytes) else {
        return out;
    };
    let fam = fmt::family(a.format).unwrap_or("?");
    let el = &p.elems;
    let mk = |kind: &str, bytes: Vec<u8>| Item { name: a.name.clone(), format: a.format, variant: format!("mutant:{kind}:{}", a.variant), bytes };
    for _ in 0..per_kind {
        // duplicate an element
        let i = rng.usize(el.len());
        let mut b = a.bytes[..el[i].end()].to_vec();
        b.extend_from_slice(el[i].bytes(&a.bytes));
        b.extend_from_slice(&a.bytes[el[i].end()..]);
        out.push(mk("dup-element", b));
        // delete an element
        let i = rng.usize(el.len());
        let mut b = a.bytes[..el[i].start].to_vec();
        b.extend_from_slice(&a.bytes[el[i].end()..]);
        out.push(mk("del-element", b));
        // swap two adjacent elements
        if el.len() > 2 {
            let i = rng.usize(el.len() - 1);
            let mut b = a.bytes[..el[i].start].to_vec();
            b.extend_from_slice(el[i + 1].bytes(&a.bytes));
            b.extend_from_slice(el[i].bytes(&a.bytes));
            b.extend_from_slice(&a.bytes[el[i + 1].end()..]);
            out.push(mk("swap-elements", b));
        }
        // trailing bytes
        let mut b = a.bytes.clone();
        let k = 1 + rng.usize(40);
        b.extend(rng.bytes(k));
        out.push(mk("append-bytes", b));
        // truncate at an element boundary / inside an element
        let i = rng.usize(el.len());
        out.push(mk("truncate-at-boundary", a.bytes[..el[i].start.max(4)].to_vec()));
        let cut = el[i].start + rng.usize(el[i].len.max(1));
        out.push(mk("truncate-inside", a.bytes[..cut.max(4)].to_vec()));
        // flip a byte in an element header (length/type fields live there)
        let i = rng.usize(el.len());
        let hdr = el[i].pay_start.saturating_sub(el[i].start).max(1).min(el[i].len.max(1));
        let mut b = a.bytes.clone();
        let pos = (el[i].start + rng.usize(hdr)).min(b.len() - 1);
        b[pos] ^= 1 << rng.below(8);
        out.push(mk("flip-header-bit", b));
        // format specific insertions
        match fam {
            "jpeg" => {
                // fill bytes before a marker, extra COM segment, APP11 of another box instance, stray RST
                let i = rng.usize(el.len());
                let at = el[i].start;
                if el[i].kind != "ECS" && el[i].kind != "trailing" {
                    let mut b = a.bytes[..at].to_vec();
                    b.extend(std::iter::repeat(0xFF).take(1 + rng.usize(3)));
                    b.extend_from_slice(&a.bytes[at..]);
                    out.push(mk("jpeg-fill-bytes", b));
                    let mut b = a.bytes[..at].to_vec();
                    if at >= 2 {
                        b.extend_from_slice(&[0xFF, 0xFE, 0, 6, b'v', b'r', b'f', b'y']);
                    }
                    b.extend_from_slice(&a.bytes[at..]);
                    out.push(mk("jpeg-insert-com", b));
                    let mut b = a.bytes[..at].to_vec();
                    if at >= 2 {
                        b.extend_from_slice(&[0xFF, 0xD0 + rng.below(8) as u8]);
                    }
                    b.extend_from_slice(&a.bytes[at..]);
                    out.push(mk("jpeg-stray-rst", b));
                }
                // 0xFF 0x00 and RST inside the entropy data
                if let Some(e) = el.iter().find(|e| e.kind == "ECS") {
                    let mut at = e.start + rng.usize(e.len.max(1));
                    // never split an existing FF xx pair
                    while at > e.start && a.bytes[at - 1] == 0xFF {
                        at -= 1;
                    }
                    let mut b = a.bytes[..at].to_vec();
                    b.extend_from_slice(&[0xFF, 0x00, 0xFF, 0xD3, 0x11]);
                    b.extend_from_slice(&a.bytes[at..]);
                    out.push(mk("jpeg-ecs-stuffing", b));
                }
            }
            "png" => {
                let i = 1 + rng.usize(el.len() - 1);
                let at = el[i].start;
                let typ = *rng.pick(&[b"vrFy", b"tEXt", b"IDAT", b"caBX"]);
                let k = rng.usize(30);
                let data = rng.bytes(k);
                let mut c = (data.len() as u32).to_be_bytes().to_vec();
                c.extend_from_slice(typ);
                c.extend_from_slice(&data);
                c.extend_from_slice(&fmt::crc32(&[typ, &data]).to_be_bytes());
                let mut b = a.bytes[..at].to_vec();
                b.extend(c);
                b.extend_from_slice(&a.bytes[at..]);
                out.push(mk(&format!("png-insert-{}", String::from_utf8_lossy(typ)), b));
            }
            "gif" => {
                let cands: Vec<usize> = (0..el.len()).filter(|i| el[*i].start >= 13 && el[*i].kind != "GCT" && el[*i].kind != "trailing").collect();
                if !cands.is_empty() {
                    let at = el[*rng.pick(&cands)].start;
                    let ext: Vec<u8> = match rng.below(4) {
                        0 => vec![0x21, 0xFE, 3, b'a', b'b', b'c', 0],
                        1 => vec![0x21, 0xF9, 4, 0, 1, 0, 0, 0],
                        2 => {
                            let mut v = vec![0x21, 0xFF, 11];
                            v.extend_from_slice(b"XMP DataXMP");
                            v.extend_from_slice(&[2, b'<', b'>', 0]);
                            v
                        }
                        _ => vec![0x21, 0x01, 12, 0, 0, 0, 0, 1, 0, 1, 0, 1, 1, 0, 0x3B, 0],
                    };
                    let mut b = a.bytes[..at].to_vec();
                    b.extend(ext);
                    b.extend_from_slice(&a.bytes[at..]);
                    out.push(mk("gif-insert-extension", b));
                }
            }
            "jxl" => {
                let i = 2.min(el.len() - 1) + rng.usize(el.len() - 2.min(el.len() - 1));
                let at = el[i].start;
                let typ = *rng.pick(&[b"Exif", b"xml ", b"jumb", b"free"]);
                let k = rng.usize(40);
                let data = rng.bytes(k);
                let mut c = ((data.len() + 8) as u32).to_be_bytes().to_vec();
                c.extend_from_slice(typ);
                c.extend_from_slice(&data);
                let mut b = a.bytes[..at].to_vec();
                b.extend(c);
                b.extend_from_slice(&a.bytes[at..]);
                out.push(mk(&format!("jxl-insert-{}", String::from_utf8_lossy(typ).trim()), b));
                // last box with size 0 (to end of file)
                if let Some(last) = el.last() {
                    if last.start + 4 <= a.bytes.len() && last.pay_start == last.start + 8 {
                        let mut b = a.bytes.clone();
                        b[last.start..last.start + 4].copy_from_slice(&[0, 0, 0, 0]);
                        out.push(mk("jxl-last-box-size0", b));
                    }
                }
            }
            _ => {}
        }
    }
    out
}

fn main() {
    let mut run = Run::from_args("C12", "exploration");
    vmon::report::quiet_panics();
    run.rule = "item = (asset of a box-hash-capable format, variant base | manifest (dummy store embedded by the SDK, several sizes) | structure-aware mutant built from the independent parser's element list). An item is non-trivial when get_box_map returned Ok and every clause was evaluated; distinct = (family, variant incl. mutation kind, outcome, entry-count bucket, C2PA entry present, independent parser verdict).".into();
    run.assumptions = vec![
        "the manifest container is the byte range the independent parser attributes to C2PA (all APP11 segments of the C2PA box instance, the caBX chunk, the C2PA_GIF extension, the c2pa jumb box, the whole sidecar)".into(),
        "zero-length entries are ignored for the overlap and coverage clauses; entries with equal offsets count as ordered".into(),
        "a gap in a mutant that the independent parser rejects is counted as unjudged (the container cannot be located independently)".into(),
        "Cai/data-hash regions are judged only on files that already hold exactly one manifest: without one the handler reports positions in a modified copy of the stream".into(),
    ];
    let mut rng = Rng::new(run.seed, "c12");
    // capability discovery
    let mut caps = serde_json::Map::new();
    for f in ["jpg", "png", "gif", "jxl", "c2pa", "svg", "tif", "wav", "webp", "avi", "mp3", "flac", "mp4", "heic", "pdf"] {
        caps.insert(f.to_string(), json!(c2pa::verif_hooks::capabilities(f).map(|c| c.1)));
    }
    let boxhash = |f: &str| c2pa::verif_hooks::capabilities(f).map(|c| c.1).unwrap_or(false);
    let mut base: Vec<Asset> = kit::extended_tiny_assets().into_iter().filter(|a| boxhash(a.format)).collect();
    let mut add = |name: &str, format: &'static str, bytes: Vec<u8>| base.push(Asset { name: name.to_string(), format, bytes });
    add("tiny_rst.jpg", "jpg", assets::tiny_jpeg(None, true, &[]));
    // directed: a reserved JPGn marker segment (FF F7 + length) and an APP11 segment too short to be JUMBF
    {
        let b = assets::tiny_jpeg(None, false, &[]);
        let mut v = b[..20].to_vec();
        v.extend_from_slice(&[0xFF, 0xF7, 0, 6, 1, 2, 3, 4]);
        v.extend_from_slice(&b[20..]);
        add("tiny_reserved_marker.jpg", "jpg", v);
        let mut v = b[..20].to_vec();
        v.extend_from_slice(&[0xFF, 0xEB, 0, 10, b'J', b'P', 0, 9, 0, 0, 0, 1]);
        v.extend_from_slice(&b[20..]);
        add("tiny_short_app11.jpg", "jpg", v);
    }
    let directed_bad_sof = {
        // SOF0 at offset 89 (13 bytes) replaced by a 1-byte frame header: lengths stay consistent, content is unreadable
        let b = assets::tiny_jpeg(None, false, &[]);
        let mut v = b[..89].to_vec();
        v.extend_from_slice(&[0xFF, 0xC0, 0, 3, 8]);
        v.extend_from_slice(&b[102..]);
        v
    };
    add("tiny_rst_trailing.jpg", "jpg", assets::tiny_jpeg(None, true, b"\0\0after-eoi"));
    add("tiny_text_trailing.png", "png", assets::tiny_png(true, b"trailing after IEND"));
    add("tiny_rich_trailing.gif", "gif", kit::rich_gif(false, b"trailing"));
    add("tiny_gif87.gif", "gif", {
        let mut g = assets::tiny_gif(false, &[]);
        g[..6].copy_from_slice(b"GIF87a");
        g
    });
    for a in assets::fixture_assets(run.tier.pick(800_000, 5_000_000)) {
        if boxhash(a.format) {
            base.push(a);
        }
    }
    for (n, f) in [("C.jpg", "jpg"), ("sample1.png", "png"), ("boxhash.jpg", "jpg"), ("cloud_manifest.c2pa", "c2pa"), ("P1000827.jpg", "jpg"), ("earth_apollo17.jpg", "jpg")] {
        if let Some(b) = assets::fixture(n) {
            if b.len() <= run.tier.pick(800_000, 5_000_000) {
                base.push(Asset { name: n.to_string(), format: f, bytes: b });
            }
        }
    }
    let mut items: Vec<Item> = vec![Item { name: "tiny.jpg".into(), format: "jpg", variant: "mutant:directed-unreadable-sof:base".into(), bytes: directed_bad_sof }];
    for a in &base {
        let it = Item { name: a.name.clone(), format: a.format, variant: "base".into(), bytes: a.bytes.clone() };
        items.push(it.clone());
        let tiny = a.bytes.len() < 5000;
        let mut with_manifest = Vec::new();
        for (j, n) in [60usize, 300, 64000, 64001, 130000].iter().enumerate() {
            if !tiny && j > 2 {
                break;
            }
            if let Ok(o) = kit::save(a.format, &a.bytes, &kit::make_store(*n, 11 + j as u64, 0).0, j % 2 == 0) {
                with_manifest.push(Item { name: a.name.clone(), format: a.format, variant: format!("manifest:{}", kit::size_class(*n)), bytes: o });
            }
        }
        let per_kind = if tiny { run.tier.pick(12, 80) } else { run.tier.pick(1, 4) };
        items.extend(mutants(&it, &mut rng, per_kind));
        for (k, m) in with_manifest.iter().enumerate() {
            if k < 2 && a.bytes.len() < 300_000 {
                items.extend(mutants(m, &mut rng, (per_kind / 2).max(1)));
            }
        }
        // directed: a foreign segment between the two APP11 segments of a two-packet C2PA box
        if a.name == "tiny.jpg" {
            for m in with_manifest.iter() {
                if let Ok(p) = fmt::parse("jpg", &m.bytes) {
                    let segs: Vec<&fmt::Elem> = p.elems.iter().filter(|e| e.is_c2pa).collect();
                    if segs.len() == 2 {
                        let at = segs[1].start;
                        let mut b = m.bytes[..at].to_vec();
                        b.extend_from_slice(&[0xFF, 0xFE, 0, 8, b'b', b'e', b't', b'w', b'e', b'n']);
                        b.extend_from_slice(&m.bytes[at..]);
                        items.push(Item { name: "tiny_c2pa_packets_interleaved.jpg".into(), format: "jpg", variant: "manifest:interleaved".into(), bytes: b });
                        break;
                    }
                }
            }
        }
        items.extend(with_manifest);
    }
    if let Some(p) = run.replay.clone() {
        let v: serde_json::Value = serde_json::from_slice(&std::fs::read(&p).expect("replay file")).expect("json");
        let w = &v["witness"];
        let bytes = hex::decode(w["bytes_hex"].as_str().unwrap_or("")).expect("hex");
        let fmt_s: &'static str = match w["format"].as_str().unwrap_or("") {
            "jpg" => "jpg",
            "png" => "png",
            "gif" => "gif",
            "jxl" => "jxl",
            _ => "c2pa",
        };
        let it = Item { name: w["asset"].as_str().unwrap_or("").to_string(), format: fmt_s, variant: w["variant"].as_str().unwrap_or("").to_string(), bytes };
        let r = run_item(&it);
        println!("replay: classes={:?} violations={:?}", r.classes, r.violations);
        std::process::exit(if r.violations.is_empty() { 0 } else { 1 });
    }
    if let Ok(f) = std::env::var("C12_ONLY") {
        for it in items.iter().filter(|it| it.name.contains(&f) && !it.variant.starts_with("mutant")) {
            let r = run_item(it);
            println!("{} {} len={}\n  map={}\n  classes={:?}\n  violations={:?}", it.name, it.variant, it.bytes.len(), r.map_sample.map(|m| m["map"].to_string()).unwrap_or_default(), r.classes, r.violations);
        }
        std::process::exit(0);
    }
    let results = par::par_map(items.len(), |i| run_item(&items[i]));
    for (i, r) in results.iter().enumerate() {
        let it = &items[i];
        run.evals(r.evals);
        for c in &r.classes {
            // collapse the asset-specific part of mutant variants for distinctness
            run.nontrivial(c.clone());
        }
        for (k, n) in &r.counters {
            run.count(k, *n);
        }
        if let Some(m) = &r.map_sample {
            if it.bytes.len() < 2000 {
                run.sample(&format!("{}:{}", it.format, it.variant.split(':').take(2).collect::<Vec<_>>().join(":")), 1, m.clone());
            }
        }
        for (sig, what) in &r.violations {
            let wit = if it.bytes.len() <= 200_000 {
                json!({"asset": it.name, "format": it.format, "variant": it.variant, "len": it.bytes.len(), "bytes_hex": hex::encode(&it.bytes), "map": r.map_sample})
            } else {
                json!({"asset": it.name, "format": it.format, "variant": it.variant, "len": it.bytes.len(), "map": r.map_sample})
            };
            run.violation(sig, &format!("{} [{}]: {}", it.name, it.format, what), wit);
        }
    }
    run.set("box_hash_capability", serde_json::Value::Object(caps));
    run.set("items", json!(items.len()));
    run.set("base_assets", json!(base.iter().map(|a| a.name.clone()).collect::<Vec<_>>()));
    run.engine("release", true, json!({"threads": par::workers()}));
    run.finish(40);
}
