//! C40 — synchronous and asynchronous APIs behave identically.
//!
//! Oracle (from the statement): for each operation offered in both flavours, the async form run on
//! the same inputs / settings / signer yields the same outcome as the sync form: the same error kind,
//! or outputs that read back to the same normalised report and validation codes (digest values of
//! hashed URIs masked, because two separately built builders carry different random ingredient
//! instance ids).  Both flavours run in one process; the async flavour is driven on a current-thread
//! tokio runtime.  Signer pairs wrap the same fixture key and canned TSA / OCSP data and record the
//! calls they receive; differing call logs are a violation too ("async asked for a time stamp, sync
//! did not").
//!
//! Pairs: sign/sign_async (ingredients added through add_ingredient_from_stream(_async)),
//! sign_data_hashed_embeddable(_async), sign_box_hashed_embeddable(_async),
//! Reader::with_stream(_async), with_manifest_data_and_stream(_async), with_fragment(_async),
//! add_ingredient_from_archive(_async); settings with flavour-specific branches are toggled
//! (trust on/off, verify_after_sign, verify_timestamp_trust, ocsp_fetch) together with TSA replies
//! {none, good+trusted, good+untrusted root, error, garbage} and a stapled OCSP blob.
use async_trait::async_trait;
use c2pa::{assertions::DataHash, AsyncSigner, Builder, HashRange, Reader, Signer, SigningAlg};
use serde_json::{json, Value};
use sha2::{Digest, Sha256};
use std::collections::BTreeMap;
use std::io::Cursor;
use std::sync::{Arc, Mutex};
use vmon::defgen::{self, GenDef, GenOpts, IngredientPool};
use vmon::pki::{self, CertSpec, Key, KeyKind};
use vmon::pki_tsa::{self, TokenSpec};
use vmon::{assets, embedkit, par, report, signers, Rng, Run};

// ------------------------------------------------------------------------------------------------
// signer pair

#[derive(Clone, Copy, Debug, PartialEq, Eq)]
enum TsaMode {
    None,
    Trusted,
    Untrusted,
    Error,
    Garbage,
}

struct Tsa {
    cert: pki::Cert,
    key: Arc<Key>,
}

struct PkiSet {
    trusted: Tsa,
    untrusted: Tsa,
    trusted_root_pem: String,
}

fn build_pki() -> PkiSet {
    let now = pki::now_unix();
    let day = 86_400;
    let mk_root = |cn: &str, slot: usize| {
        let k = Key::pooled(KeyKind::P256, slot);
        let mut s = CertSpec::ca(cn, None);
        s.not_before = now - 1000 * day;
        let c = pki::issue(&s, &k, None);
        (c, k)
    };
    let (r1, k1) = mk_root("c40 Root", 4000);
    let (r2, k2) = mk_root("c40 Other Root", 4001);
    let mk_tsa = |cn: &str, slot: usize, root: &pki::Cert, rk: &Arc<Key>| {
        let key = Key::pooled(KeyKind::P256, slot);
        let mut s = CertSpec::tsa(cn);
        s.not_before = now - 400 * day;
        s.not_after = now + 400 * day;
        let cert = pki::issue(&s, &key, Some((root, rk)));
        Tsa { cert, key }
    };
    PkiSet { trusted: mk_tsa("c40 TSA", 4002, &r1, &k1), untrusted: mk_tsa("c40 TSA other", 4003, &r2, &k2), trusted_root_pem: r1.pem() }
}

#[derive(Clone)]
struct SignerCfg {
    alg: String,
    tsa: TsaMode,
    ocsp: Option<Vec<u8>>,
}

struct Core {
    inner: c2pa::BoxedSigner,
    cfg: SignerCfg,
    pki: Arc<PkiSet>,
    calls: Mutex<Vec<String>>,
}

impl Core {
    fn new(cfg: &SignerCfg, pki: &Arc<PkiSet>) -> Core {
        Core { inner: signers::test_signer(&cfg.alg), cfg: cfg.clone(), pki: pki.clone(), calls: Mutex::new(Vec::new()) }
    }
    fn log(&self, s: &str) {
        self.calls.lock().unwrap().push(s.to_string());
    }
    fn tsa_url(&self) -> Option<String> {
        if self.cfg.tsa == TsaMode::None {
            None
        } else {
            Some("http://tsa.verif.invalid/".into())
        }
    }
    fn tsa_reply(&self, message: &[u8]) -> Option<c2pa::Result<Vec<u8>>> {
        let t = match self.cfg.tsa {
            TsaMode::None => return None,
            TsaMode::Error => return Some(Err(c2pa::Error::OtherError("canned TSA failure".into()))),
            TsaMode::Garbage => return Some(Ok(vec![0x30, 0x03, 0x02, 0x01, 0x00])),
            TsaMode::Trusted => &self.pki.trusted,
            TsaMode::Untrusted => &self.pki.untrusted,
        };
        // deterministic gen_time so that both flavours get byte-identical canned tokens apart from the serial
        let spec = TokenSpec {
            imprint_md: pki::Md::Sha256,
            imprint: Sha256::digest(message).to_vec(),
            gen_time: pki::now_unix() / 3600 * 3600,
            signing_time_attr: None,
            omit_signing_time: false,
            tsa_cert: &t.cert,
            tsa_key: &t.key,
            certs: vec![t.cert.der.clone()],
            accuracy_secs: Some(1),
            nonce: None,
        };
        Some(Ok(pki_tsa::make_token(&spec).resp))
    }
    fn reserve(&self) -> usize {
        self.inner.reserve_size() + 8_000
    }
}

struct SyncS(Arc<Core>);
struct AsyncS(Arc<Core>);

impl Signer for SyncS {
    fn sign(&self, data: &[u8]) -> c2pa::Result<Vec<u8>> {
        self.0.log(&format!("sign({})", data.len()));
        self.0.inner.sign(data)
    }
    fn alg(&self) -> SigningAlg {
        self.0.inner.alg()
    }
    fn certs(&self) -> c2pa::Result<Vec<Vec<u8>>> {
        self.0.inner.certs()
    }
    fn reserve_size(&self) -> usize {
        self.0.reserve()
    }
    fn time_authority_url(&self) -> Option<String> {
        self.0.tsa_url()
    }
    fn send_timestamp_request(&self, message: &[u8]) -> Option<c2pa::Result<Vec<u8>>> {
        self.0.log(&format!("send_timestamp_request({})", message.len()));
        self.0.tsa_reply(message)
    }
    fn ocsp_val(&self) -> Option<Vec<u8>> {
        self.0.log("ocsp_val");
        self.0.cfg.ocsp.clone()
    }
}

#[async_trait]
impl AsyncSigner for AsyncS {
    async fn sign(&self, data: Vec<u8>) -> c2pa::Result<Vec<u8>> {
        self.0.log(&format!("sign({})", data.len()));
        tokio::task::yield_now().await;
        self.0.inner.sign(&data)
    }
    fn alg(&self) -> SigningAlg {
        self.0.inner.alg()
    }
    fn certs(&self) -> c2pa::Result<Vec<Vec<u8>>> {
        self.0.inner.certs()
    }
    fn reserve_size(&self) -> usize {
        self.0.reserve()
    }
    fn time_authority_url(&self) -> Option<String> {
        self.0.tsa_url()
    }
    async fn send_timestamp_request(&self, message: &[u8]) -> Option<c2pa::Result<Vec<u8>>> {
        self.0.log(&format!("send_timestamp_request({})", message.len()));
        tokio::task::yield_now().await;
        self.0.tsa_reply(message)
    }
    async fn ocsp_val(&self) -> Option<Vec<u8>> {
        self.0.log("ocsp_val");
        self.0.cfg.ocsp.clone()
    }
}

fn block_on<F: std::future::Future>(f: F) -> F::Output {
    tokio::runtime::Builder::new_current_thread().enable_all().build().expect("runtime").block_on(f)
}

// ------------------------------------------------------------------------------------------------
// outcomes

#[derive(Clone, Debug, PartialEq)]
struct Out {
    /// "err:<kind>" | "panic" | state
    outcome: String,
    report: Value,
    codes: Vec<(String, String, String, String)>,
    len: Option<usize>,
    calls: Vec<String>,
    detail: String,
}

fn mask_hashes(v: &mut Value) {
    match v {
        Value::Object(m) => {
            if m.contains_key("url") && m.contains_key("hash") {
                m.insert("hash".into(), json!("H"));
            }
            for (_, x) in m.iter_mut() {
                mask_hashes(x);
            }
        }
        Value::Array(a) => a.iter_mut().for_each(mask_hashes),
        _ => {}
    }
}

fn volatile_mask(v: &mut Value) {
    // time stamps: the canned TSA uses now/3600*3600 for both flavours, signature time identical
    mask_hashes(v);
}

fn err_out(kind: String, detail: String, calls: Vec<String>) -> Out {
    Out { outcome: kind, report: Value::Null, codes: vec![], len: None, calls, detail }
}

#[derive(Clone)]
struct Settings {
    trust: bool,
    verify_after_sign: bool,
    verify_timestamp_trust: bool,
    ocsp_fetch: bool,
    tsa_root_trusted: bool,
}

impl Settings {
    fn class(&self) -> String {
        format!("trust{}|vas{}|vtt{}|ocsp{}", self.trust as u8, self.verify_after_sign as u8, self.verify_timestamp_trust as u8, self.ocsp_fetch as u8)
    }
    fn ctx(&self, pki: &PkiSet, thumbs: bool) -> c2pa::Context {
        let mut anchors = signers::trust_anchors_pem();
        if self.tsa_root_trusted {
            anchors.push('\n');
            anchors.push_str(&pki.trusted_root_pem);
        }
        let mut s = json!({
            "verify": {"verify_trust": self.trust, "verify_after_sign": self.verify_after_sign, "verify_timestamp_trust": self.verify_timestamp_trust, "ocsp_fetch": self.ocsp_fetch, "remote_manifest_fetch": false},
            "builder": {"thumbnail": {"enabled": thumbs}},
            "core": {"allowed_network_hosts": ["verif.invalid"]}
        });
        if self.trust {
            s["trust"] = json!({"trust_anchors": anchors});
        }
        c2pa::Context::new().with_settings(s.to_string().as_str()).expect("settings")
    }
}

fn read_out(st: &Settings, pki: &PkiSet, format: &str, bytes: Vec<u8>, asyncf: bool, calls: Vec<String>, len: Option<usize>) -> Out {
    let ctx = st.ctx(pki, false);
    let f = format.to_string();
    let r = report::catch_sdk(move || {
        let rd = Reader::from_context(ctx);
        let r = if asyncf { block_on(rd.with_stream_async(&f, Cursor::new(bytes))) } else { rd.with_stream(&f, Cursor::new(bytes)) };
        r.map(|r| (r.json(), format!("{:?}", r.validation_state()), report::codes_of(&r)))
    });
    match r {
        Ok(Ok((js, state, codes))) => {
            let mut raw: Value = serde_json::from_str(&js).unwrap_or(Value::Null);
            volatile_mask(&mut raw);
            Out { outcome: state, report: report::norm_report_value(&raw), codes, len, calls, detail: String::new() }
        }
        Ok(Err(e)) => err_out(format!("read-err:{}", report::err_kind(&e)), format!("{e:?}"), calls),
        Err(p) => err_out("read-panic".into(), p, calls),
    }
}

/// Compares the two flavours; returns (differing component, detail).
fn compare(s: &Out, a: &Out, compare_calls: bool) -> Option<(String, String)> {
    if s.outcome != a.outcome {
        return Some(("outcome".into(), format!("sync {} ({}) vs async {} ({})", s.outcome, s.detail, a.outcome, a.detail)));
    }
    if s.len != a.len {
        return Some(("output-length".into(), format!("sync {:?} vs async {:?}", s.len, a.len)));
    }
    if s.report != a.report {
        return Some(("report".into(), format!("{:?}", report::diff_paths(&s.report, &a.report, 6))));
    }
    if s.codes != a.codes {
        return Some(("codes".into(), format!("only sync {:?}; only async {:?}", s.codes.iter().filter(|x| !a.codes.contains(x)).collect::<Vec<_>>(), a.codes.iter().filter(|x| !s.codes.contains(x)).collect::<Vec<_>>())));
    }
    if compare_calls && s.calls != a.calls {
        return Some(("signer-calls".into(), format!("sync {:?} vs async {:?}", s.calls, a.calls)));
    }
    None
}

// ------------------------------------------------------------------------------------------------
// operations

struct Env {
    assets: Vec<assets::Asset>,
    pool: IngredientPool,
    pki: Arc<PkiSet>,
    archive_ing: Vec<u8>,
    frag: Option<(Vec<u8>, Vec<u8>)>,
}

fn op_sign(env: &Env, def: &GenDef, asset: &assets::Asset, st: &Settings, sc: &SignerCfg, thumbs: bool, asyncf: bool) -> Out {
    let core = Arc::new(Core::new(sc, &env.pki));
    let ctx = st.ctx(&env.pki, thumbs);
    let r = report::catch_sdk(|| -> Result<(Vec<u8>, usize), String> {
        let mut b = def.builder_base(ctx)?;
        for (i, g) in def.ingredients.iter().enumerate() {
            let item = &env.pool.items[g.pool];
            let mut c = Cursor::new(item.bytes.clone());
            let r = if asyncf { block_on(b.add_ingredient_from_stream_async(def.ingredient_json(i), item.format, &mut c)).map(|_| ()) } else { b.add_ingredient_from_stream(def.ingredient_json(i), item.format, &mut c).map(|_| ()) };
            r.map_err(|e| format!("ingredient-err:{}", report::err_kind(&e)))?;
        }
        let mut src = Cursor::new(asset.bytes.clone());
        let mut dst = Cursor::new(Vec::new());
        let store = if asyncf { block_on(b.sign_async(&AsyncS(core.clone()), asset.format, &mut src, &mut dst)) } else { b.sign(&SyncS(core.clone()), asset.format, &mut src, &mut dst) };
        let store = store.map_err(|e| format!("sign-err:{}", report::err_kind(&e)))?;
        Ok((dst.into_inner(), store.len()))
    });
    let calls = core.calls.lock().unwrap().clone();
    match r {
        Ok(Ok((out, store_len))) => read_out(&Settings { verify_after_sign: false, ..st.clone() }, &env.pki, asset.format, out, false, calls, Some(store_len)),
        Ok(Err(e)) => err_out(e.clone(), e, calls),
        Err(p) => err_out("panic".into(), p, calls),
    }
}

fn op_data_hashed(env: &Env, st: &Settings, sc: &SignerCfg, jpeg: bool, asyncf: bool) -> Out {
    let core = Arc::new(Core::new(sc, &env.pki));
    let ctx = st.ctx(&env.pki, false);
    let format = if jpeg { "image/jpeg" } else { "application/c2pa" };
    let asset = env.assets.iter().find(|a| a.name == "tiny.jpg").expect("tiny.jpg").bytes.clone();
    let r = report::catch_sdk(|| -> Result<(Vec<u8>, usize), String> {
        let mut b = Builder::from_context(ctx).with_definition(json!({"title": "embeddable", "assertions": [{"label": "org.verif.e", "data": {"e": 1}}]})).map_err(|e| e.to_string())?;
        b.set_intent(c2pa::BuilderIntent::Create(c2pa::DigitalSourceType::DigitalCapture));
        let ph = b.data_hashed_placeholder(core.reserve(), format).map_err(|e| format!("placeholder-err:{}", report::err_kind(&e)))?;
        let (mut file, off) = if jpeg { (vmon::embed::splice(&asset, 2, &ph), 2usize) } else { (ph.clone(), 0usize) };
        let mut dh = DataHash::new("jumbf manifest", "sha256");
        dh.exclusions = Some(vec![HashRange::new(off as u64, ph.len() as u64)]);
        let mut h = Sha256::new();
        h.update(&file[..off]);
        h.update(&file[off + ph.len()..]);
        dh.set_hash(h.finalize().to_vec());
        let m = if asyncf { block_on(b.sign_data_hashed_embeddable_async(&AsyncS(core.clone()), &dh, format)) } else { b.sign_data_hashed_embeddable(&SyncS(core.clone()), &dh, format) };
        let m = m.map_err(|e| format!("sign-err:{}", report::err_kind(&e)))?;
        let mlen = m.len();
        if mlen == ph.len() {
            file[off..off + mlen].copy_from_slice(&m);
        } else {
            file.splice(off..off + ph.len(), m);
        }
        Ok((file, mlen))
    });
    let calls = core.calls.lock().unwrap().clone();
    match r {
        Ok(Ok((file, mlen))) => read_out(&Settings { verify_after_sign: false, ..st.clone() }, &env.pki, format, file, false, calls, Some(mlen)),
        Ok(Err(e)) => err_out(e.clone(), e, calls),
        Err(p) => err_out("panic".into(), p, calls),
    }
}

fn op_box_hashed(env: &Env, st: &Settings, sc: &SignerCfg, asyncf: bool) -> Out {
    let core = Arc::new(Core::new(sc, &env.pki));
    let ctx = st.ctx(&env.pki, false);
    let r = report::catch_sdk(|| -> Result<(Vec<u8>, usize), String> {
        // box map of the empty application/c2pa asset (same as Builder::to_archive uses)
        let boxes = embedkit::box_map("application/c2pa", b"").map_err(|e| format!("boxmap:{e}"))?.ok_or("no box map")?;
        let bx: Vec<Value> = boxes.iter().map(|(names, _s, _l, _e)| json!({"names": names, "hash": serde_bytes::ByteBuf::from(Vec::<u8>::new()), "pad": serde_bytes::ByteBuf::from(Vec::<u8>::new())})).collect();
        let mut b = Builder::from_context(ctx).with_definition(json!({"title": "box hashed"})).map_err(|e| e.to_string())?;
        b.set_intent(c2pa::BuilderIntent::Create(c2pa::DigitalSourceType::DigitalCapture));
        #[derive(serde::Serialize)]
        struct Bm {
            names: Vec<String>,
            hash: serde_bytes::ByteBuf,
            pad: serde_bytes::ByteBuf,
        }
        #[derive(serde::Serialize)]
        struct Bh {
            boxes: Vec<Bm>,
        }
        let _ = bx;
        let bh = Bh { boxes: boxes.iter().map(|(names, ..)| Bm { names: names.clone(), hash: serde_bytes::ByteBuf::new(), pad: serde_bytes::ByteBuf::new() }).collect() };
        b.add_assertion("c2pa.hash.boxes", &bh).map_err(|e| e.to_string())?;
        let m = if asyncf { block_on(b.sign_box_hashed_embeddable_async(&AsyncS(core.clone()), "application/c2pa")) } else { b.sign_box_hashed_embeddable(&SyncS(core.clone()), "application/c2pa") };
        let m = m.map_err(|e| format!("sign-err:{}", report::err_kind(&e)))?;
        let l = m.len();
        Ok((m, l))
    });
    let calls = core.calls.lock().unwrap().clone();
    match r {
        Ok(Ok((file, mlen))) => read_out(&Settings { verify_after_sign: false, ..st.clone() }, &env.pki, "application/c2pa", file, false, calls, Some(mlen)),
        Ok(Err(e)) => err_out(e.clone(), e, calls),
        Err(p) => err_out("panic".into(), p, calls),
    }
}

fn op_sidecar_read(env: &Env, st: &Settings, store: &[u8], format: &str, asset: &[u8], asyncf: bool) -> Out {
    let ctx = st.ctx(&env.pki, false);
    let (s, f, a) = (store.to_vec(), format.to_string(), asset.to_vec());
    let r = report::catch_sdk(move || {
        let rd = Reader::from_context(ctx);
        let r = if asyncf { block_on(rd.with_manifest_data_and_stream_async(&s, &f, Cursor::new(a))) } else { rd.with_manifest_data_and_stream(&s, &f, Cursor::new(a)) };
        r.map(|r| (r.json(), format!("{:?}", r.validation_state()), report::codes_of(&r)))
    });
    match r {
        Ok(Ok((js, state, codes))) => Out { outcome: state, report: report::norm_report(&js), codes, len: None, calls: vec![], detail: String::new() },
        Ok(Err(e)) => err_out(format!("read-err:{}", report::err_kind(&e)), format!("{e:?}"), vec![]),
        Err(p) => err_out("read-panic".into(), p, vec![]),
    }
}

fn op_fragment(env: &Env, st: &Settings, init: &[u8], frag: &[u8], asyncf: bool) -> Out {
    let ctx = st.ctx(&env.pki, false);
    let (i, f) = (init.to_vec(), frag.to_vec());
    let r = report::catch_sdk(move || {
        let rd = Reader::from_context(ctx);
        let r = if asyncf { block_on(rd.with_fragment_async("video/mp4", Cursor::new(i), Cursor::new(f))) } else { rd.with_fragment("video/mp4", Cursor::new(i), Cursor::new(f)) };
        r.map(|r| (r.json(), format!("{:?}", r.validation_state()), report::codes_of(&r)))
    });
    match r {
        Ok(Ok((js, state, codes))) => Out { outcome: state, report: report::norm_report(&js), codes, len: None, calls: vec![], detail: String::new() },
        Ok(Err(e)) => err_out(format!("read-err:{}", report::err_kind(&e)), format!("{e:?}"), vec![]),
        Err(p) => err_out("read-panic".into(), p, vec![]),
    }
}

fn op_from_archive(env: &Env, st: &Settings, archive: &[u8], asset: &assets::Asset, asyncf: bool) -> Out {
    let ctx = st.ctx(&env.pki, false);
    let sc = SignerCfg { alg: "es256".into(), tsa: TsaMode::None, ocsp: None };
    let core = Arc::new(Core::new(&sc, &env.pki));
    let r = report::catch_sdk(|| -> Result<Vec<u8>, String> {
        let mut b = Builder::from_context(ctx).with_definition(json!({"title": "from archive"})).map_err(|e| e.to_string())?;
        b.set_intent(c2pa::BuilderIntent::Create(c2pa::DigitalSourceType::DigitalCapture));
        let mut c = Cursor::new(archive.to_vec());
        let r = if asyncf { block_on(b.add_ingredient_from_archive_async(&mut c)).map(|_| ()) } else { b.add_ingredient_from_archive(&mut c).map(|_| ()) };
        r.map_err(|e| format!("archive-err:{}", report::err_kind(&e)))?;
        let mut src = Cursor::new(asset.bytes.clone());
        let mut dst = Cursor::new(Vec::new());
        b.sign(&SyncS(core.clone()), asset.format, &mut src, &mut dst).map_err(|e| format!("sign-err:{}", report::err_kind(&e)))?;
        Ok(dst.into_inner())
    });
    match r {
        Ok(Ok(out)) => read_out(st, &env.pki, asset.format, out, false, vec![], None),
        Ok(Err(e)) => err_out(e.clone(), e, vec![]),
        Err(p) => err_out("panic".into(), p, vec![]),
    }
}

// ------------------------------------------------------------------------------------------------

#[derive(Clone)]
enum Op {
    Sign { def: GenDef, asset: usize, thumbs: bool },
    DataHashed { jpeg: bool },
    BoxHashed,
    Read { name: String, format: String, bytes: Arc<Vec<u8>> },
    Sidecar { name: String, format: String, store: Arc<Vec<u8>>, asset: Arc<Vec<u8>> },
    Fragment { name: String, init: Arc<Vec<u8>>, frag: Arc<Vec<u8>> },
    FromArchive { name: String, archive: Arc<Vec<u8>> },
}

struct Case {
    op: Op,
    st: Settings,
    sc: SignerCfg,
}

struct Res {
    class: String,
    violation: Option<(String, String)>,
    calls: u64,
    ts_requests: u64,
    sample: Value,
}

fn run_case(c: &Case, env: &Env) -> Res {
    let sclass = format!("{}|tsa:{:?}|ocsp{}", c.st.class(), c.sc.tsa, c.sc.ocsp.is_some() as u8);
    let (pair, s, a, compare_calls, sample) = match &c.op {
        Op::Sign { def, asset, thumbs } => {
            let at = &env.assets[*asset];
            (format!("sign:{}:{}", at.format, c.sc.alg), op_sign(env, def, at, &c.st, &c.sc, *thumbs, false), op_sign(env, def, at, &c.st, &c.sc, *thumbs, true), true, json!({"op": "sign", "asset": at.name, "alg": c.sc.alg, "shape": def.shape(), "def": def}))
        }
        Op::DataHashed { jpeg } => (format!("sign_data_hashed_embeddable:{}:{}", if *jpeg { "jpeg" } else { "c2pa" }, c.sc.alg), op_data_hashed(env, &c.st, &c.sc, *jpeg, false), op_data_hashed(env, &c.st, &c.sc, *jpeg, true), true, json!({"op": "data_hashed", "jpeg": jpeg, "alg": c.sc.alg})),
        Op::BoxHashed => (format!("sign_box_hashed_embeddable:{}", c.sc.alg), op_box_hashed(env, &c.st, &c.sc, false), op_box_hashed(env, &c.st, &c.sc, true), true, json!({"op": "box_hashed", "alg": c.sc.alg})),
        Op::Read { name, format, bytes } => (format!("with_stream:{name}"), read_out(&c.st, &env.pki, format, bytes.to_vec(), false, vec![], None), read_out(&c.st, &env.pki, format, bytes.to_vec(), true, vec![], None), false, json!({"op": "with_stream", "input": name})),
        Op::Sidecar { name, format, store, asset } => (format!("with_manifest_data_and_stream:{name}"), op_sidecar_read(env, &c.st, store, format, asset, false), op_sidecar_read(env, &c.st, store, format, asset, true), false, json!({"op": "sidecar", "input": name})),
        Op::Fragment { name, init, frag } => (format!("with_fragment:{name}"), op_fragment(env, &c.st, init, frag, false), op_fragment(env, &c.st, init, frag, true), false, json!({"op": "with_fragment", "input": name})),
        Op::FromArchive { name, archive } => (format!("add_ingredient_from_archive:{name}"), op_from_archive(env, &c.st, archive, &env.assets[0], false), op_from_archive(env, &c.st, archive, &env.assets[0], true), false, json!({"op": "from_archive", "input": name})),
    };
    let calls = (s.calls.len() + a.calls.len()) as u64;
    let ts = s.calls.iter().chain(a.calls.iter()).filter(|x| x.starts_with("send_timestamp_request")).count() as u64;
    let diff = compare(&s, &a, compare_calls);
    let api = pair.split(':').next().unwrap_or("").to_string();
    let violation = diff.map(|(comp, detail)| (format!("{api}|{sclass}|{comp}"), format!("{pair}: {detail}")));
    let mut sample = sample;
    sample["settings"] = json!(sclass);
    Res { class: format!("{pair}|{sclass}|{}", s.outcome.chars().take(60).collect::<String>()), violation, calls, ts_requests: ts, sample }
}

fn main() {
    let mut run = Run::from_args("C40", "exploration");
    report::quiet_panics();
    run.rule = "cases = (operation pair) x (settings: trust, verify_after_sign, verify_timestamp_trust, ocsp_fetch) x (signer: 7 algs, TSA reply {none, good from a trusted root, good from an untrusted root, error, garbage}, stapled OCSP blob or none) x inputs (defgen definitions with sync/async-added ingredients on every tiny format; signed/tampered/unsigned/garbage inputs for the readers; fragment fixtures; ingredient archives). Distinct = (pair incl. format/input, settings class, TSA mode, sync outcome).".into();
    run.assumptions = vec![
        "digest values of hashed URIs are masked (separately built builders have different random ingredient instance ids)".into(),
        "the canned TSA uses the same genTime (current hour) for both flavours".into(),
        "signer call logs (sign / send_timestamp_request / ocsp_val with argument lengths) must be equal for the signing pairs".into(),
    ];
    let pki = Arc::new(build_pki());
    let assets_v = assets::tiny_assets();
    let pool = defgen::ingredient_pool();
    // ingredient archive for the add_ingredient_from_archive pair
    let archive_ing = {
        let ctx = defgen::context(true, false, false, &json!({"builder": {"generate_c2pa_archive": true}}));
        let mut b = Builder::from_context(ctx).with_definition(json!({"title": "archiver"})).expect("def");
        let it = &pool.items[0];
        let mut c = Cursor::new(it.bytes.clone());
        let _ = b.add_ingredient_from_stream(json!({"title": "A", "relationship": "componentOf", "label": "arch"}).to_string(), it.format, &mut c);
        let mut ar = Cursor::new(Vec::new());
        let _ = b.write_ingredient_archive("arch", &mut ar);
        ar.into_inner()
    };
    let frag = match (assets::fixture("dashinit.mp4"), assets::fixture("dash1.m4s")) {
        (Some(i), Some(f)) => Some((i, f)),
        _ => None,
    };
    if frag.is_none() {
        run.inconclusive("fragment fixtures dashinit.mp4/dash1.m4s missing: with_fragment pair not exercised");
    }
    let env = Env { assets: assets_v, pool, pki, archive_ing, frag };

    let mut rng = Rng::new(run.seed, "c40");
    let mut cases: Vec<Case> = Vec::new();
    let all_settings = |rng: &mut Rng| Settings { trust: rng.chance(3, 4), verify_after_sign: rng.bool(), verify_timestamp_trust: rng.bool(), ocsp_fetch: rng.chance(1, 4), tsa_root_trusted: rng.bool() };
    let tsas = [TsaMode::None, TsaMode::None, TsaMode::Trusted, TsaMode::Untrusted, TsaMode::Error, TsaMode::Garbage];
    let signer_cfg = |rng: &mut Rng, i: usize| SignerCfg { alg: signers::ALGS[i % 7].0.to_string(), tsa: tsas[rng.usize(tsas.len())], ocsp: if rng.chance(1, 5) { Some(vec![0x30, 0x03, 0x0A, 0x01, 0x06]) } else { None } };
    // directed: the DESIGN suspect (sign_claim passes adjusted settings to cose_sign but the original to cose_sign_async)
    for (k, tsa) in [TsaMode::Untrusted, TsaMode::Trusted, TsaMode::Garbage, TsaMode::Error].iter().enumerate() {
        for vas in [false, true] {
            let mut o = GenOpts::default();
            o.n_assertions = Some(1);
            o.n_ingredients = Some(0);
            o.big_payloads = false;
            o.intent = Some(defgen::Intent::Create);
            let def = defgen::gen_def(&mut Rng::new(7, "c40-directed"), &o, &[]);
            cases.push(Case { op: Op::Sign { def, asset: k % env.assets.len(), thumbs: false }, st: Settings { trust: true, verify_after_sign: vas, verify_timestamp_trust: true, ocsp_fetch: false, tsa_root_trusted: false }, sc: SignerCfg { alg: "es256".into(), tsa: *tsa, ocsp: None } });
        }
    }
    // directed: a definition that signs but does not validate (version-2 claim whose first action is not
    // created/opened) — exercises the verify_after_sign arm of both flavours (error vs Invalid read-back)
    for (k, alg) in ["ed25519", "ps256", "es384"].iter().enumerate() {
        for vas in [false, true] {
            for trust in [false, true] {
                let def = GenDef {
                    title: Some("invalid by construction".into()),
                    cgi: vec![],
                    vendor: None,
                    claim_version: None,
                    hash_alg: None,
                    assertions: vec![],
                    actions: vec![json!({"action": "c2pa.edited"})],
                    actions_via_api: k % 2 == 0,
                    ingredients: vec![],
                    intent: defgen::Intent::None,
                    redactions: vec![],
                };
                cases.push(Case { op: Op::Sign { def, asset: (k + 2) % env.assets.len(), thumbs: false }, st: Settings { trust, verify_after_sign: vas, verify_timestamp_trust: true, ocsp_fetch: false, tsa_root_trusted: false }, sc: SignerCfg { alg: alg.to_string(), tsa: TsaMode::None, ocsp: None } });
            }
        }
    }
    let n_sign = run.tier.pick(220usize, 6000usize);
    for i in 0..n_sign {
        let mut r = rng.fork(i as u64);
        let mut o = GenOpts::default();
        o.max_assertions = 5;
        o.big_payloads = r.chance(1, 10);
        let choices = env.pool.choices(None);
        let def = defgen::gen_def(&mut r, &o, &choices);
        let st = all_settings(&mut r);
        let sc = signer_cfg(&mut r, i);
        cases.push(Case { op: Op::Sign { def, asset: i % env.assets.len(), thumbs: r.chance(1, 4) }, st, sc });
    }
    let n_emb = run.tier.pick(40usize, 600usize);
    for i in 0..n_emb {
        let mut r = rng.fork(100_000 + i as u64);
        let st = all_settings(&mut r);
        let sc = signer_cfg(&mut r, i);
        let op = match i % 3 {
            0 => Op::DataHashed { jpeg: true },
            1 => Op::DataHashed { jpeg: false },
            _ => Op::BoxHashed,
        };
        cases.push(Case { op, st, sc });
    }
    // reader inputs
    let mut inputs: Vec<(String, String, Arc<Vec<u8>>)> = Vec::new();
    for it in &env.pool.items {
        inputs.push((it.name.clone(), it.format.to_string(), Arc::new(it.bytes.clone())));
        if it.signed {
            let mut t = it.bytes.clone();
            let n = t.len();
            t[n - 3] ^= 0x20;
            inputs.push((format!("tampered-tail:{}", it.name), it.format.to_string(), Arc::new(t)));
            let mut t = it.bytes.clone();
            t[n / 2] ^= 0x01;
            inputs.push((format!("tampered-mid:{}", it.name), it.format.to_string(), Arc::new(t)));
        }
    }
    inputs.push(("garbage".into(), "jpg".into(), Arc::new(Rng::new(run.seed, "garbage").bytes(500))));
    inputs.push(("empty".into(), "png".into(), Arc::new(vec![])));
    for name in ["C.jpg", "CA.jpg", "XCA.jpg", "E-sig-CA.jpg", "CIE-sig-CA.jpg"] {
        if let Some(b) = assets::fixture(name) {
            if b.len() < 400_000 {
                inputs.push((name.to_string(), "jpg".into(), Arc::new(b)));
            }
        }
    }
    for (i, (name, format, bytes)) in inputs.iter().enumerate() {
        for k in 0..run.tier.pick(2, 6) {
            let mut r = rng.fork(200_000 + (i * 10 + k) as u64);
            let st = all_settings(&mut r);
            cases.push(Case { op: Op::Read { name: name.clone(), format: format.clone(), bytes: bytes.clone() }, st, sc: SignerCfg { alg: "ed25519".into(), tsa: TsaMode::None, ocsp: None } });
        }
    }
    // sidecar pair: sign tiny.png with no_embed
    {
        let a = env.assets.iter().find(|a| a.name == "tiny.png").expect("png");
        let ctx = defgen::context(true, false, false, &json!({}));
        if let Ok(mut b) = Builder::from_context(ctx).with_definition(json!({"title": "sidecar"})) {
            b.set_intent(c2pa::BuilderIntent::Create(c2pa::DigitalSourceType::DigitalCapture));
            b.set_no_embed(true);
            let signer = signers::test_signer("es384");
            let mut s = Cursor::new(a.bytes.clone());
            let mut d = Cursor::new(Vec::new());
            if let Ok(store) = b.sign(signer.as_ref(), a.format, &mut s, &mut d) {
                let out = Arc::new(d.into_inner());
                let store = Arc::new(store);
                let mut bad = store.to_vec();
                let n = bad.len();
                bad[n / 2] ^= 1;
                for (name, st_bytes, asset) in [("valid", store.clone(), out.clone()), ("tampered-store", Arc::new(bad), out.clone()), ("wrong-asset", store.clone(), Arc::new(env.assets[0].bytes.clone()))] {
                    for k in 0..2 {
                        let mut r = rng.fork(300_000 + k);
                        cases.push(Case { op: Op::Sidecar { name: name.into(), format: if name == "wrong-asset" { env.assets[0].format.to_string() } else { "png".into() }, store: st_bytes.clone(), asset: asset.clone() }, st: all_settings(&mut r), sc: SignerCfg { alg: "ed25519".into(), tsa: TsaMode::None, ocsp: None } });
                    }
                }
            }
        }
    }
    if let Some((i, f)) = &env.frag {
        let (i, f) = (Arc::new(i.clone()), Arc::new(f.clone()));
        let mut tf = f.to_vec();
        let n = tf.len();
        tf[n - 10] ^= 1;
        let tiny_frag = Arc::new(embedkit::tiny_fragmented_mp4());
        for (name, ii, ff) in [("fixture", i.clone(), f.clone()), ("tampered-fragment", i.clone(), Arc::new(tf)), ("swapped", f.clone(), i.clone()), ("unsigned", tiny_frag.clone(), tiny_frag.clone())] {
            for k in 0..2 {
                let mut r = rng.fork(400_000 + k);
                cases.push(Case { op: Op::Fragment { name: name.into(), init: ii.clone(), frag: ff.clone() }, st: all_settings(&mut r), sc: SignerCfg { alg: "ed25519".into(), tsa: TsaMode::None, ocsp: None } });
            }
        }
    }
    {
        let good = Arc::new(env.archive_ing.clone());
        let mut bad = env.archive_ing.clone();
        if bad.len() > 40 {
            let n = bad.len();
            bad[n / 2] ^= 1;
        }
        let notarch = Arc::new(env.pool.items[0].bytes.clone());
        for (name, ar) in [("ingredient-archive", good), ("tampered-archive", Arc::new(bad)), ("not-an-archive", notarch), ("empty", Arc::new(vec![]))] {
            for k in 0..2 {
                let mut r = rng.fork(500_000 + k);
                cases.push(Case { op: Op::FromArchive { name: name.into(), archive: ar.clone() }, st: all_settings(&mut r), sc: SignerCfg { alg: "ed25519".into(), tsa: TsaMode::None, ocsp: None } });
            }
        }
    }

    let results = par::par_map_watch(cases.len(), 600, |i| println!("INCONCLUSIVE: property=C40 watchdog: case {i} exceeded 600 s"), |i| run_case(&cases[i], &env));
    let mut by_pair: BTreeMap<String, u64> = BTreeMap::new();
    for r in &results {
        run.eval();
        run.nontrivial(r.class.clone());
        run.count("signer_calls_recorded", r.calls);
        run.count("timestamp_requests_recorded", r.ts_requests);
        *by_pair.entry(r.class.split(':').next().unwrap_or("").to_string()).or_insert(0) += 1;
        run.sample(if r.violation.is_some() { "violating" } else { "held" }, 2, r.sample.clone());
        if let Some((sig, what)) = &r.violation {
            run.violation(sig, what, r.sample.clone());
        }
    }
    run.set("cases_by_api_pair", json!(by_pair));
    run.engine("release", true, json!({"threads": par::workers(), "runtime": "tokio current_thread"}));
    run.finish(40);
}
