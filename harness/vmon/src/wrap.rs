//! Recording / misbehaving stream wrappers.
use crate::rng::Rng;
use std::io::{self, Read, Seek, SeekFrom, Write};

/// Counts I/O calls and bytes.
#[derive(Default, Clone, Debug)]
pub struct IoCounts {
    pub reads: u64,
    pub writes: u64,
    pub seeks: u64,
    pub flushes: u64,
    pub bytes_read: u64,
    pub bytes_written: u64,
}

pub struct CountingStream<S> {
    pub inner: S,
    pub counts: IoCounts,
}

impl<S> CountingStream<S> {
    pub fn new(inner: S) -> Self {
        CountingStream { inner, counts: IoCounts::default() }
    }
}

impl<S: Read> Read for CountingStream<S> {
    fn read(&mut self, buf: &mut [u8]) -> io::Result<usize> {
        self.counts.reads += 1;
        let n = self.inner.read(buf)?;
        self.counts.bytes_read += n as u64;
        Ok(n)
    }
}
impl<S: Write> Write for CountingStream<S> {
    fn write(&mut self, buf: &[u8]) -> io::Result<usize> {
        self.counts.writes += 1;
        let n = self.inner.write(buf)?;
        self.counts.bytes_written += n as u64;
        Ok(n)
    }
    fn flush(&mut self) -> io::Result<()> {
        self.counts.flushes += 1;
        self.inner.flush()
    }
}
impl<S: Seek> Seek for CountingStream<S> {
    fn seek(&mut self, pos: SeekFrom) -> io::Result<u64> {
        self.counts.seeks += 1;
        self.inner.seek(pos)
    }
}

/// Returns short reads / short writes of seeded sizes (1..=max_chunk), optionally injecting
/// `ErrorKind::Interrupted` (which std's read_exact/write_all retry).
pub struct ChoppyStream<S> {
    pub inner: S,
    pub rng: Rng,
    pub max_chunk: usize,
    pub interrupt_every: u64,
    n: u64,
}

impl<S> ChoppyStream<S> {
    pub fn new(inner: S, seed: u64, max_chunk: usize, interrupt_every: u64) -> Self {
        ChoppyStream { inner, rng: Rng::new(seed, "choppy"), max_chunk: max_chunk.max(1), interrupt_every, n: 0 }
    }
    fn tick(&mut self) -> io::Result<()> {
        self.n += 1;
        if self.interrupt_every > 0 && self.n % self.interrupt_every == 0 {
            return Err(io::Error::new(io::ErrorKind::Interrupted, "injected EINTR"));
        }
        Ok(())
    }
}

impl<S: Read> Read for ChoppyStream<S> {
    fn read(&mut self, buf: &mut [u8]) -> io::Result<usize> {
        if buf.is_empty() {
            return Ok(0);
        }
        self.tick()?;
        let k = 1 + self.rng.usize(self.max_chunk.min(buf.len()));
        self.inner.read(&mut buf[..k])
    }
}
impl<S: Write> Write for ChoppyStream<S> {
    fn write(&mut self, buf: &[u8]) -> io::Result<usize> {
        if buf.is_empty() {
            return Ok(0);
        }
        self.tick()?;
        let k = 1 + self.rng.usize(self.max_chunk.min(buf.len()));
        self.inner.write(&buf[..k])
    }
    fn flush(&mut self) -> io::Result<()> {
        self.inner.flush()
    }
}
impl<S: Seek> Seek for ChoppyStream<S> {
    fn seek(&mut self, pos: SeekFrom) -> io::Result<u64> {
        self.inner.seek(pos)
    }
}

#[derive(Clone, Copy, Debug, PartialEq, Eq)]
pub enum IoKind {
    Read,
    Write,
    Seek,
    Flush,
}

/// Fails the k-th call (1-based) of kind `kind` with an I/O error; `sticky` keeps failing afterwards.
pub struct FaultStream<S> {
    pub inner: S,
    pub kind: IoKind,
    pub k: u64,
    pub sticky: bool,
    pub seen: u64,
    pub fired: bool,
    pub counts: IoCounts,
}

impl<S> FaultStream<S> {
    pub fn new(inner: S, kind: IoKind, k: u64, sticky: bool) -> Self {
        FaultStream { inner, kind, k, sticky, seen: 0, fired: false, counts: IoCounts::default() }
    }
    fn check(&mut self, kind: IoKind) -> io::Result<()> {
        if kind == self.kind {
            self.seen += 1;
            if self.seen == self.k || (self.sticky && self.fired) {
                self.fired = true;
                return Err(io::Error::new(io::ErrorKind::Other, "injected I/O fault"));
            }
        }
        Ok(())
    }
}

impl<S: Read> Read for FaultStream<S> {
    fn read(&mut self, buf: &mut [u8]) -> io::Result<usize> {
        self.counts.reads += 1;
        self.check(IoKind::Read)?;
        self.inner.read(buf)
    }
}
impl<S: Write> Write for FaultStream<S> {
    fn write(&mut self, buf: &[u8]) -> io::Result<usize> {
        self.counts.writes += 1;
        self.check(IoKind::Write)?;
        self.inner.write(buf)
    }
    fn flush(&mut self) -> io::Result<()> {
        self.counts.flushes += 1;
        self.check(IoKind::Flush)?;
        self.inner.flush()
    }
}
impl<S: Seek> Seek for FaultStream<S> {
    fn seek(&mut self, pos: SeekFrom) -> io::Result<u64> {
        self.counts.seeks += 1;
        self.check(IoKind::Seek)?;
        self.inner.seek(pos)
    }
}
