//! Development probe: databox resource resolution.
use c2pa::{Builder, Context, Reader};
use serde_json::json;
use std::io::Cursor;
use vmon::{assets, signers};
fn main() {
    let jpg = assets::tiny_jpeg(None, false, &[]);
    let signer = signers::test_signer("ed25519");
    let ctx = Context::new().with_settings(json!({"builder": {"thumbnail": {"enabled": false}}}).to_string().as_str()).unwrap();
    let mut b = Builder::from_context(ctx).with_definition(json!({
        "claim_version": 1, "claim_generator_info": [{"name": "verif", "version": "1.0"}], "title": "databox",
        "ingredients": [{"title": "prompt", "format": "text/plain", "relationship": "inputTo",
            "data": {"format": "text/plain", "identifier": "prompt.txt"}, "data_types": [{"type": "c2pa.types.generator.prompt"}]}]
    })).unwrap();
    b.add_resource("prompt.txt", Cursor::new(b"C02 planted databox payload: pirate with bird on shoulder".to_vec())).unwrap();
    let mut d = Cursor::new(Vec::new());
    let store = b.sign(signer.as_ref(), "jpg", &mut Cursor::new(jpg), &mut d).unwrap();
    let signed = d.into_inner();
    let mut t = signed.clone();
    let pos = t.windows(6).position(|w| w == b"pirate").unwrap();
    t[pos] = b'P';
    for (name, bytes) in [("orig", &signed), ("tampered", &t)] {
        let r = Reader::from_context(Context::new()).with_stream("jpg", Cursor::new(bytes.clone())).unwrap();
        println!("{name}: state {:?}", r.validation_state());
        let v: serde_json::Value = serde_json::from_str(&r.json()).unwrap();
        let ing = &v["manifests"][v["active_manifest"].as_str().unwrap()]["ingredients"][0];
        println!("  data ref: {}", ing["data"]);
        let id = ing["data"]["identifier"].as_str().unwrap().to_string();
        let mut out = Cursor::new(Vec::new());
        match r.resource_to_stream(&id, &mut out) {
            Ok(n) => println!("  resource ok n={n} head={:?} store_len={}", String::from_utf8_lossy(&out.get_ref()[..out.get_ref().len().min(40)]), store.len()),
            Err(e) => println!("  resource err {e:?}"),
        }
    }
}
