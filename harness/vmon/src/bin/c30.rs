//! C30 — remote manifest references round-trip through XMP.
//!
//! Statement: for every format that supports remote references and every URL, the remote manifest
//! URL the reader extracts from an asset equals the URL that was embedded when signing with a
//! remote reference; embedding preserves the XMP properties that were already present.
//!
//! Workload: every tiny synthetic asset / small fixture whose handler reports remote-reference
//! support x XMP states written by injectors in this file (no XMP, properties as attributes, as
//! elements, existing dcterms:provenance (attribute / element / foreign prefix), packet without
//! trailer and padding, read-only trailer, two rdf:Description, non-`rdf` prefix) x URLs from a
//! grammar (query with `&`, fragment, %xx, literal `&amp;`, `< > " '`, unicode, 2 KB, IPv6 host) x
//! {remote only, remote + embedded}.
//!
//! Oracles (none of them uses SDK code or quick-xml):
//!   1. write side: the XMP packet is located in the output bytes by scanning for `<x:xmpmeta`
//!      (GIF: also in the de-framed data sub-blocks), parsed with the XML parser below and must carry a
//!      dcterms:provenance property whose *unescaped* value `e` is the URL given to the builder: either
//!      the same string ("verbatim") or another spelling of the same URL ("normalised": the builder
//!      stores the WHATWG serialisation, e.g. `é` -> `%C3%A9`, `<` -> `%3C` in queries; equality of the
//!      two spellings is decided by parsing both with the `url` crate).
//!   2. read side: `Reader` with `verify.remote_manifest_fetch=false` must fail with
//!      `RemoteManifestUrl(u')`, `u' == e` (string equality with what is embedded).  For remote +
//!      embedded the embedded manifest is first removed and the same is demanded.
//!   3. preservation: every (expanded-name, value) property of the input packet other than
//!      dcterms:provenance is present with an equal value in the output packet(s).
//! A cause seen on every format family that exercised its precondition gets the scope `any-fmt` in
//! its signature (it sits in the shared XMP code), otherwise the family is part of the signature.
use c2pa::{verif_hooks, Builder, Context, Reader};
use serde_json::json;
use std::collections::{BTreeMap, BTreeSet};
use std::io::Cursor;
use vmon::assets::{self, Asset};
use vmon::{embedkit, par, report, signers, Rng, Run};

// ------------------------------------------------------------------------------------------------
// minimal namespace-aware XML parser (XML 1.0 + Namespaces; no DTD)

const NS_RDF: &str = "http://www.w3.org/1999/02/22-rdf-syntax-ns#";
const NS_DCTERMS: &str = "http://purl.org/dc/terms/";
const NS_XML: &str = "http://www.w3.org/XML/1998/namespace";

#[derive(Debug, Clone)]
struct Attr {
    ns: String,
    local: String,
    value: String,
}

#[derive(Debug, Clone)]
enum Node {
    El(El),
    Text(String),
}

#[derive(Debug, Clone)]
struct El {
    ns: String,
    local: String,
    attrs: Vec<Attr>,
    children: Vec<Node>,
}

fn xml_unescape(s: &str, attr: bool) -> Result<String, String> {
    let mut out = String::with_capacity(s.len());
    let mut it = s.char_indices().peekable();
    while let Some((i, c)) = it.next() {
        if c == '&' {
            let rest = &s[i + 1..];
            let semi = rest.find(';').ok_or_else(|| "unterminated entity".to_string())?;
            let name = &rest[..semi];
            let ch = match name {
                "amp" => '&',
                "lt" => '<',
                "gt" => '>',
                "quot" => '"',
                "apos" => '\'',
                _ if name.starts_with("#x") => {
                    char::from_u32(u32::from_str_radix(&name[2..], 16).map_err(|e| e.to_string())?).ok_or("bad char ref")?
                }
                _ if name.starts_with('#') => char::from_u32(name[1..].parse::<u32>().map_err(|e| e.to_string())?).ok_or("bad char ref")?,
                _ => return Err(format!("unknown entity &{name};")),
            };
            out.push(ch);
            for _ in 0..semi + 1 {
                it.next();
            }
            // (entities are ASCII, so byte count == char count)
        } else if c == '<' {
            return Err("'<' in character data / attribute value".into());
        } else if attr && (c == '\t' || c == '\n' || c == '\r') {
            out.push(' ');
        } else {
            out.push(c);
        }
    }
    Ok(out)
}

struct P<'a> {
    s: &'a str,
    i: usize,
}

impl<'a> P<'a> {
    fn rest(&self) -> &'a str {
        &self.s[self.i..]
    }
    fn skip_ws(&mut self) {
        while let Some(c) = self.rest().chars().next() {
            if c == ' ' || c == '\t' || c == '\n' || c == '\r' {
                self.i += 1;
            } else {
                break;
            }
        }
    }
    fn name(&mut self) -> Result<&'a str, String> {
        let st = self.i;
        for c in self.rest().chars() {
            if c.is_alphanumeric() || c == ':' || c == '_' || c == '-' || c == '.' {
                self.i += c.len_utf8();
            } else {
                break;
            }
        }
        if self.i == st {
            return Err(format!("name expected at {}", st));
        }
        Ok(&self.s[st..self.i])
    }
    /// Skips comments / PIs / doctype / white space; returns true if something was skipped.
    fn skip_misc(&mut self) -> Result<bool, String> {
        let r = self.rest();
        if r.starts_with("<?") {
            let e = r.find("?>").ok_or("unterminated PI")?;
            self.i += e + 2;
            Ok(true)
        } else if r.starts_with("<!--") {
            let e = r.find("-->").ok_or("unterminated comment")?;
            self.i += e + 3;
            Ok(true)
        } else if r.starts_with("<!DOCTYPE") {
            let e = r.find('>').ok_or("unterminated doctype")?;
            self.i += e + 1;
            Ok(true)
        } else {
            Ok(false)
        }
    }
    fn element(&mut self, scopes: &mut Vec<BTreeMap<String, String>>) -> Result<El, String> {
        if !self.rest().starts_with('<') {
            return Err(format!("'<' expected at {}", self.i));
        }
        self.i += 1;
        let qname = self.name()?.to_string();
        let mut raw: Vec<(String, String)> = Vec::new();
        let empty;
        loop {
            self.skip_ws();
            let r = self.rest();
            if r.starts_with("/>") {
                self.i += 2;
                empty = true;
                break;
            }
            if r.starts_with('>') {
                self.i += 1;
                empty = false;
                break;
            }
            let an = self.name()?.to_string();
            self.skip_ws();
            if !self.rest().starts_with('=') {
                return Err(format!("'=' expected after attribute {an}"));
            }
            self.i += 1;
            self.skip_ws();
            let q = self.rest().chars().next().ok_or("eof in attribute")?;
            if q != '"' && q != '\'' {
                return Err(format!("unquoted attribute {an}"));
            }
            self.i += 1;
            let e = self.rest().find(q).ok_or("unterminated attribute value")?;
            let v = xml_unescape(&self.rest()[..e], true)?;
            self.i += e + 1;
            if raw.iter().any(|(n, _)| *n == an) {
                return Err(format!("duplicate attribute {an}"));
            }
            raw.push((an, v));
        }
        let mut scope = BTreeMap::new();
        for (n, v) in &raw {
            if n == "xmlns" {
                scope.insert(String::new(), v.clone());
            } else if let Some(p) = n.strip_prefix("xmlns:") {
                scope.insert(p.to_string(), v.clone());
            }
        }
        scopes.push(scope);
        let resolve = |prefix: &str, scopes: &Vec<BTreeMap<String, String>>| -> Option<String> {
            if prefix == "xml" {
                return Some(NS_XML.to_string());
            }
            scopes.iter().rev().find_map(|s| s.get(prefix).cloned())
        };
        let (ns, local) = match qname.split_once(':') {
            Some((p, l)) => (resolve(p, scopes).ok_or_else(|| format!("unbound prefix {p}"))?, l.to_string()),
            None => (resolve("", scopes).unwrap_or_default(), qname.clone()),
        };
        let mut attrs = Vec::new();
        for (n, v) in raw {
            if n == "xmlns" || n.starts_with("xmlns:") {
                continue;
            }
            let (ans, alocal) = match n.split_once(':') {
                Some((p, l)) => (resolve(p, scopes).ok_or_else(|| format!("unbound prefix {p}"))?, l.to_string()),
                None => (String::new(), n.clone()),
            };
            if attrs.iter().any(|a: &Attr| a.ns == ans && a.local == alocal) {
                scopes.pop();
                return Err(format!("duplicate expanded attribute {{{ans}}}{alocal}"));
            }
            attrs.push(Attr { ns: ans, local: alocal, value: v });
        }
        let mut children = Vec::new();
        if !empty {
            loop {
                let r = self.rest();
                if r.is_empty() {
                    return Err(format!("eof inside <{qname}>"));
                }
                if r.starts_with("</") {
                    self.i += 2;
                    let en = self.name()?;
                    if en != qname {
                        return Err(format!("</{en}> closes <{qname}>"));
                    }
                    self.skip_ws();
                    if !self.rest().starts_with('>') {
                        return Err("'>' expected".into());
                    }
                    self.i += 1;
                    break;
                }
                if r.starts_with("<![CDATA[") {
                    let e = r.find("]]>").ok_or("unterminated CDATA")?;
                    children.push(Node::Text(r[9..e].to_string()));
                    self.i += e + 3;
                    continue;
                }
                if self.skip_misc()? {
                    continue;
                }
                if r.starts_with('<') {
                    children.push(Node::El(self.element(scopes)?));
                    continue;
                }
                let e = r.find('<').unwrap_or(r.len());
                children.push(Node::Text(xml_unescape(&r[..e], false)?));
                self.i += e;
            }
        }
        scopes.pop();
        Ok(El { ns, local, attrs, children })
    }
}

/// Parses a document / packet: misc* element misc*.
fn parse_xml(s: &str) -> Result<El, String> {
    let s = s.strip_prefix('\u{feff}').unwrap_or(s);
    let mut p = P { s, i: 0 };
    loop {
        p.skip_ws();
        if !p.skip_misc()? {
            break;
        }
    }
    let mut scopes = Vec::new();
    let root = p.element(&mut scopes)?;
    loop {
        p.skip_ws();
        if !p.skip_misc()? {
            break;
        }
    }
    if !p.rest().is_empty() {
        return Err(format!("content after the root element at {}", p.i));
    }
    Ok(root)
}

fn canon(el: &El) -> String {
    let mut attrs: Vec<String> = el.attrs.iter().map(|a| format!("{{{}}}{}={:?}", a.ns, a.local, a.value)).collect();
    attrs.sort();
    let has_el = el.children.iter().any(|c| matches!(c, Node::El(_)));
    let mut body = String::new();
    for c in &el.children {
        match c {
            Node::El(e) => body.push_str(&canon(e)),
            Node::Text(t) => {
                if has_el {
                    body.push_str(t.trim());
                } else {
                    body.push_str(t);
                }
            }
        }
    }
    format!("<{{{}}}{} {}>{}</>", el.ns, el.local, attrs.join(" "), body)
}

fn prop_value(el: &El) -> String {
    let simple = el.attrs.iter().all(|a| a.ns == NS_XML) && el.children.iter().all(|c| matches!(c, Node::Text(_)));
    if simple && el.attrs.is_empty() {
        el.children.iter().map(|c| if let Node::Text(t) = c { t.as_str() } else { "" }).collect()
    } else {
        let mut e = el.clone();
        e.ns.clear();
        e.local.clear();
        canon(&e)
    }
}

fn find_rdf<'a>(el: &'a El, out: &mut Vec<&'a El>) {
    if el.ns == NS_RDF && el.local == "RDF" {
        out.push(el);
        return;
    }
    for c in &el.children {
        if let Node::El(e) = c {
            find_rdf(e, out);
        }
    }
}

/// (expanded property name, value, form) of every top-level rdf:Description in the packet.
fn xmp_props(root: &El) -> Vec<(String, String, &'static str)> {
    let mut rdfs = Vec::new();
    find_rdf(root, &mut rdfs);
    let mut out = Vec::new();
    for rdf in rdfs {
        for c in &rdf.children {
            let Node::El(d) = c else { continue };
            if !(d.ns == NS_RDF && d.local == "Description") {
                continue;
            }
            for a in &d.attrs {
                if a.ns == NS_XML || (a.ns == NS_RDF && a.local == "about") || (a.ns.is_empty() && a.local == "about") {
                    continue;
                }
                out.push((format!("{{{}}}{}", a.ns, a.local), a.value.clone(), "attr"));
            }
            for p in &d.children {
                if let Node::El(pe) = p {
                    out.push((format!("{{{}}}{}", pe.ns, pe.local), prop_value(pe), "elem"));
                }
            }
        }
    }
    out
}

// ------------------------------------------------------------------------------------------------
// locating XMP packets in raw bytes

fn find_sub(h: &[u8], n: &[u8], from: usize) -> Option<usize> {
    if n.is_empty() || h.len() < n.len() || from > h.len() - n.len() {
        return None;
    }
    (from..=h.len() - n.len()).find(|&i| &h[i..i + n.len()] == n)
}

/// GIF: the de-framed payload of every application extension named "XMP DataXMP" (the SDK writes the
/// packet as data sub-blocks), so that the packet becomes contiguous.
fn gif_unframe(data: &[u8]) -> Vec<Vec<u8>> {
    let mut out = Vec::new();
    let mut from = 0;
    while let Some(p) = find_sub(data, b"\x21\xFF\x0BXMP DataXMP", from) {
        let mut i = p + 14;
        let mut flat = Vec::new();
        let mut ok = false;
        while i < data.len() {
            let l = data[i] as usize;
            if l == 0 {
                ok = true;
                break;
            }
            if i + 1 + l > data.len() {
                break;
            }
            flat.extend_from_slice(&data[i + 1..i + 1 + l]);
            i += 1 + l;
        }
        if ok && find_sub(&flat, b"<x:xmpmeta", 0).is_some() {
            out.push(flat);
        }
        from = p + 14;
    }
    out
}

fn packets_in(hay: &[u8], out: &mut Vec<String>) {
    let mut from = 0;
    while let Some(s) = find_sub(hay, b"<x:xmpmeta", from) {
        let Some(e) = find_sub(hay, b"</x:xmpmeta>", s) else { break };
        let end = e + b"</x:xmpmeta>".len();
        match std::str::from_utf8(&hay[s..end]) {
            Ok(t) => {
                if !out.iter().any(|x| x == t) {
                    out.push(t.to_string());
                }
                from = end;
            }
            // a span broken by framing bytes: look for another start behind this one
            Err(_) => from = s + 1,
        }
    }
}

/// All `<x:xmpmeta … </x:xmpmeta>` spans (as UTF-8 strings) in `data`, de-duplicated.
fn find_packets(fmt_family: &str, data: &[u8]) -> Vec<String> {
    let mut out: Vec<String> = Vec::new();
    packets_in(data, &mut out);
    if fmt_family == "gif" {
        for flat in gif_unframe(data) {
            packets_in(&flat, &mut out);
        }
    }
    out
}

// ------------------------------------------------------------------------------------------------
// XMP states (input packets) and per-format injectors (workload only)

const XP_BEGIN: &str = "<?xpacket begin=\"\u{feff}\" id=\"W5M0MpCehiHzreSzNTczkc9d\"?>";
const OLD_URL: &str = "https://old.invalid/previous.c2pa?x=1&amp;y=2";

fn padding(n: usize) -> String {
    let mut s = String::new();
    for _ in 0..n / 100 {
        s.push_str(&" ".repeat(99));
        s.push('\n');
    }
    s
}

const SHAPES: &[&str] = &[
    "none", "attrs", "elems", "prov-attr", "prov-elem", "no-trailer", "bare-xmpmeta", "ro-trailer", "two-desc", "rdf-prefix", "prov-foreign-prefix",
    "tight",
];

/// The XMP packet for a state; None = the asset carries no XMP.
fn shape_xmp(shape: &str) -> Option<String> {
    let ns = "xmlns:dc=\"http://purl.org/dc/elements/1.1/\" xmlns:xmp=\"http://ns.adobe.com/xap/1.0/\" xmlns:xmpMM=\"http://ns.adobe.com/xap/1.0/mm/\" xmlns:v=\"https://verif.invalid/ns/1.0/\"";
    let attrs = "dc:format=\"image/x-verif\" xmp:CreatorTool=\"verif &amp; co &lt;tool&gt; &quot;q&quot; v1\" xmpMM:DocumentID=\"xmp.did:0a0a0a0a-0000-4000-8000-000000000001\" xmpMM:InstanceID=\"xmp.iid:0a0a0a0a-0000-4000-8000-000000000002\" v:note=\"caf\u{e9} \u{65e5}\u{672c} &#x1F600;\" v:query=\"k=1&amp;amp;l=2\"";
    let elems = "<dc:format>image/x-verif</dc:format><xmp:CreatorTool>verif &amp; co &lt;tool&gt; \"q\" v1</xmp:CreatorTool><dc:title><rdf:Alt><rdf:li xml:lang=\"x-default\">T&amp;itle</rdf:li><rdf:li xml:lang=\"fr\">Titre \u{e9}</rdf:li></rdf:Alt></dc:title><dc:creator><rdf:Seq><rdf:li>A</rdf:li><rdf:li>B &amp; C</rdf:li></rdf:Seq></dc:creator><v:struct rdf:parseType=\"Resource\"><v:a>1</v:a><v:b>two</v:b></v:struct><v:cdata><![CDATA[a<b&c]]></v:cdata>";
    let wrap = |desc: String, trailer: &str, pad: usize| -> String {
        format!("{XP_BEGIN}\n<x:xmpmeta xmlns:x=\"adobe:ns:meta/\" x:xmptk=\"verif 1.0\">\n <rdf:RDF xmlns:rdf=\"{NS_RDF}\">\n{desc}\n </rdf:RDF>\n</x:xmpmeta>\n{}{trailer}", padding(pad))
    };
    let end_w = "<?xpacket end=\"w\"?>";
    Some(match shape {
        "none" => return None,
        "attrs" => wrap(format!("  <rdf:Description rdf:about=\"\" {ns} {attrs}/>"), end_w, 2048),
        "elems" => wrap(format!("  <rdf:Description rdf:about=\"\" {ns}>{elems}</rdf:Description>"), end_w, 2048),
        "prov-attr" => wrap(
            format!("  <rdf:Description rdf:about=\"\" {ns} xmlns:dcterms=\"{NS_DCTERMS}\" dcterms:provenance=\"{OLD_URL}\" {attrs}>{elems}</rdf:Description>"),
            end_w,
            2048,
        ),
        "prov-elem" => wrap(
            format!("  <rdf:Description rdf:about=\"\" {ns} xmlns:dcterms=\"{NS_DCTERMS}\" {attrs}><dcterms:provenance>{OLD_URL}</dcterms:provenance>{elems}</rdf:Description>"),
            end_w,
            2048,
        ),
        // packet wrapper present but neither padding nor trailer
        "no-trailer" => wrap(format!("  <rdf:Description rdf:about=\"\" {ns} {attrs}>{elems}</rdf:Description>"), "", 0),
        // serialized XMP without any packet wrapper
        "bare-xmpmeta" => format!(
            "<x:xmpmeta xmlns:x=\"adobe:ns:meta/\"><rdf:RDF xmlns:rdf=\"{NS_RDF}\"><rdf:Description rdf:about=\"\" {ns} {attrs}>{elems}</rdf:Description></rdf:RDF></x:xmpmeta>"
        ),
        "ro-trailer" => wrap(format!("  <rdf:Description rdf:about=\"\" {ns} {attrs}/>"), "<?xpacket end=\"r\"?>", 0),
        "two-desc" => wrap(
            format!("  <rdf:Description rdf:about=\"\" {ns} {attrs}/>\n  <rdf:Description rdf:about=\"\" {ns}>{elems}</rdf:Description>"),
            end_w,
            1024,
        ),
        // legal RDF/XML: the rdf namespace bound to another prefix
        "rdf-prefix" => format!(
            "{XP_BEGIN}\n<x:xmpmeta xmlns:x=\"adobe:ns:meta/\">\n <r:RDF xmlns:r=\"{NS_RDF}\">\n  <r:Description r:about=\"\" {ns} {attrs}/>\n </r:RDF>\n</x:xmpmeta>\n{}{end_w}",
            padding(1024)
        ),
        // an existing reference whose namespace is bound to a prefix other than `dcterms`
        "prov-foreign-prefix" => wrap(format!("  <rdf:Description rdf:about=\"\" {ns} xmlns:dct=\"{NS_DCTERMS}\" dct:provenance=\"{OLD_URL}\" {attrs}/>"), end_w, 2048),
        // trailer directly after the content: no room to grow in place
        "tight" => format!(
            "{XP_BEGIN}<x:xmpmeta xmlns:x=\"adobe:ns:meta/\"><rdf:RDF xmlns:rdf=\"{NS_RDF}\"><rdf:Description rdf:about=\"\" {ns} {attrs}>{elems}</rdf:Description></rdf:RDF></x:xmpmeta>{end_w}"
        ),
        _ => unreachable!(),
    })
}

fn crc_chunk(typ: &[u8; 4], data: &[u8]) -> Vec<u8> {
    let mut v = Vec::new();
    v.extend_from_slice(&(data.len() as u32).to_be_bytes());
    v.extend_from_slice(typ);
    v.extend_from_slice(data);
    let mut h = crc32fast::Hasher::new();
    h.update(typ);
    h.update(data);
    v.extend_from_slice(&h.finalize().to_be_bytes());
    v
}

fn be_box(typ: &[u8; 4], payload: &[u8]) -> Vec<u8> {
    let mut v = ((payload.len() + 8) as u32).to_be_bytes().to_vec();
    v.extend_from_slice(typ);
    v.extend_from_slice(payload);
    v
}

fn tiff_with_xmp(xmp: &[u8]) -> Vec<u8> {
    // II classic TIFF: header, strip, xmp bytes, IFD
    let n = 37usize;
    let strip: Vec<u8> = (0..n).map(|i| (i * 13 % 256) as u8).collect();
    let mut v = vec![b'I', b'I', 42, 0, 0, 0, 0, 0];
    let strip_off = v.len() as u32;
    v.extend_from_slice(&strip);
    if v.len() % 2 == 1 {
        v.push(0);
    }
    let xmp_off = v.len() as u32;
    v.extend_from_slice(xmp);
    if v.len() % 2 == 1 {
        v.push(0);
    }
    let ifd_off = v.len() as u32;
    v[4..8].copy_from_slice(&ifd_off.to_le_bytes());
    let entries: Vec<(u16, u16, u32, u32)> = vec![
        (256, 3, 1, n as u32),
        (257, 3, 1, 1),
        (258, 3, 1, 8),
        (259, 3, 1, 1),
        (262, 3, 1, 1),
        (273, 4, 1, strip_off),
        (277, 3, 1, 1),
        (278, 3, 1, 1),
        (279, 4, 1, n as u32),
        (700, 1, xmp.len() as u32, xmp_off),
    ];
    v.extend_from_slice(&(entries.len() as u16).to_le_bytes());
    for (tag, typ, cnt, val) in entries {
        v.extend_from_slice(&tag.to_le_bytes());
        v.extend_from_slice(&typ.to_le_bytes());
        v.extend_from_slice(&cnt.to_le_bytes());
        v.extend_from_slice(&val.to_le_bytes());
    }
    v.extend_from_slice(&0u32.to_le_bytes());
    v
}

fn mp3_with_xmp(xmp: &[u8]) -> Vec<u8> {
    let mut frames = Vec::new();
    let mut f = b"TIT2".to_vec();
    let text = b"\0verif";
    f.extend_from_slice(&(text.len() as u32).to_be_bytes());
    f.extend_from_slice(&[0, 0]);
    f.extend_from_slice(text);
    frames.extend(f);
    let mut p = b"PRIV".to_vec();
    let mut body = b"XMP\0".to_vec();
    body.extend_from_slice(xmp);
    p.extend_from_slice(&(body.len() as u32).to_be_bytes());
    p.extend_from_slice(&[0, 0]);
    p.extend(body);
    frames.extend(p);
    let mut v = b"ID3\x03\x00\x00".to_vec();
    let sz = frames.len() as u32;
    v.extend_from_slice(&[((sz >> 21) & 0x7F) as u8, ((sz >> 14) & 0x7F) as u8, ((sz >> 7) & 0x7F) as u8, (sz & 0x7F) as u8]);
    v.extend(frames);
    v.extend(assets::tiny_mp3(2, false));
    v
}

/// Puts `xmp` into a tiny asset of the family; None = no injector for this family.
/// `variant` selects alternative encodings (GIF: "framed" = data sub-blocks as the SDK writes them,
/// "raw" = the layout of the XMP specification part 3).
fn inject(family: &str, variant: &str, xmp: &str) -> Option<(&'static str, Vec<u8>)> {
    let x = xmp.as_bytes();
    Some(match family {
        "jpeg" => ("jpg", assets::tiny_jpeg(Some(xmp), false, &[])),
        "png" => {
            let base = assets::tiny_png(false, &[]);
            let mut d = b"XML:com.adobe.xmp\0\0\0\0\0".to_vec();
            d.extend_from_slice(x);
            let mut v = base[..33].to_vec();
            v.extend(crc_chunk(b"iTXt", &d));
            v.extend_from_slice(&base[33..]);
            ("png", v)
        }
        "gif" => {
            let base = assets::tiny_gif(false, &[]);
            let mut ext = b"\x21\xFF\x0BXMP DataXMP".to_vec();
            let mut payload = x.to_vec();
            payload.push(1);
            for b in (0..=255u8).rev() {
                payload.push(b);
            }
            if variant == "raw" {
                // packet + magic trailer written verbatim; the trailer's last byte is the block terminator
                ext.extend_from_slice(&payload);
                ext.push(0);
            } else {
                for c in payload.chunks(255) {
                    ext.push(c.len() as u8);
                    ext.extend_from_slice(c);
                }
                ext.push(0);
            }
            let mut v = base[..19].to_vec();
            v.extend(ext);
            v.extend_from_slice(&base[19..]);
            ("gif", v)
        }
        "tiff" => ("tif", tiff_with_xmp(x)),
        "riff" => {
            let base = assets::tiny_wav(32, false);
            let mut v = base.clone();
            v.extend_from_slice(b"XMP ");
            v.extend_from_slice(&(x.len() as u32).to_le_bytes());
            v.extend_from_slice(x);
            if x.len() % 2 == 1 {
                v.push(0);
            }
            let sz = (v.len() - 8) as u32;
            v[4..8].copy_from_slice(&sz.to_le_bytes());
            ("wav", v)
        }
        "bmff" => {
            let mut v = assets::tiny_mp4(assets::Mp4Layout::MoovFirst, 64, false, false);
            let mut p = vec![0xbe, 0x7a, 0xcf, 0xcb, 0x97, 0xa9, 0x42, 0xe8, 0x9c, 0x71, 0x99, 0x94, 0x91, 0xe3, 0xaf, 0xac];
            p.extend_from_slice(x);
            v.extend(be_box(b"uuid", &p));
            ("mp4", v)
        }
        "svg" => {
            let v = format!(
                "<?xml version=\"1.0\" encoding=\"UTF-8\"?>\n<svg xmlns=\"http://www.w3.org/2000/svg\" width=\"4\" height=\"4\"><metadata>{xmp}</metadata><rect width=\"4\" height=\"4\" fill=\"#123456\"/></svg>\n"
            );
            ("svg", v.into_bytes())
        }
        "mp3" => ("mp3", mp3_with_xmp(x)),
        "jxl" => {
            let mut v = embedkit::tiny_jxl(false);
            v.extend(be_box(b"xml ", x));
            ("jxl", v)
        }
        _ => return None,
    })
}

/// Removes top-level `C2PA` chunks of the first RIFF chunk and fixes its size field.
fn riff_strip_c2pa(data: &[u8]) -> Option<Vec<u8>> {
    if data.len() < 12 || &data[..4] != b"RIFF" {
        return None;
    }
    let riff_len = u32::from_le_bytes(data[4..8].try_into().ok()?) as usize;
    let end = (8 + riff_len).min(data.len());
    let mut out = data[..12].to_vec();
    let mut i = 12;
    while i + 8 <= end {
        let l = u32::from_le_bytes(data[i + 4..i + 8].try_into().ok()?) as usize;
        let total = 8 + l + (l & 1);
        if i + total > end + 1 {
            return None;
        }
        let stop = (i + total).min(end);
        if &data[i..i + 4] != b"C2PA" {
            out.extend_from_slice(&data[i..stop]);
        }
        i = stop;
    }
    let new_len = (out.len() - 8) as u32;
    out[4..8].copy_from_slice(&new_len.to_le_bytes());
    out.extend_from_slice(&data[end..]);
    Some(out)
}

fn family_of(fmt: &str) -> &'static str {
    match fmt {
        "jpg" | "jpeg" => "jpeg",
        "png" => "png",
        "gif" => "gif",
        "tif" | "tiff" | "dng" => "tiff",
        "wav" | "webp" | "avi" => "riff",
        "mp4" | "m4a" | "mov" | "heic" | "heif" | "avif" => "bmff",
        "svg" => "svg",
        "mp3" => "mp3",
        "flac" => "flac",
        "jxl" => "jxl",
        "pdf" => "pdf",
        _ => "other",
    }
}

// ------------------------------------------------------------------------------------------------
// URL grammar

const FEATURES: &[&str] = &["query-amp", "fragment", "pct", "lit-amp-entity", "lt", "gt", "dquote", "squote", "unicode", "long2k", "ipv6", "lit-charref", "userinfo-port", "squote-path", "frag-special"];

fn build_url(features: &BTreeSet<&'static str>, rng: &mut Rng) -> String {
    let host = if features.contains("ipv6") {
        "[2001:db8::1]:8443".to_string()
    } else if features.contains("userinfo-port") {
        "user@verif.invalid:8080".to_string()
    } else {
        "verif.invalid".to_string()
    };
    let mut path = format!("/m/{}.c2pa", rng.ascii_lower(6));
    if features.contains("pct") {
        path.push_str("/a%20b%2Fc%C3%A9%26");
    }
    if features.contains("squote-path") {
        path.push_str("/it's");
    }
    if features.contains("unicode") {
        path.push_str("/caf\u{e9}-\u{65e5}\u{672c}-\u{1F600}");
    }
    if features.contains("long2k") {
        path.push('/');
        while path.len() < 2048 {
            path.push_str(&rng.ascii_lower(7));
            path.push('-');
        }
    }
    let mut q: Vec<String> = Vec::new();
    if features.contains("query-amp") {
        q.push("a=1".into());
        q.push("b=2".into());
    }
    if features.contains("lit-amp-entity") {
        q.push("e=x&amp;y".into());
    }
    if features.contains("lit-charref") {
        q.push("r=&lt;&quot;".into());
    }
    if features.contains("lt") {
        q.push("lt=1<2".into());
    }
    if features.contains("gt") {
        q.push("gt=2>1".into());
    }
    if features.contains("dquote") {
        q.push("dq=\"v\"".into());
    }
    if features.contains("squote") {
        q.push("sq='v'".into());
    }
    let mut u = format!("https://{host}{path}");
    if !q.is_empty() {
        u.push('?');
        u.push_str(&q.join("&"));
    }
    let mut frag: Vec<&str> = Vec::new();
    if features.contains("fragment") {
        frag.push("frag-1");
    }
    if features.contains("lit-charref") {
        frag.push("&#38;&#x26;");
    }
    if features.contains("frag-special") {
        frag.push("a&b'c");
    }
    if !frag.is_empty() {
        u.push('#');
        u.push_str(&frag.join("/"));
    }
    u
}

/// Which XML-special characters occur in `u` (the char class of a witness).
fn special_chars(u: &str) -> String {
    let mut s = String::new();
    for (c, n) in [('&', "amp"), ('<', "lt"), ('>', "gt"), ('"', "dquote"), ('\'', "squote")] {
        if u.contains(c) {
            if !s.is_empty() {
                s.push('+');
            }
            s.push_str(n);
        }
    }
    if s.is_empty() {
        s.push_str("no-xml-special");
    }
    s
}

// ------------------------------------------------------------------------------------------------
// one case

#[derive(Clone, Debug)]
struct Case {
    family: &'static str,
    fmt: &'static str,
    asset_name: String,
    shape: &'static str,
    bytes: Vec<u8>,
    url: String,
    feats: Vec<&'static str>,
    embed: bool,
    directed: bool,
}

#[derive(Default)]
struct Res {
    class: Option<String>,
    trivial: Option<String>,
    /// (sig, what, extra witness)
    /// (family, cause, class, precondition key, what, witness detail)
    violations: Vec<(String, String, String, String, String, serde_json::Value)>,
    /// preconditions this case exercised (xmp state, "xml-special")
    preconds: Vec<String>,
    counters: Vec<(String, u64)>,
    unjudged: Vec<String>,
}

fn settings() -> String {
    json!({"builder": {"thumbnail": {"enabled": false}}, "verify": {"verify_trust": false, "remote_manifest_fetch": false}}).to_string()
}

fn sign(c: &Case) -> Result<c2pa::Result<Vec<u8>>, String> {
    report::catch_sdk(|| {
        let ctx = Context::new().with_settings(settings().as_str())?;
        let mut b = Builder::from_context(ctx).with_definition(json!({"title": "c30", "assertions": [{"label": "org.verif.test", "data": {"k": 1}}]}))?;
        b.set_intent(c2pa::BuilderIntent::Create(c2pa::DigitalSourceType::DigitalCapture));
        b.set_remote_url(c.url.clone());
        b.set_no_embed(!c.embed);
        let signer = signers::test_signer("ed25519");
        let mut src = Cursor::new(c.bytes.clone());
        let mut dst = Cursor::new(Vec::new());
        b.sign(signer.as_ref(), c.fmt, &mut src, &mut dst)?;
        Ok(dst.into_inner())
    })
}

enum ReadBack {
    RemoteUrl(String),
    OtherErr(String),
    Ok { state: String, remote_url: Option<String>, embedded: bool },
    Panic(String),
}

fn read_back(fmt: &str, bytes: &[u8]) -> ReadBack {
    let r = report::catch_sdk(|| {
        let ctx = Context::new().with_settings(settings().as_str())?;
        Reader::from_context(ctx).with_stream(fmt, Cursor::new(bytes.to_vec()))
    });
    match r {
        Err(p) => ReadBack::Panic(p),
        Ok(Err(c2pa::Error::RemoteManifestUrl(u))) => ReadBack::RemoteUrl(u),
        Ok(Err(e)) => ReadBack::OtherErr(format!("{e:?}").chars().take(200).collect()),
        Ok(Ok(r)) => ReadBack::Ok { state: format!("{:?}", r.validation_state()), remote_url: r.remote_url().map(|s| s.to_string()), embedded: r.is_embedded() },
    }
}

fn props_of_packets(packets: &[String]) -> Result<Vec<(String, String, &'static str)>, String> {
    let mut out = Vec::new();
    for p in packets {
        let root = parse_xml(p)?;
        out.extend(xmp_props(&root));
    }
    Ok(out)
}

fn case_json(c: &Case) -> serde_json::Value {
    json!({"family": c.family, "format": c.fmt, "asset": c.asset_name, "xmp_shape": c.shape, "url": c.url, "url_features": c.feats, "mode": if c.embed {"remote+embedded"} else {"remote-only"}, "asset_hex": if c.bytes.len() <= 6000 { hex::encode(&c.bytes) } else { String::new() }})
}

fn run_case(c: &Case) -> Res {
    let mut res = Res::default();
    let mode = if c.embed { "embed" } else { "remote-only" };
    let chars = special_chars(&c.url);
    let prov_name = format!("{{{NS_DCTERMS}}}provenance");
    let shape_cls: String = c.shape.rsplit('@').next().unwrap_or(c.shape).to_string();
    let shape_key = shape_cls.clone();
    let mut viol = |res: &mut Res, scope: &str, cause: &str, cls: &str, what: String, extra: serde_json::Value| {
        let pre = if cause == "read-not-unescaped" { "xml-special".to_string() } else { shape_key.clone() };
        res.violations.push((scope.to_string(), cause.to_string(), cls.to_string(), pre, what, extra));
    };

    // input side (independent): the packet we injected must be found and parse
    let in_packets = find_packets(c.family, &c.bytes);
    let in_props = match props_of_packets(&in_packets) {
        Ok(p) => p,
        Err(e) => {
            res.trivial = Some(format!("input packet rejected by the harness parser: {e}"));
            return res;
        }
    };
    if c.shape != "none" && c.shape != "fixture" && c.shape != "signed" && in_props.is_empty() {
        res.trivial = Some("injected packet not found in the input".into());
        return res;
    }

    let out = match sign(c) {
        Err(p) => {
            viol(&mut res, c.family, "panic-sign", &format!("{}|{}", c.shape, chars), format!("panic while signing: {p}"), json!({}));
            return res;
        }
        Ok(Err(e)) => {
            // nothing was embedded: the statement has no "equals" to judge; counted, never silent
            res.unjudged.push(format!("sign-error:{}:{}:{}", c.family, c.shape, report::err_kind(&e)));
            res.class = Some(format!("{}|{}|{}|{}|sign-err:{}", c.family, c.shape, mode, chars, report::err_kind(&e)));
            return res;
        }
        Ok(Ok(o)) => o,
    };

    // ---- write side, independent
    let out_packets = find_packets(c.family, &out);
    let mut out_props = Vec::new();
    let mut per_packet: Vec<Vec<(String, String, &'static str)>> = Vec::new();
    let mut out_parse_err = None;
    for p in &out_packets {
        match props_of_packets(std::slice::from_ref(p)) {
            Ok(pp) => {
                out_props.extend(pp.clone());
                per_packet.push(pp);
            }
            Err(e) => out_parse_err = Some(e),
        }
    }
    let provs: Vec<&(String, String, &'static str)> = out_props.iter().filter(|p| p.0 == prov_name).collect();
    // `embedded` = the reference actually present in the output bytes (independent parse)
    let mut embedded: Option<String> = None;
    let mut spelling = "n/a";
    let same_url = |a: &str, b: &str| -> bool { matches!((url::Url::parse(a), url::Url::parse(b)), (Ok(x), Ok(y)) if x == y) };
    if let Some(e) = &out_parse_err {
        viol(&mut res, c.family, "output-packet-illformed", &shape_cls, format!("the XMP packet in the output is not (namespace-)well-formed: {e}"), json!({"packets": out_packets}));
    } else if provs.is_empty() {
        viol(&mut res, c.family, "write-missing", &shape_cls, format!("signing succeeded but no dcterms:provenance property is in the output XMP ({} packet(s) found)", out_packets.len()), json!({"packets": out_packets}));
    } else {
        if let Some(p) = provs.iter().find(|p| p.1 == c.url) {
            embedded = Some(p.1.clone());
            spelling = "verbatim";
        } else if let Some(p) = provs.iter().find(|p| same_url(&p.1, &c.url)) {
            // the builder stores the WHATWG serialisation of the URL: same URL, other spelling
            embedded = Some(p.1.clone());
            spelling = "normalised";
        } else {
            let got: Vec<&String> = provs.iter().map(|p| &p.1).collect();
            let normalised = url::Url::parse(&c.url).map(|u| u.to_string()).unwrap_or_default();
            let truncated = got.iter().any(|g| !g.is_empty() && (c.url.starts_with(g.as_str()) || normalised.starts_with(g.as_str())));
            viol(&mut res, c.family, "write-mismatch", if truncated { "truncated" } else { "altered" }, format!("dcterms:provenance written as {:?}, which is not the URL {:?}", got, c.url), json!({"packets": out_packets}));
        }
        if provs.len() > 1 {
            res.counters.push((format!("out_packet_has_{}_provenance_properties:{}", provs.len(), c.shape), 1));
            if provs.iter().any(|p| Some(&p.1) != embedded.as_ref()) {
                res.unjudged.push(format!("stale-second-provenance:{}", c.shape));
            }
        }
    }
    let write_ok = embedded.is_some();
    // the char class that matters for the XMP layer is that of the string that reached it
    let chars = embedded.as_deref().map(special_chars).unwrap_or(chars);
    res.counters.push((format!("out_packets:{}", out_packets.len().min(3)), 1));

    // ---- preservation: judged on the packet(s) that carry the new reference (rewriting containers such
    // as TIFF leave the bytes of the old packet behind as unreferenced data; those must not count)
    let live: Vec<(String, String, &'static str)> = per_packet.iter().filter(|pp| pp.iter().any(|p| p.0 == prov_name && Some(&p.1) == embedded.as_ref())).flatten().cloned().collect();
    if !live.is_empty() && live.len() != out_props.len() && c.family == "tiff" {
        res.counters.push(("dead_or_second_packet_ignored_for_preservation".into(), 1));
    }
    // (only for TIFF: elsewhere a second packet is part of the file's content, e.g. an SVG whose bare
    //  <x:xmpmeta> the handler does not recognise keeps it next to the new packet)
    let out_props: Vec<(String, String, &'static str)> = if live.is_empty() || c.family != "tiff" { out_props.clone() } else { live };
    let mut lost = Vec::new();
    if out_parse_err.is_none() {
        for (n, v, form) in &in_props {
            if *n == prov_name {
                continue;
            }
            match out_props.iter().find(|o| o.0 == *n && o.1 == *v) {
                Some(_) => {}
                None => {
                    let other: Vec<&String> = out_props.iter().filter(|o| o.0 == *n).map(|o| &o.1).collect();
                    lost.push(json!({"name": n, "form": form, "before": v, "after": other}));
                }
            }
        }
        res.counters.push(("properties_compared".into(), in_props.iter().filter(|p| p.0 != prov_name).count() as u64));
    }
    if !lost.is_empty() {
        let mut forms: BTreeSet<String> = lost.iter().map(|l| format!("{}-form", l["form"].as_str().unwrap_or("?"))).collect();
        if lost.len() + 1 >= in_props.len() {
            forms = ["all-properties".to_string()].into_iter().collect();
        }
        let cls = if c.shape.contains('@') { shape_cls.clone() } else { forms.into_iter().collect::<Vec<_>>().join("+") };
        viol(
            &mut res,
            c.family,
            "props-not-preserved",
            &cls,
            format!("{} of {} pre-existing XMP properties missing/changed after embedding", lost.len(), in_props.len()),
            json!({"lost": lost, "out_packets": out_packets}),
        );
    }

    // ---- read side
    let (subject, stripped) = if c.embed {
        // with an embedded manifest the reader does not consult the reference; remove the manifest first
        let r = if c.family == "riff" {
            // the SDK's RIFF removal is a no-op (write_cai with an empty store keeps the chunk): strip it here
            match riff_strip_c2pa(&out) {
                Some(b) => Ok(Ok(b)),
                None => Err("riff strip failed".to_string()),
            }
        } else {
            report::catch_sdk(|| {
                let mut dst = Cursor::new(Vec::new());
                verif_hooks::remove_jumbf_from_stream(c.fmt, &mut Cursor::new(out.clone()), &mut dst).map(|_| dst.into_inner())
            })
        };
        match r {
            Ok(Ok(b)) => (b, true),
            _ => {
                res.unjudged.push(format!("embed:remove-failed:{}", c.family));
                (Vec::new(), true)
            }
        }
    } else {
        (out.clone(), false)
    };
    let mut outcome = "n/a".to_string();
    if c.embed {
        match read_back(c.fmt, &out) {
            ReadBack::Ok { state, remote_url, embedded } => {
                res.counters.push((format!("embed_read_state:{state}"), 1));
                res.counters.push((format!("embed_reader_remote_url:{}", if remote_url.is_some() { "some" } else { "none" }), 1));
                if let Some(r) = remote_url {
                    if r != c.url {
                        viol(&mut res, "any-fmt", "reader-remote-url-mismatch", &chars, format!("Reader::remote_url() = {r:?}, embedded {:?}", c.url), json!({}));
                    }
                }
                if !embedded {
                    res.unjudged.push("embed:reader-says-not-embedded".into());
                }
            }
            ReadBack::Panic(p) => viol(&mut res, c.family, "panic-read", c.shape, format!("panic while reading: {p}"), json!({})),
            ReadBack::RemoteUrl(_) | ReadBack::OtherErr(_) => res.unjudged.push(format!("embed:read-error:{}", c.family)),
        }
    }
    if !subject.is_empty() {
        match read_back(c.fmt, &subject) {
            ReadBack::RemoteUrl(u2) if Some(&u2) == embedded.as_ref() => outcome = format!("url-equal-{spelling}"),
            ReadBack::RemoteUrl(u2) if embedded.is_none() && u2 == c.url => outcome = "url-equal-but-packet-unjudged".into(),
            ReadBack::RemoteUrl(u2) => {
                let escaped_form = xml_unescape(&u2, true).map(|x| Some(&x) == embedded.as_ref()).unwrap_or(false);
                if escaped_form && write_ok {
                    outcome = "url-xml-escaped".into();
                    // shared extraction code returns the raw (escaped) attribute text: one cause for all formats
                    viol(
                        &mut res,
                        c.family,
                        "read-not-unescaped",
                        "xml-special",
                        format!("embedded {:?}, reader returned {:?} (the XML-escaped spelling)", embedded.as_deref().unwrap_or(""), u2),
                        json!({"returned": u2, "family": c.family, "chars": chars}),
                    );
                } else if out_parse_err.is_some() {
                    outcome = "url-unjudged-packet-illformed".into();
                } else if !write_ok && provs.iter().any(|p| p.1 == u2) {
                    // the reader faithfully returns what was (wrongly) written: the write-mismatch report covers it
                    outcome = "url-equals-wrongly-written-value".into();
                } else {
                    outcome = "url-differs".into();
                    viol(&mut res, c.family, "read-mismatch", &format!("{}|{}", c.shape, chars), format!("signed with {:?}, embedded {:?}, reader returned {:?}", c.url, embedded, u2), json!({"returned": u2, "out_packets": out_packets}));
                }
            }
            ReadBack::OtherErr(e) => {
                outcome = "no-url".into();
                if write_ok || out_parse_err.is_some() {
                    // (when nothing was written the write-missing report above already covers it)
                }
                if write_ok
                {
                viol(&mut res, c.family, "read-missing", &format!("{}|{}", c.shape, if write_ok { "written-ok" } else { "not-written" }), format!("embedded {:?}, reader failed with {e} instead of RemoteManifestUrl", c.url), json!({"out_packets": out_packets, "stripped_embedded_manifest": stripped}));
                }
            }
            ReadBack::Ok { state, .. } => {
                outcome = "read-ok".into();
                let cause = if c.shape == "signed" && !c.embed { "stale-embedded-manifest-kept" } else { "read-ok-without-manifest" };
                viol(&mut res, c.family, cause, &shape_cls, format!("reader returned Ok({state}) instead of RemoteManifestUrl for an asset signed remote-only (fetching disabled)"), json!({"c2pa_chunk_or_box_still_present": find_sub(&subject, b"c2pa", 0).is_some() || find_sub(&subject, b"C2PA", 0).is_some()}));
            }
            ReadBack::Panic(p) => {
                outcome = "panic".into();
                viol(&mut res, c.family, "panic-read", c.shape, format!("panic while reading: {p}"), json!({}));
            }
        }
    }
    res.preconds.push(shape_cls.clone());
    if chars != "no-xml-special" && write_ok {
        res.preconds.push("xml-special".into());
    }
    let merged = if c.shape == "none" { "new-packet" } else if out_packets.len() == 1 { "merged" } else { "separate-packets" };
    res.class = Some(format!("{}|{}|{}|{}|{}|{}", c.family, c.shape, mode, chars, merged, outcome));
    res
}

fn main() {
    let mut run = Run::from_args("C30", "exploration");
    report::quiet_panics();
    run.rule = "cases = (asset of every remote-reference-capable format: tiny synthetic assets with an injected XMP packet in one of 12 states (GIF: in the SDK's sub-block framing and in the layout of the XMP specification), an already signed copy, plus small fixtures) x (URL built from a feature subset: query &, fragment, %xx, literal &amp;, literal &#38;, < > \" ', unicode, 2 KB, IPv6, userinfo+port) x {remote-only, remote+embedded}; directed singles of every feature on every family run on every invocation, the rest is seeded random. Non-trivial = signing succeeded and the read-back + independent packet parse were judged; distinct = (family, xmp state, mode, xml-special chars in URL, merged/new packet, outcome).".into();
    run.assumptions = vec![
        "the harness's own XML parser and byte scan for <x:xmpmeta … </x:xmpmeta> find the packet (GIF: after undoing data sub-block framing)".into(),
        "strings with spaces/control characters are not generated (not URLs); a URL or asset the builder refuses to sign is counted as unjudged (sign-error:*), not as a violation".into(),
        "the builder stores url::Url::parse(u).to_string(); a written value that parses to the same URL as u is accepted as 'normalised' and the reader must return exactly that written string".into(),
        "Reader::remote_url() is documented to be set only when the manifest was fetched remotely, so for remote+embedded output the reference is judged on the packet bytes and after removing the embedded manifest".into(),
        "a stale second dcterms:provenance property (element form) left next to the new attribute is reported, not judged".into(),
    ];

    // ---- formats
    let mut pool: Vec<Asset> = embedkit::extended_tiny_assets();
    pool.extend(assets::fixture_assets(run.tier.pick(150_000, 400_000)));
    let mut capable: BTreeMap<&'static str, Vec<Asset>> = BTreeMap::new();
    let mut incapable: BTreeSet<String> = BTreeSet::new();
    for a in pool {
        match verif_hooks::capabilities(a.format) {
            Some((true, _, _, true, _)) => capable.entry(family_of(a.format)).or_default().push(a),
            _ => {
                incapable.insert(a.format.to_string());
            }
        }
    }
    run.set("remote_ref_families", json!(capable.iter().map(|(k, v)| (k.to_string(), v.iter().map(|a| a.name.clone()).collect::<Vec<_>>())).collect::<BTreeMap<_, _>>()));
    run.set("formats_without_remote_ref", json!(incapable));

    let mut rng = Rng::new(run.seed, "c30");
    let mut cases: Vec<Case> = Vec::new();
    let feats_of = |names: &[&'static str]| -> BTreeSet<&'static str> { names.iter().cloned().collect() };

    // subjects: (family, fmt, name, shape, bytes)
    let mut subjects: Vec<(&'static str, &'static str, String, &'static str, Vec<u8>)> = Vec::new();
    for (fam, list) in &capable {
        for a in list {
            let origin_fixture = !a.name.starts_with("tiny");
            subjects.push((fam, a.format, a.name.clone(), if origin_fixture { "fixture" } else { "none" }, a.bytes.clone()));
        }
        // state "signed": the asset already carries an embedded manifest (produced by the SDK, workload only)
        if let Some(a) = list.iter().find(|a| a.name.starts_with("tiny")) {
            if let Some(b) = embedkit::builder_state(a, false) {
                subjects.push((fam, a.format, format!("{}+signed", a.name), "signed", b));
            }
        }
        for shape in SHAPES.iter().filter(|s| **s != "none") {
            let xmp = shape_xmp(shape).unwrap();
            for variant in if *fam == "gif" { vec!["framed", "raw"] } else { vec![""] } {
                if let Some((fmt, bytes)) = inject(fam, variant, &xmp) {
                    if verif_hooks::capabilities(fmt).map(|c| c.3).unwrap_or(false) {
                        let shape_label: &'static str = if variant == "raw" { Box::leak(format!("{shape}@gif-spec-layout").into_boxed_str()) } else { shape };
                        subjects.push((fam, fmt, format!("tiny+xmp{}{}", if variant.is_empty() { "" } else { "-" }, variant), shape_label, bytes));
                    }
                }
            }
        }
    }

    // directed: every single feature (and the plain URL, and the known suspect) on every subject that is
    // either XMP-less or the "attrs" state; every shape with the suspect URL
    let mut singles: Vec<Vec<&'static str>> = vec![vec![]];
    for f in FEATURES {
        singles.push(vec![f]);
    }
    for s in &subjects {
        let heavy = s.2.starts_with("tiny");
        for fs in &singles {
            if !(s.3 == "none" || s.3 == "attrs" || ((s.3 == "fixture" || s.3 == "signed") && (fs.is_empty() || fs[0] == "query-amp"))) {
                continue;
            }
            if !heavy && !(fs.is_empty() || fs[0] == "query-amp") {
                continue;
            }
            let set = feats_of(fs);
            cases.push(Case { family: s.0, fmt: s.1, asset_name: s.2.clone(), shape: s.3, bytes: s.4.clone(), url: build_url(&set, &mut rng), feats: fs.clone(), embed: false, directed: true });
        }
        if s.3 != "none" && s.3 != "attrs" && s.3 != "fixture" && s.3 != "signed" {
            for fs in [vec![], vec!["query-amp"]] {
                let set = feats_of(&fs);
                cases.push(Case { family: s.0, fmt: s.1, asset_name: s.2.clone(), shape: s.3, bytes: s.4.clone(), url: build_url(&set, &mut rng), feats: fs.clone(), embed: false, directed: true });
            }
        }
        // remote + embedded, plain and suspect URL
        if s.3 == "none" || s.3 == "attrs" || s.3 == "prov-attr" {
            for fs in [vec![], vec!["query-amp", "fragment"]] {
                let set = feats_of(&fs);
                cases.push(Case { family: s.0, fmt: s.1, asset_name: s.2.clone(), shape: s.3, bytes: s.4.clone(), url: build_url(&set, &mut rng), feats: fs.clone(), embed: true, directed: true });
            }
        }
    }
    let n_directed = cases.len();
    // random: feature subsets on random subjects
    let small: Vec<usize> = (0..subjects.len()).filter(|i| subjects[*i].4.len() < 20_000).collect();
    let n_random = run.tier.pick(1500, 40_000);
    for _ in 0..n_random {
        let s = &subjects[*rng.pick(&small)];
        let mut fs: Vec<&'static str> = Vec::new();
        let k = 1 + rng.usize(5);
        for _ in 0..k {
            let f = *rng.pick(FEATURES);
            if !fs.contains(&f) && !(f == "long2k" && rng.chance(2, 3)) {
                fs.push(f);
            }
        }
        let set = feats_of(&fs);
        cases.push(Case { family: s.0, fmt: s.1, asset_name: s.2.clone(), shape: s.3, bytes: s.4.clone(), url: build_url(&set, &mut rng), feats: fs, embed: rng.chance(1, 4), directed: false });
    }

    if let Some(p) = run.replay.clone() {
        let v: serde_json::Value = serde_json::from_slice(&std::fs::read(&p).expect("replay file")).expect("json");
        let w = &v["witness"];
        let fam = w["family"].as_str().unwrap().to_string();
        let fmt = w["format"].as_str().unwrap().to_string();
        let shape = w["xmp_shape"].as_str().unwrap().to_string();
        let c = Case {
            family: Box::leak(fam.into_boxed_str()),
            fmt: Box::leak(fmt.into_boxed_str()),
            asset_name: w["asset"].as_str().unwrap_or("").to_string(),
            shape: Box::leak(shape.into_boxed_str()),
            bytes: hex::decode(w["asset_hex"].as_str().unwrap_or("")).unwrap_or_default(),
            url: w["url"].as_str().unwrap().to_string(),
            feats: vec![],
            embed: w["mode"].as_str() == Some("remote+embedded"),
            directed: true,
        };
        let r = run_case(&c);
        println!("replay: class={:?} trivial={:?}", r.class, r.trivial);
        for (fam, cause, cls, _, what, _) in &r.violations {
            println!("replay: violation {fam}|{cause}|{cls} {what}");
        }
        std::process::exit(if r.violations.is_empty() { 0 } else { 1 });
    }

    if let Ok(f) = std::env::var("C30_PROBE") {
        for c in cases.iter().filter(|c| format!("{}|{}|{}|{}|{}", c.family, c.shape, c.asset_name, c.feats.join("+"), if c.embed { "embed" } else { "remote-only" }).contains(&f)) {
            let r = run_case(c);
            println!("--- {}|{}|{}|{:?}|embed={} url={}", c.family, c.shape, c.asset_name, c.feats, c.embed, c.url);
            println!("    class={:?} trivial={:?} unjudged={:?}", r.class, r.trivial, r.unjudged);
            for (fam, cause, cls, _, what, extra) in &r.violations {
                let e = extra.to_string();
                println!("    VIOL {fam}|{cause}|{cls} :: {what}\n         {}", &e[..e.len().min(3000)]);
            }
        }
        return;
    }
    let results = par::par_map_watch(cases.len(), 300, |i| eprintln!("INCONCLUSIVE: case {i} stalled"), |i| run_case(&cases[i]));
    let mut unjudged: BTreeMap<String, u64> = BTreeMap::new();
    let mut matrix: BTreeMap<String, BTreeSet<String>> = BTreeMap::new();
    let mut trivial: BTreeMap<String, u64> = BTreeMap::new();
    // which families exercised which precondition (xmp state / xml-special characters reaching the XMP layer)
    let mut tested: BTreeMap<String, BTreeSet<&'static str>> = BTreeMap::new();
    let mut failing: BTreeMap<(String, String, String), BTreeSet<String>> = BTreeMap::new();
    for (i, r) in results.iter().enumerate() {
        for p in &r.preconds {
            tested.entry(p.clone()).or_default().insert(cases[i].family);
        }
        for (fam, cause, cls, pre, _, _) in &r.violations {
            failing.entry((cause.clone(), cls.clone(), pre.clone())).or_default().insert(fam.clone());
        }
    }
    for (i, r) in results.iter().enumerate() {
        let c = &cases[i];
        run.eval();
        for (k, n) in &r.counters {
            run.count(k, *n);
        }
        for u in &r.unjudged {
            *unjudged.entry(u.clone()).or_insert(0) += 1;
            run.sample(&format!("unjudged:{}", u.split(':').next().unwrap_or("")), 1, case_json(c));
        }
        if let Some(t) = &r.trivial {
            *trivial.entry(format!("{}|{}|{}", c.family, c.shape, t)).or_insert(0) += 1;
            continue;
        }
        if let Some(cl) = &r.class {
            if !cl.contains("sign-err") {
                run.nontrivial(cl.clone());
                let kind = cl.rsplit('|').next().unwrap_or("").to_string();
                run.sample(&kind, 2, case_json(c));
            }
        }
        for (fam, cause, cls, pre, what, extra) in &r.violations {
            // a cause seen on every family that exercised its precondition sits in the shared XMP code:
            // one signature for all formats; otherwise the format family is part of the cause class
            let fams = failing.get(&(cause.clone(), cls.clone(), pre.clone())).cloned().unwrap_or_default();
            let all: BTreeSet<String> = tested.get(pre).map(|t| t.iter().map(|x| x.to_string()).collect()).unwrap_or_default();
            let scope = if fams.len() >= 3 && fams == all { "any-fmt".to_string() } else { fam.clone() };
            let sig = format!("{scope}|{cause}|{cls}");
            let mut w = case_json(c);
            w["detail"] = extra.clone();
            matrix.entry(sig.clone()).or_default().insert(format!("{}|{}|{}", c.family, c.shape, special_chars(&c.url)));
            run.violation(&sig, what, w);
        }
    }
    run.set("families_per_precondition", json!(tested));
    run.set("directed_cases", json!(n_directed));
    run.set("random_cases", json!(n_random));
    run.set("unjudged", json!(unjudged));
    run.set("trivial", json!(trivial));
    run.set("violation_matrix", json!(matrix));
    run.engine("release", true, json!({"threads": par::workers()}));
    run.finish(40);
}
