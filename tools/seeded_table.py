#!/usr/bin/env python3
"""Prints the markdown table of seeded changes (seeded/*/meta.json + result.json) for DESIGN.md §6.4."""
import json, os, glob
root = os.path.dirname(os.path.dirname(os.path.abspath(__file__)))
rows = []
for d in sorted(glob.glob(os.path.join(root, "seeded", "*"))):
    name = os.path.basename(d)
    try:
        m = json.load(open(os.path.join(d, "meta.json")))
    except Exception:
        continue
    r = {}
    if os.path.exists(os.path.join(d, "result.json")):
        r = json.load(open(os.path.join(d, "result.json")))
    title = (m.get("title") or m.get("what_it_breaks") or "")[:110].replace("|", "/").replace("\n", " ")
    caught = []
    missed = []
    for c, v in (r.get("checks") or {}).items():
        (caught if v.get("exit") == 1 else missed).append(f"{c}" + ("" if v.get("exit") in (0, 1) else f"(exit {v.get('exit')})"))
    sig = ""
    for c, v in (r.get("checks") or {}).items():
        if v.get("sigs"):
            sig = v["sigs"][0].split(" :: ")[0].replace("sig=", "")[:70]
            break
    status = "caught by " + ",".join(caught) if caught else ("MISSED by " + ",".join(missed) if missed else (r.get("error") or "not evaluated"))
    rows.append(f"| {name} | {title} | {status} | `{sig}` |")
print("| seeded change | what it does | result (quick tier) | first signature |")
print("|---|---|---|---|")
print("\n".join(rows))
