//! ID3v2.2/2.3/2.4 tag parser (id3.org informal standards) + the audio payload behind it:
//! MPEG audio (just the frame sync of the first frame) or native FLAC (`fLaC`, metadata block chain).
//!
//! Tag: "ID3" major minor flags size(4, sync-safe) [extended header] frames… [padding zeros] [footer].
//! v2.3 frame: id(4) size(4, plain BE) flags(2); v2.4 frame: id(4) size(4, sync-safe) flags(2) with
//! per-frame unsynchronisation (0x0002), data-length indicator (0x0001), grouping (0x0040);
//! v2.2 frame: id(3) size(3).  The C2PA manifest store is the object of a GEOB frame
//! (encoding, MIME "application/c2pa" (or the deprecated "application/x-c2pa-manifest-store"),
//! filename, description, data).
use super::{be32, sha, Container, Elem, Parsed};

fn syncsafe(b: &[u8]) -> Option<u32> {
    if b.len() < 4 || b[..4].iter().any(|x| x & 0x80 != 0) {
        return None;
    }
    Some(((b[0] as u32) << 21) | ((b[1] as u32) << 14) | ((b[2] as u32) << 7) | b[3] as u32)
}

fn de_unsync(b: &[u8]) -> Vec<u8> {
    let mut out = Vec::with_capacity(b.len());
    let mut i = 0;
    while i < b.len() {
        out.push(b[i]);
        if b[i] == 0xFF && i + 1 < b.len() && b[i + 1] == 0x00 {
            i += 1;
        }
        i += 1;
    }
    out
}

#[derive(Clone, Debug)]
pub struct Frame {
    pub id: String,
    pub start: usize,
    pub len: usize,
    pub flags: u16,
    /// decoded body (after unsynchronisation / data-length indicator removal)
    pub body: Vec<u8>,
    /// body position in the file when it is stored verbatim
    pub body_pos: Option<usize>,
}

#[derive(Clone, Debug, Default)]
pub struct Tag {
    pub version: u8,
    pub flags: u8,
    /// total size incl. header and footer
    pub total: usize,
    pub frames: Vec<Frame>,
    pub padding: usize,
}

pub fn parse_tag(data: &[u8]) -> Result<Option<Tag>, String> {
    if data.len() < 10 || &data[..3] != b"ID3" {
        return Ok(None);
    }
    let ver = data[3];
    if !(2..=4).contains(&ver) || data[4] == 0xFF {
        return Err(format!("unsupported ID3v2 version {ver}.{}", data[4]));
    }
    let flags = data[5];
    let size = syncsafe(&data[6..10]).ok_or("tag size is not sync-safe")? as usize;
    let footer = ver == 4 && flags & 0x10 != 0;
    let total = 10 + size + if footer { 10 } else { 0 };
    if total > data.len() {
        return Err(format!("ID3 tag size {size} runs past the end of the file"));
    }
    let whole_unsync = flags & 0x80 != 0 && ver < 4;
    let raw = &data[10..10 + size];
    let owned;
    let (body, verbatim): (&[u8], bool) = if whole_unsync {
        owned = de_unsync(raw);
        (&owned, false)
    } else {
        (raw, true)
    };
    let mut o = 0usize;
    if flags & 0x40 != 0 && ver >= 3 {
        // extended header
        let n = if ver == 4 { syncsafe(body.get(0..4).ok_or("ext header truncated")?).ok_or("ext header size not sync-safe")? as usize } else { be32(body, 0).ok_or("ext header truncated")? as usize + 4 };
        if n > body.len() {
            return Err("extended header larger than the tag".into());
        }
        o = n;
    }
    let mut tag = Tag { version: ver, flags, total, frames: vec![], padding: 0 };
    let hdr = if ver == 2 { 6 } else { 10 };
    while o < body.len() {
        if body[o] == 0 {
            if body[o..].iter().any(|b| *b != 0) {
                return Err(format!("non-zero bytes in the padding at tag offset {o}"));
            }
            tag.padding = body.len() - o;
            break;
        }
        if o + hdr > body.len() {
            return Err(format!("{} stray bytes at the end of the tag", body.len() - o));
        }
        let idlen = if ver == 2 { 3 } else { 4 };
        let id = &body[o..o + idlen];
        if !id.iter().all(|c| c.is_ascii_uppercase() || c.is_ascii_digit()) {
            return Err(format!("invalid frame id {:02x?} at tag offset {o}", id));
        }
        let (fsize, fflags) = match ver {
            2 => (((body[o + 3] as usize) << 16) | ((body[o + 4] as usize) << 8) | body[o + 5] as usize, 0u16),
            3 => (be32(body, o + 4).unwrap() as usize, u16::from_be_bytes([body[o + 8], body[o + 9]])),
            _ => (syncsafe(&body[o + 4..o + 8]).ok_or_else(|| format!("frame {} size is not sync-safe", String::from_utf8_lossy(id)))? as usize, u16::from_be_bytes([body[o + 8], body[o + 9]])),
        };
        if o + hdr + fsize > body.len() {
            return Err(format!("frame {} (size {fsize}) runs past the end of the tag", String::from_utf8_lossy(id)));
        }
        let rawbody = &body[o + hdr..o + hdr + fsize];
        let mut fb: Vec<u8> = rawbody.to_vec();
        let mut pos = if verbatim { Some(10 + o + hdr) } else { None };
        if ver == 4 {
            let mut skip = 0;
            if fflags & 0x0040 != 0 {
                skip += 1;
            }
            if fflags & 0x0001 != 0 {
                skip += 4;
            }
            if skip > fb.len() {
                return Err("frame shorter than its flagged extras".into());
            }
            fb.drain(..skip);
            pos = pos.map(|p| p + skip);
            if fflags & 0x0002 != 0 || flags & 0x80 != 0 {
                let d = de_unsync(&fb);
                if d.len() != fb.len() {
                    pos = None;
                }
                fb = d;
            }
            if fflags & 0x000C != 0 {
                pos = None; // compressed / encrypted: opaque
            }
        }
        tag.frames.push(Frame { id: String::from_utf8_lossy(id).to_string(), start: 10 + o, len: hdr + fsize, flags: fflags, body: fb, body_pos: pos });
        o += hdr + fsize;
    }
    Ok(Some(tag))
}

/// Splits a GEOB body: returns (mime, filename bytes, description bytes, data offset in body).
fn geob(body: &[u8]) -> Option<(String, Vec<u8>, Vec<u8>, usize)> {
    let enc = *body.first()?;
    let mut o = 1;
    let mend = body[o..].iter().position(|b| *b == 0)? + o;
    let mime = String::from_utf8_lossy(&body[o..mend]).to_string();
    o = mend + 1;
    let term = |o: usize| -> Option<(usize, usize)> {
        if enc == 1 || enc == 2 {
            let mut i = o;
            while i + 1 < body.len() {
                if body[i] == 0 && body[i + 1] == 0 {
                    return Some((i, i + 2));
                }
                i += 2;
            }
            None
        } else {
            body[o..].iter().position(|b| *b == 0).map(|p| (p + o, p + o + 1))
        }
    };
    let (fe, fnext) = term(o)?;
    let filename = body[o..fe].to_vec();
    let (de, dnext) = term(fnext)?;
    let desc = body[fnext..de].to_vec();
    Some((mime, filename, desc, dnext))
}

pub fn is_c2pa_mime(m: &str) -> bool {
    m == "application/c2pa" || m == "application/x-c2pa-manifest-store"
}

fn flac_blocks(data: &[u8], start: usize, p: &mut Parsed) -> Result<usize, String> {
    if data.get(start..start + 4) != Some(b"fLaC") {
        return Err("no fLaC marker after the ID3 tag".into());
    }
    p.elems.push(Elem::new("fLaC", start, 4, start, 4));
    let mut o = start + 4;
    let mut idx = 0;
    loop {
        let h = data.get(o..o + 4).ok_or("FLAC metadata block header truncated")?;
        let last = h[0] & 0x80 != 0;
        let typ = h[0] & 0x7F;
        let len = ((h[1] as usize) << 16) | ((h[2] as usize) << 8) | h[3] as usize;
        if typ == 127 {
            return Err("invalid FLAC metadata block type 127".into());
        }
        if o + 4 + len > data.len() {
            return Err(format!("FLAC metadata block {idx} (type {typ}, length {len}) runs past the end of the file"));
        }
        if idx == 0 && (typ != 0 || len != 34) {
            return Err("first FLAC metadata block is not a 34-byte STREAMINFO".into());
        }
        p.elems.push(Elem::new(format!("flac-meta:{typ}"), o, 4 + len, o + 4, len));
        o += 4 + len;
        idx += 1;
        if last {
            break;
        }
    }
    Ok(o)
}

pub fn parse(data: &[u8], flac: bool) -> Result<Parsed, String> {
    let mut p = Parsed::default();
    let tag = parse_tag(data)?;
    let mut o = 0usize;
    if let Some(t) = &tag {
        p.elems.push(Elem::new(format!("ID3v2.{}-header", t.version), 0, 10, 0, 10));
        let mut pos = 10;
        for f in &t.frames {
            if f.start > pos {
                p.elems.push(Elem::new("id3-exthdr", pos, f.start - pos, pos, f.start - pos));
            }
            let hdr = if t.version == 2 { 6 } else { 10 };
            let mut e = Elem::new(format!("frame:{}", f.id), f.start, f.len, f.start + hdr, f.len - hdr);
            if f.id == "GEOB" || f.id == "GEO" {
                if let Some((mime, _fname, _desc, doff)) = geob(&f.body) {
                    if is_c2pa_mime(&mime) {
                        e.is_c2pa = true;
                        let store = f.body[doff..].to_vec();
                        let (store_ranges, encoded) = match f.body_pos {
                            Some(bp) => (vec![(bp + doff, store.len())], false),
                            None => (vec![(f.start + hdr, f.len - hdr)], true),
                        };
                        p.containers.push(Container { ranges: vec![(f.start, f.len)], store, store_ranges, encoded, label: mime });
                    }
                }
            }
            pos = f.start + f.len;
            p.elems.push(e);
        }
        if t.total > pos {
            p.elems.push(Elem::new("id3-padding", pos, t.total - pos, pos, t.total - pos));
        }
        o = t.total;
    }
    if flac {
        let e = flac_blocks(data, o, &mut p)?;
        if e < data.len() {
            // first audio frame: 14-bit sync code 11111111111110
            if !(data[e] == 0xFF && data.get(e + 1).map(|b| b & 0xFC == 0xF8).unwrap_or(false)) {
                p.notes.push("no FLAC frame sync right after the metadata blocks".into());
            }
            p.elems.push(Elem::new("audio", e, data.len() - e, e, data.len() - e));
        }
    } else {
        if o >= data.len() {
            return Err("no audio data after the ID3 tag".into());
        }
        // MPEG audio frame sync (11 bits set); a second ID3 tag or junk here is a rejection
        if !(data[o] == 0xFF && data.get(o + 1).map(|b| b & 0xE0 == 0xE0).unwrap_or(false)) {
            if data[o..].starts_with(b"ID3") {
                return Err("a second ID3v2 tag follows the first".into());
            }
            p.notes.push("no MPEG frame sync right after the tag".into());
        }
        p.elems.push(Elem::new("audio", o, data.len() - o, o, data.len() - o));
    }
    Ok(p)
}

/// Media content: audio payload digest, FLAC metadata blocks, and the non-C2PA ID3 frames as
/// (id, decoded body digest) in order.  The tag version/flags/padding are not media.
pub fn media_sig(data: &[u8], flac: bool) -> Result<Vec<(String, String)>, String> {
    let p = parse(data, flac)?;
    let tag = parse_tag(data)?;
    let mut out = Vec::new();
    if let Some(t) = tag {
        for f in &t.frames {
            if f.id == "GEOB" || f.id == "GEO" {
                if let Some((mime, ..)) = geob(&f.body) {
                    if is_c2pa_mime(&mime) {
                        continue;
                    }
                }
            }
            out.push((format!("frame:{}", f.id), sha(&f.body)));
        }
    }
    for e in &p.elems {
        if e.kind == "audio" || e.kind.starts_with("flac-meta") || e.kind == "fLaC" {
            out.push((e.kind.clone(), sha(e.bytes(data))));
        }
    }
    Ok(out)
}

/// Decodes an ID3 text-frame body (encoding byte + text) to a canonical UTF-8 string.
fn text_meaning(body: &[u8]) -> Option<String> {
    let (enc, t) = body.split_first()?;
    let s = match enc {
        0 => t.iter().map(|b| *b as char).collect::<String>(),
        3 => String::from_utf8_lossy(t).to_string(),
        1 | 2 => {
            let (be, t) = if *enc == 2 {
                (true, t)
            } else if t.starts_with(&[0xFF, 0xFE]) {
                (false, &t[2..])
            } else if t.starts_with(&[0xFE, 0xFF]) {
                (true, &t[2..])
            } else {
                (false, t)
            };
            let u: Vec<u16> = t.chunks_exact(2).map(|c| if be { u16::from_be_bytes([c[0], c[1]]) } else { u16::from_le_bytes([c[0], c[1]]) }).collect();
            String::from_utf16_lossy(&u)
        }
        _ => return None,
    };
    Some(s.trim_end_matches('\0').to_string())
}

/// Like `media_sig`, but text frames (T***, except TXXX) are compared by decoded text, so that a
/// re-encoding that keeps the meaning (Latin-1 -> UTF-8) is distinguishable from a content change.
pub fn media_sig_meaning(data: &[u8], flac: bool) -> Result<Vec<(String, String)>, String> {
    let p = parse(data, flac)?;
    let tag = parse_tag(data)?;
    let mut out = Vec::new();
    if let Some(t) = tag {
        for f in &t.frames {
            if f.id == "GEOB" || f.id == "GEO" {
                if let Some((mime, ..)) = geob(&f.body) {
                    if is_c2pa_mime(&mime) {
                        continue;
                    }
                }
            }
            let h = if f.id.starts_with('T') && f.id != "TXXX" && f.id != "TXX" { text_meaning(&f.body).map(|s| sha(s.as_bytes())).unwrap_or_else(|| sha(&f.body)) } else { sha(&f.body) };
            out.push((format!("frame:{}", f.id), h));
        }
    }
    for e in &p.elems {
        if e.kind == "audio" || e.kind.starts_with("flac-meta") || e.kind == "fLaC" {
            out.push((e.kind.clone(), sha(e.bytes(data))));
        }
    }
    Ok(out)
}
