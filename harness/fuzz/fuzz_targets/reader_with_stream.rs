#![no_main]
//! C10 libFuzzer target: `Reader::with_stream` under the hint family selected by the first byte.
use libfuzzer_sys::fuzz_target;
use std::io::Cursor;

const HINTS: [&str; 12] = ["jpg", "png", "gif", "tif", "jxl", "wav", "mp4", "flac", "mp3", "pdf", "svg", "c2pa"];

fn settings() -> &'static str {
    r#"{"core":{"max_decompressed_manifest_size_in_mb":1},"verify":{"verify_trust":false,"remote_manifest_fetch":false,"ocsp_fetch":false}}"#
}

fuzz_target!(|data: &[u8]| {
    if data.is_empty() {
        return;
    }
    let hint = HINTS[(data[0] as usize) % HINTS.len()];
    let Ok(ctx) = c2pa::Context::new().with_settings(settings()) else { return };
    let _ = c2pa::Reader::from_context(ctx).with_stream(hint, Cursor::new(data[1..].to_vec()));
});
