//! C16 — Merkle proofs accept exactly the committed leaves.
//!
//! Drives: `verif_hooks::{merkle_layers, merkle_proof, merkle_layout}` (the crate-private
//! `C2PAMerkleTree`) to build trees and proofs, and the public
//! `c2pa::assertions::MerkleMap::check_merkle_tree` as the verifier under test.
//!
//! Oracle (written from the statement, shares no code with the SDK): the harness's own Merkle tree
//! over the same leaves (pairs hashed as H(left || right) with this crate's sha2; the unpaired last
//! node of a layer is carried up unchanged).  A tuple (row r, value, index, proof) is a *member*
//! iff index < n, value == leaf[index] and proof == the reference sibling path of `index` from the
//! leaf layer up to (not including) layer r ("no proof" and "empty proof" are the same thing).
//! Positives: the proof the SDK generates must verify (and is compared with the reference path).
//! Negatives: every mutated tuple that is not a member must be rejected.
use c2pa::assertions::{MerkleMap, VecByteBuf};
use c2pa::verif_hooks;
use serde_bytes::ByteBuf;
use serde_json::{json, Value};
use sha2::{Digest, Sha256, Sha384, Sha512};
use std::collections::BTreeMap;
use vmon::{par, report, Rng, Run};

type Bytes = Vec<u8>;

fn h2(alg: &str, l: &[u8], r: &[u8]) -> Bytes {
    match alg {
        "sha256" => {
            let mut h = Sha256::new();
            h.update(l);
            h.update(r);
            h.finalize().to_vec()
        }
        "sha384" => {
            let mut h = Sha384::new();
            h.update(l);
            h.update(r);
            h.finalize().to_vec()
        }
        _ => {
            let mut h = Sha512::new();
            h.update(l);
            h.update(r);
            h.finalize().to_vec()
        }
    }
}

fn hlen(alg: &str) -> usize {
    match alg {
        "sha256" => 32,
        "sha384" => 48,
        _ => 64,
    }
}

/// Reference tree: layer 0 = leaves; parent = H(l||r); an unpaired last node is carried up unchanged.
fn ref_layers(alg: &str, leaves: &[Bytes]) -> Vec<Vec<Bytes>> {
    let mut layers = vec![leaves.to_vec()];
    while layers.last().unwrap().len() > 1 {
        let cur = layers.last().unwrap();
        let mut up = Vec::with_capacity(cur.len() / 2 + 1);
        let mut i = 0;
        while i < cur.len() {
            if i + 1 < cur.len() {
                up.push(h2(alg, &cur[i], &cur[i + 1]));
            } else {
                up.push(cur[i].clone());
            }
            i += 2;
        }
        layers.push(up);
    }
    layers
}

/// Sibling path of leaf `idx` from layer 0 up to (not including) layer `row`.
fn ref_proof(layers: &[Vec<Bytes>], idx: usize, row: usize) -> Vec<Bytes> {
    let mut p = Vec::new();
    let mut i = idx;
    for layer in layers.iter().take(row) {
        let sib = i ^ 1;
        if sib < layer.len() {
            p.push(layer[sib].clone());
        }
        i /= 2;
    }
    p
}

#[derive(Clone, Debug)]
struct Tuple {
    row: usize,
    value: Bytes,
    index: usize,
    /// None = no proof supplied
    proof: Option<Vec<Bytes>>,
}

fn is_member(layers: &[Vec<Bytes>], t: &Tuple) -> bool {
    let n = layers[0].len();
    if t.row >= layers.len() || t.index >= n || t.value != layers[0][t.index] {
        return false;
    }
    let want = ref_proof(layers, t.index, t.row);
    match &t.proof {
        None => want.is_empty(),
        Some(p) => *p == want,
    }
}

/// The accepted proof has the canonical path as a strict prefix (=> trailing elements never consumed).
fn canonical_is_strict_prefix(layers: &[Vec<Bytes>], t: &Tuple) -> bool {
    let n = layers[0].len();
    if t.row >= layers.len() || t.index >= n || t.value != layers[0][t.index] {
        return false;
    }
    let want = ref_proof(layers, t.index, t.row);
    match &t.proof {
        Some(p) => p.len() > want.len() && p[..want.len()] == want[..],
        None => false,
    }
}

fn mm_of(alg: &str, n: usize, row_hashes: &[Bytes]) -> MerkleMap {
    MerkleMap {
        unique_id: 1,
        local_id: 1,
        count: n,
        alg: Some(alg.to_string()),
        init_hash: None,
        hashes: VecByteBuf(row_hashes.iter().map(|h| ByteBuf::from(h.clone())).collect()),
        fixed_block_size: None,
        variable_block_sizes: None,
    }
}

fn sdk_check(mm: &MerkleMap, alg: &str, t: &Tuple) -> Result<bool, String> {
    let proof = t.proof.as_ref().map(|p| VecByteBuf(p.iter().map(|h| ByteBuf::from(h.clone())).collect()));
    report::catch_sdk(|| mm.check_merkle_tree(alg, &t.value, t.index, &proof))
}

#[derive(Clone, Debug)]
struct Work {
    n: usize,
    alg: &'static str,
    hash_leaves: bool,
    /// 0 = all leaves distinct (random), k>0 = leaves drawn from k distinct values (duplicates)
    dup_alphabet: usize,
    /// all leaves (false) or a sample of leaves (true)
    sample_leaves: bool,
}

#[derive(Default)]
struct Out {
    evals: u64,
    classes: BTreeMap<String, u64>,
    counters: BTreeMap<String, u64>,
    /// (sig, what, witness)
    violations: Vec<(String, String, Value)>,
    samples: Vec<(String, Value)>,
}

/// Keeps at most 3 witnesses per signature per tree; the rest are only counted.
fn push_v(out: &mut Out, v: (String, String, Value)) {
    *out.counters.entry(format!("violations:{}", v.0)).or_insert(0) += 1;
    if out.violations.iter().filter(|x| x.0 == v.0).count() < 3 {
        out.violations.push(v);
    }
}

fn n_class(n: usize) -> &'static str {
    if n == 1 {
        "n=1"
    } else if n.is_power_of_two() {
        "n=2^k"
    } else if (n - 1).is_power_of_two() {
        "n=2^k+1"
    } else if (n + 1).is_power_of_two() {
        "n=2^k-1"
    } else if n % 2 == 1 {
        "n-odd"
    } else {
        "n-even"
    }
}

fn row_class(row: usize, nrows: usize) -> &'static str {
    if row == 0 {
        "leaf-row"
    } else if row + 1 == nrows {
        "root-row"
    } else {
        "mid-row"
    }
}

fn hexs(v: &[Bytes]) -> Vec<String> {
    v.iter().map(hex::encode).collect()
}

fn witness(w: &Work, row_hashes: &[Bytes], t: &Tuple, kind: &str) -> Value {
    json!({
        "n": w.n, "alg": w.alg, "hash_leaves": w.hash_leaves, "dup_alphabet": w.dup_alphabet,
        "kind": kind, "row": t.row, "stored_hashes": hexs(row_hashes),
        "value": hex::encode(&t.value), "index": t.index.to_string(),
        "proof": t.proof.as_ref().map(|p| hexs(p)),
    })
}

fn leaves_for(w: &Work, seed: u64) -> Vec<Bytes> {
    let mut rng = Rng::new(seed ^ (w.n as u64) << 20 ^ (w.dup_alphabet as u64) << 40, &format!("c16leaves-{}-{}", w.alg, w.hash_leaves));
    let len = |rng: &mut Rng| if w.hash_leaves { 1 + rng.usize(40) } else { hlen(w.alg) };
    if w.dup_alphabet > 0 {
        let l = len(&mut rng);
        let alphabet: Vec<Bytes> = (0..w.dup_alphabet).map(|_| rng.bytes(l)).collect();
        (0..w.n).map(|_| rng.pick(&alphabet).clone()).collect()
    } else {
        (0..w.n)
            .map(|_| {
                let l = len(&mut rng);
                rng.bytes(l)
            })
            .collect()
    }
}

fn flip(b: &[u8], rng: &mut Rng) -> Bytes {
    let mut v = b.to_vec();
    if v.is_empty() {
        v.push(1);
    } else {
        let i = rng.usize(v.len());
        v[i] ^= 1 << rng.below(8);
    }
    v
}

fn run_work(w: &Work, seed: u64) -> Out {
    let mut out = Out::default();
    let raw_leaves = leaves_for(w, seed);
    let n = w.n;
    let alg = w.alg;
    let mut rng = Rng::new(seed, &format!("c16mut-{}-{}-{}-{}", n, alg, w.hash_leaves, w.dup_alphabet));
    let mut bump = |out: &mut Out, k: &str, v: u64| *out.counters.entry(k.to_string()).or_insert(0) += v;

    // --- tree construction through the hook, compared with the reference
    let sdk_layers = match report::catch_sdk(|| verif_hooks::merkle_layers(raw_leaves.clone(), alg, w.hash_leaves)) {
        Ok(l) => l,
        Err(p) => {
            push_v(&mut out, ("panic|merkle_layers".into(), format!("panic building tree n={n}: {p}"), json!({"n": n, "alg": alg})));
            return out;
        }
    };
    let leaves: Vec<Bytes> = if w.hash_leaves { raw_leaves.iter().map(|l| h2(alg, l, b"")).collect() } else { raw_leaves.clone() };
    let layers = ref_layers(alg, &leaves);
    out.evals += 1;
    if sdk_layers != layers {
        let what = if sdk_layers.len() != layers.len() {
            format!("n={n}: SDK tree has {} layers, reference {}", sdk_layers.len(), layers.len())
        } else {
            let r = (0..layers.len()).find(|r| sdk_layers[*r] != layers[*r]).unwrap();
            format!("n={n}: SDK layer {r} (len {}) differs from reference layer (len {})", sdk_layers[r].len(), layers[r].len())
        };
        push_v(&mut out, ("model|layers".into(), what, json!({"n": n, "alg": alg, "hash_leaves": w.hash_leaves, "leaves": hexs(&raw_leaves)})));
        // keep going: the statement is about proofs verifying against the *stored* (SDK) rows
    } else {
        bump(&mut out, "trees_equal_reference", 1);
    }
    let layout = report::catch_sdk(|| verif_hooks::merkle_layout(n));
    let ref_layout: Vec<usize> = layers.iter().map(|l| l.len()).collect();
    out.evals += 1;
    match layout {
        Ok(l) if l == ref_layout => bump(&mut out, "layouts_equal_reference", 1),
        Ok(l) => push_v(&mut out, ("model|layout".into(), format!("n={n}: to_layout {:?} != reference {:?}", l, ref_layout), json!({"n": n}))),
        Err(p) => push_v(&mut out, ("panic|merkle_layout".into(), format!("n={n}: {p}"), json!({"n": n}))),
    }
    // Positives/negatives are judged against the rows the SDK itself would store.
    let stored = &sdk_layers;
    if stored.is_empty() || stored[0].len() != n {
        return out;
    }
    let member_layers: &Vec<Vec<Bytes>> = if sdk_layers == layers { &layers } else { return out };
    let nrows = stored.len();

    let leaf_ids: Vec<usize> = if w.sample_leaves && n > 12 {
        let mut v = vec![0, 1, 2, n / 2, n - 3, n - 2, n - 1];
        for _ in 0..5 {
            v.push(rng.usize(n));
        }
        v.sort();
        v.dedup();
        v
    } else {
        (0..n).collect()
    };

    for row in 0..nrows {
        let row_hashes = &stored[row];
        let mm = mm_of(alg, n, row_hashes);
        for &idx in &leaf_ids {
            let cls = |kind: &str, outcome: &str| format!("{}|{}|{}|{}{}", n_class(n), row_class(row, nrows), kind, outcome, if w.dup_alphabet > 0 { "|dup-leaves" } else { "" });
            // ---- positive: the proof the SDK generates
            let sdk_proof = match report::catch_sdk(|| verif_hooks::merkle_proof(raw_leaves.clone(), alg, w.hash_leaves, idx, row)) {
                Ok(Ok(p)) => p,
                Ok(Err(e)) => {
                    push_v(&mut out, ("reject|proof-generation".into(), format!("n={n} row={row} idx={idx}: get_proof_by_index failed: {e}"), json!({"n": n, "row": row, "index": idx})));
                    continue;
                }
                Err(p) => {
                    push_v(&mut out, ("panic|merkle_proof".into(), format!("n={n} row={row} idx={idx}: {p}"), json!({"n": n, "row": row, "index": idx})));
                    continue;
                }
            };
            let value = stored[0][idx].clone();
            // the SDK stores an empty proof as "no proof" (None); both spellings are judged
            let as_stored = Tuple { row, value: value.clone(), index: idx, proof: if sdk_proof.is_empty() { None } else { Some(sdk_proof.clone()) } };
            let mut positives = vec![("sdk-proof", as_stored.clone())];
            if sdk_proof.is_empty() {
                positives.push(("sdk-proof-empty-some", Tuple { proof: Some(vec![]), ..as_stored.clone() }));
            }
            for (kind, t) in &positives {
                out.evals += 1;
                match sdk_check(&mm, alg, t) {
                    Ok(true) => {
                        *out.classes.entry(cls(kind, "accepted")).or_insert(0) += 1;
                        if out.samples.len() < 2 {
                            out.samples.push(("positive".into(), witness(w, row_hashes, t, kind)));
                        }
                    }
                    Ok(false) => push_v(&mut out, ("reject|sdk-proof".into(), format!("n={n} row={row} idx={idx}: the SDK's own proof ({} elements) does not verify", sdk_proof.len()), witness(w, row_hashes, t, kind))),
                    Err(p) => push_v(&mut out, ("panic|check_merkle_tree".into(), format!("n={n} row={row} idx={idx}: {p}"), witness(w, row_hashes, t, kind))),
                }
            }
            let want = ref_proof(member_layers, idx, row);
            out.evals += 1;
            if sdk_proof != want {
                push_v(&mut out, ("model|proof".into(), format!("n={n} row={row} idx={idx}: SDK proof has {} elements, reference path {}{}", sdk_proof.len(), want.len(), if sdk_proof.len() == want.len() { " (contents differ)" } else { "" }), witness(w, row_hashes, &as_stored, "sdk-proof")));
                continue;
            }
            bump(&mut out, "proofs_equal_reference", 1);
            bump(&mut out, &format!("proof_len={}", want.len()), 1);

            // ---- negatives derived from this positive
            let hl = value.len();
            let garbage = rng.bytes(hl);
            let base = Tuple { row, value: value.clone(), index: idx, proof: Some(want.clone()) };
            let mut negs: Vec<(&'static str, Tuple)> = Vec::new();
            negs.push(("leaf-flip", Tuple { value: flip(&value, &mut rng), ..base.clone() }));
            negs.push(("leaf-garbage", Tuple { value: garbage.clone(), ..base.clone() }));
            if n > 1 {
                let j = (idx + 1 + rng.usize(n - 1)) % n;
                negs.push(("leaf-other", Tuple { value: stored[0][j].clone(), ..base.clone() }));
                // an inner node presented as the leaf
                if row > 0 {
                    negs.push(("leaf-inner-node", Tuple { value: stored[1.min(nrows - 1)][idx / 2].clone(), ..base.clone() }));
                }
            }
            negs.push(("leaf-truncated", Tuple { value: value[..hl - 1].to_vec(), ..base.clone() }));
            if idx + 1 < n {
                negs.push(("index+1", Tuple { index: idx + 1, ..base.clone() }));
            }
            if idx > 0 {
                negs.push(("index-1", Tuple { index: idx - 1, ..base.clone() }));
            }
            if idx ^ 1 < n && (idx ^ 1) != idx + 1 && (idx ^ 1) + 1 != idx {
                negs.push(("index-sibling", Tuple { index: idx ^ 1, ..base.clone() }));
            }
            if n > 2 {
                let j = (idx + 2 + rng.usize(n - 2)) % n;
                if j != idx {
                    negs.push(("index-random", Tuple { index: j, ..base.clone() }));
                }
            }
            for (k, oob) in [("index=count", n), ("index=count+1", n + 1), ("index+count", idx + n), ("index+2^k", idx + n.next_power_of_two() * 2), ("index=max", usize::MAX), ("index=max-1", usize::MAX - 1)] {
                negs.push((k, Tuple { index: oob, ..base.clone() }));
            }
            // the same out-of-range indices without any proof (the proof-less playback only halves the index)
            for (k, oob) in [("index=count,no-proof", n), ("index=count+1,no-proof", n + 1), ("index=2*count,no-proof", 2 * n)] {
                negs.push((k, Tuple { index: oob, proof: None, ..base.clone() }));
            }
            if !want.is_empty() {
                negs.push(("proof-none", Tuple { proof: None, ..base.clone() }));
                negs.push(("proof-emptied", Tuple { proof: Some(vec![]), ..base.clone() }));
                for d in 0..want.len() {
                    let mut p = want.clone();
                    p.remove(d);
                    let kind = if d + 1 == want.len() { "proof-drop-last" } else if d == 0 { "proof-drop-first" } else { "proof-drop-mid" };
                    negs.push((kind, Tuple { proof: Some(p), ..base.clone() }));
                }
                for d in 0..want.len() {
                    let mut p = want.clone();
                    p[d] = flip(&p[d], &mut rng);
                    negs.push(("proof-flip", Tuple { proof: Some(p), ..base.clone() }));
                }
                for d in 0..want.len().saturating_sub(1) {
                    let mut p = want.clone();
                    p.swap(d, d + 1);
                    negs.push(("proof-swap", Tuple { proof: Some(p), ..base.clone() }));
                }
                let mut p = want.clone();
                p.reverse();
                negs.push(("proof-reversed", Tuple { proof: Some(p), ..base.clone() }));
                let mut p = want.clone();
                p[0] = value.clone();
                negs.push(("proof-self-as-sibling", Tuple { proof: Some(p), ..base.clone() }));
            }
            {
                let mut p = want.clone();
                p.push(garbage.clone());
                negs.push(("proof-append-garbage", Tuple { proof: Some(p), ..base.clone() }));
                let mut p = want.clone();
                p.push(want.last().cloned().unwrap_or_else(|| value.clone()));
                negs.push(("proof-append-duplicate", Tuple { proof: Some(p), ..base.clone() }));
                let mut p = want.clone();
                p.push(stored[nrows - 1][0].clone());
                p.push(garbage.clone());
                negs.push(("proof-append-two", Tuple { proof: Some(p), ..base.clone() }));
                let mut p = want.clone();
                p.insert(0, garbage.clone());
                negs.push(("proof-prepend-garbage", Tuple { proof: Some(p), ..base.clone() }));
                let mut p = want.clone();
                p.push(Vec::new());
                negs.push(("proof-append-empty-element", Tuple { proof: Some(p), ..base.clone() }));
            }
            if n > 1 {
                for (k, j) in [("proof-of-sibling", idx ^ 1), ("proof-of-idx+2", idx + 2), ("proof-of-random", rng.usize(n)), ("proof-of-last", n - 1), ("proof-of-first", 0)] {
                    if j < n && j != idx {
                        negs.push((k, Tuple { proof: Some(ref_proof(member_layers, j, row)), ..base.clone() }));
                    }
                }
            }
            // proofs computed for another stored row, played against this row
            if row + 1 < nrows {
                negs.push(("proof-for-higher-row", Tuple { proof: Some(ref_proof(member_layers, idx, row + 1)), ..base.clone() }));
            }
            if row > 0 {
                negs.push(("proof-for-lower-row", Tuple { proof: Some(ref_proof(member_layers, idx, row - 1)), ..base.clone() }));
            }

            for (kind, t) in negs {
                let member = is_member(member_layers, &t);
                out.evals += 1;
                let r = sdk_check(&mm, alg, &t);
                match (member, r) {
                    (_, Err(p)) => push_v(&mut out, (format!("panic|check_merkle_tree|{}", kind_family(kind)), format!("n={n} row={row} idx={idx} {kind}: {p}"), witness(w, row_hashes, &t, kind))),
                    (true, Ok(true)) => {
                        // the mutation produced another member (duplicate leaves, promoted nodes): judged as a positive
                        *out.classes.entry(cls(kind, "member-accepted")).or_insert(0) += 1;
                        bump(&mut out, "mutations_that_are_members", 1);
                    }
                    (true, Ok(false)) => push_v(&mut out, ("reject|member".into(), format!("n={n} row={row} idx={idx} {kind}: tuple is a member by the reference tree but was rejected"), witness(w, row_hashes, &t, kind))),
                    (false, Ok(false)) => {
                        *out.classes.entry(cls(kind, "rejected")).or_insert(0) += 1;
                        if out.samples.len() < 4 && kind.starts_with("proof-") {
                            out.samples.push(("negative".into(), witness(w, row_hashes, &t, kind)));
                        }
                    }
                    (false, Ok(true)) => {
                        let sig = if canonical_is_strict_prefix(member_layers, &t) {
                            // cause class: playback stops at the stored row without checking that the proof was used up
                            "accept|trailing-proof-elements-unconsumed".to_string()
                        } else {
                            format!("accept|{}", kind_family(kind))
                        };
                        bump(&mut out, &format!("accepted_nonmember:{kind}"), 1);
                        push_v(&mut out, (sig, format!("n={n} row={row} idx={idx} {kind}: non-member tuple verifies (proof has {} elements, canonical path {})", t.proof.as_ref().map(|p| p.len()).unwrap_or(0), want.len()), witness(w, row_hashes, &t, kind)));
                    }
                }
            }
        }
    }
    out
}

fn kind_family(kind: &str) -> &'static str {
    if kind.starts_with("leaf-") {
        "wrong-leaf-value"
    } else if kind.starts_with("index=") || kind.starts_with("index+count") || kind.starts_with("index+2^k") {
        "index-out-of-range"
    } else if kind.starts_with("index") {
        "wrong-index"
    } else if kind.starts_with("proof-append") {
        "proof-extended"
    } else if kind.starts_with("proof-prepend") {
        "proof-prepended"
    } else if kind.starts_with("proof-drop") || kind == "proof-none" || kind == "proof-emptied" {
        "proof-truncated"
    } else if kind.starts_with("proof-of-") {
        "proof-of-other-leaf"
    } else if kind.starts_with("proof-for-") {
        "proof-for-other-row"
    } else {
        "proof-altered"
    }
}

fn replay(path: &std::path::Path) -> ! {
    let v: Value = serde_json::from_slice(&std::fs::read(path).expect("replay file")).expect("json");
    let w = &v["witness"];
    let unhex = |x: &Value| hex::decode(x.as_str().unwrap_or("")).unwrap_or_default();
    let alg = w["alg"].as_str().unwrap_or("sha256").to_string();
    let n = w["n"].as_u64().unwrap_or(0) as usize;
    let hashes: Vec<Bytes> = w["stored_hashes"].as_array().map(|a| a.iter().map(unhex).collect()).unwrap_or_default();
    let t = Tuple {
        row: w["row"].as_u64().unwrap_or(0) as usize,
        value: unhex(&w["value"]),
        index: w["index"].as_str().and_then(|s| s.parse().ok()).unwrap_or(0),
        proof: w["proof"].as_array().map(|a| a.iter().map(unhex).collect()),
    };
    let mm = mm_of(&alg, n, &hashes);
    let r = sdk_check(&mm, &alg, &t);
    println!("replay: kind={} n={} row={} index={} proof_len={:?} -> check_merkle_tree = {:?}", w["kind"], n, t.row, t.index, t.proof.as_ref().map(|p| p.len()), r);
    let positive = w["kind"].as_str().map(|k| k.starts_with("sdk-proof")).unwrap_or(false);
    let bad = match r {
        Ok(b) => b != positive,
        Err(_) => true,
    };
    std::process::exit(if bad { 1 } else { 0 });
}

fn main() {
    let mut run = Run::from_args("C16", "exploration");
    report::quiet_panics();
    run.rule = "for every leaf count n in 1..=300 (sha256, pre-hashed leaves as the BMFF code uses them; sha384/sha512, hash_leaves=true and duplicate-leaf trees on a subset of n), every stored row r of the SDK-built tree and every leaf: the SDK's proof (hook) is played back through the public MerkleMap::check_merkle_tree and compared with the reference sibling path; then ~30 mutated tuples per positive (leaf value, index, proof dropped/extended/flipped/swapped/of another leaf/for another row). A case is non-trivial when check_merkle_tree ran on it and the reference membership verdict is defined; distinct = (n shape class, row class, mutation kind, verdict).".into();
    run.assumptions = vec![
        "membership is decided by the harness's own tree (H(l||r) with this crate's sha2, unpaired last node carried up unchanged); sha2 is collision free on the generated data".into(),
        "an absent proof (None) and an empty proof are the same tuple (the SDK stores empty proofs as absent)".into(),
        "stored rows are the rows of the SDK-built tree, which must equal the reference tree row for row (a difference is reported as model|layers and negatives are then not judged for that tree)".into(),
        "stored hash lists whose length matches no tree row are outside the statement and not generated".into(),
    ];
    if let Some(p) = run.replay.clone() {
        replay(&p);
    }

    let quick = run.quick();
    let mut works: Vec<Work> = Vec::new();
    // main sweep: exhaustive n, every leaf, every row
    for n in 1..=300usize {
        works.push(Work { n, alg: "sha256", hash_leaves: false, dup_alphabet: 0, sample_leaves: false });
    }
    // other algorithms / hash_leaves / duplicate leaves
    let mut rng = Rng::new(run.seed, "c16plan");
    for n in 1..=300usize {
        let small = n <= 40;
        let take = |rng: &mut Rng, q: u64, t: u64| if quick { small || rng.chance(1, q) } else { small || rng.chance(1, t) };
        for alg in ["sha384", "sha512"] {
            if take(&mut rng, 12, 2) {
                works.push(Work { n, alg, hash_leaves: false, dup_alphabet: 0, sample_leaves: !small && quick });
            }
        }
        if take(&mut rng, 10, 2) {
            works.push(Work { n, alg: "sha256", hash_leaves: true, dup_alphabet: 0, sample_leaves: !small && quick });
        }
        for k in [1usize, 2, 3] {
            if take(&mut rng, 16, 3) {
                works.push(Work { n, alg: "sha256", hash_leaves: false, dup_alphabet: k, sample_leaves: !small && quick });
            }
        }
    }
    // heavy items first for better load balance
    works.sort_by_key(|w| std::cmp::Reverse(if w.sample_leaves { 12 * 12 } else { w.n * w.n }));
    let seed = run.seed;
    let outs = par::par_map(works.len(), |i| run_work(&works[i], seed));
    let mut exhaustive_ns = 0u64;
    // fold in ascending n so that the recorded witnesses and samples are the smallest ones
    let mut folded: Vec<(&Work, Out)> = works.iter().zip(outs).collect();
    folded.sort_by_key(|(w, _)| (w.n, w.alg != "sha256", w.hash_leaves, w.dup_alphabet));
    for (w, o) in folded {
        run.evals(o.evals);
        for (c, k) in o.classes {
            run.nontrivial_n(c, k);
        }
        for (k, v) in o.counters {
            run.count(&k, v);
        }
        for (kind, s) in o.samples {
            run.sample(&kind, 2, s);
        }
        for (sig, what, wit) in o.violations {
            run.violation(&sig, &what, wit);
        }
        if w.alg == "sha256" && !w.hash_leaves && w.dup_alphabet == 0 && !w.sample_leaves {
            exhaustive_ns += 1;
        }
        run.count(&format!("trees:{}{}{}", w.alg, if w.hash_leaves { "+hash_leaves" } else { "" }, if w.dup_alphabet > 0 { "+dup" } else { "" }), 1);
    }
    run.set("leaf_counts_fully_enumerated_sha256", json!(exhaustive_ns));
    run.exhaustive = exhaustive_ns == 300;
    run.engine("release", true, json!({"threads": par::workers()}));
    run.finish(100);
}
