//! C39 — ingredients carry their source manifests and validation faithfully.
//!
//! Oracle (from the statement), per (format, ingredient state, relationship):
//!   (a) every manifest superbox of the ingredient's own store (located in the ingredient file by the
//!       harness's independent per-format parser, split by the harness's JUMBF walker) appears in the
//!       parent's output store under the same label with identical bytes; every `active_manifest`
//!       named by a reported ingredient resolves to a manifest of the output store;
//!   (b) the ingredient's recorded validation results (failure-code multiset of its active manifest,
//!       trusted marker, "has failures" = state) equal those of a stand-alone `Reader` of the
//!       ingredient bytes under the same settings;
//!   (c) an unsigned asset records no active_manifest, no validation results with failures, and adds
//!       no manifest to the store.
//! States whose stand-alone read is an *error* (remote-only offline, unparseable store) are driven
//! and checked for (c)-style sanity only (reported as unjudged for (b)).
use c2pa::{Builder, BuilderIntent, DigitalSourceType, Reader};
use serde_json::{json, Value};
use std::collections::BTreeMap;
use std::io::Cursor;
use vmon::{assets, defgen, fmt as ifmt, jumbf, par, report, signers, Run};

#[derive(Clone, Debug)]
struct Subject {
    asset: String,
    format: String,
    state: &'static str,
    bytes: Vec<u8>,
    /// the ingredient's own store as found by the independent parser (None: none / not locatable)
    store: Option<Vec<u8>>,
    trust: bool,
    /// for the archive state: the bytes whose stand-alone read is the reference
    reference: Option<(String, Vec<u8>)>,
    note: String,
}

fn ctx(trust: bool) -> c2pa::Context {
    defgen::context(trust, false, false, &json!({"verify": {"verify_trust": true, "remote_manifest_fetch": false}}))
}

fn create() -> BuilderIntent {
    BuilderIntent::Create(DigitalSourceType::DigitalCapture)
}

fn independent_store(format: &str, bytes: &[u8]) -> Option<(Vec<u8>, Vec<(usize, usize)>, bool)> {
    let p = ifmt::parse(format, bytes).ok()?;
    let c = p.containers.first()?;
    Some((c.store.clone(), c.store_ranges.clone(), c.encoded))
}

struct Standalone {
    ok: bool,
    err: Option<String>,
    state: String,
    failures: Vec<String>,
    trusted: bool,
    active: Option<String>,
    /// codes of Reader::validation_status(): active-manifest failures + new failures of nested ingredients
    all_errors: Vec<String>,
}

fn codes(v: &Value, kind: &str) -> Vec<String> {
    let mut out: Vec<String> = v.get(kind).and_then(|a| a.as_array()).map(|a| a.iter().filter_map(|e| e.get("code").and_then(|c| c.as_str()).map(|s| s.to_string())).collect()).unwrap_or_default();
    out.sort();
    out
}

fn standalone(format: &str, bytes: &[u8], trust: bool) -> Standalone {
    let (f, b) = (format.to_string(), bytes.to_vec());
    let r = report::catch_sdk(move || {
        Reader::from_context(ctx(trust)).with_stream(&f, Cursor::new(b)).map(|r| {
            let vr = r.validation_results().map(|v| serde_json::to_value(v).unwrap_or(Value::Null)).unwrap_or(Value::Null);
            let mut all: Vec<String> = r.validation_status().map(|v| v.iter().map(|s| s.code().to_string()).collect()).unwrap_or_default();
            all.sort();
            (format!("{:?}", r.validation_state()), vr, r.active_label().map(|s| s.to_string()), all)
        })
    });
    match r {
        Ok(Ok((state, vr, active, all_errors))) => {
            let am = vr.get("activeManifest").cloned().unwrap_or(Value::Null);
            Standalone { ok: true, err: None, state, failures: codes(&am, "failure"), trusted: codes(&am, "success").iter().any(|c| c == "signingCredential.trusted"), active, all_errors }
        }
        Ok(Err(e)) => Standalone { ok: false, err: Some(report::err_kind(&e)), state: "Err".into(), failures: vec![], trusted: false, active: None, all_errors: vec![] },
        Err(p) => Standalone { ok: false, err: Some(format!("panic: {p}")), state: "Panic".into(), failures: vec![], trusted: false, active: None, all_errors: vec![] },
    }
}

fn make_subjects(a: &assets::Asset, notes: &mut Vec<String>) -> Vec<Subject> {
    let mut out = Vec::new();
    let f = a.format.to_string();
    let mk = |state: &'static str, bytes: Vec<u8>, trust: bool, note: String| -> Subject {
        let store = independent_store(a.format, &bytes).map(|s| s.0);
        Subject { asset: a.name.clone(), format: a.format.to_string(), state, bytes, store, trust, reference: None, note }
    };
    out.push(mk("unsigned", a.bytes.clone(), true, String::new()));
    let valid = match defgen::sign_simple(a.format, &a.bytes, &format!("src {}", a.name), "ed25519", create(), &[]) {
        Ok(v) => v,
        Err(e) => {
            notes.push(format!("{}: cannot sign the source asset: {e}", a.name));
            return out;
        }
    };
    out.push(mk("signed-valid", valid.clone(), true, String::new()));
    out.push(mk("untrusted", valid.clone(), false, String::new()));
    // chain of depth 3
    let mut chain3_bytes: Option<Vec<u8>> = None;
    if let Ok(a2) = defgen::sign_simple(a.format, &valid, "gen2", "es256", BuilderIntent::Edit, &[]) {
        if let Ok(a3) = defgen::sign_simple(a.format, &a2, "gen3", "ps256", BuilderIntent::Edit, &[]) {
            out.push(mk("chain3", a3.clone(), true, String::new()));
            chain3_bytes = Some(a3);
        }
    }
    // an asset whose own manifest has a signed inputTo ingredient (and a componentOf one): the nested
    // manifests must travel with it whatever the nested relationship is
    let mut nested_rel_bytes: Option<Vec<u8>> = None;
    {
        let j1 = json!({"title": "nested input", "relationship": "inputTo"}).to_string();
        let j2 = json!({"title": "nested component", "relationship": "componentOf"}).to_string();
        let second = defgen::sign_simple(a.format, &a.bytes, "other src", "ps256", create(), &[]).unwrap_or_else(|_| valid.clone());
        if let Ok(n) = defgen::sign_simple(a.format, &a.bytes, "has nested inputTo", "es256", create(), &[(j1.as_str(), a.format, valid.as_slice()), (j2.as_str(), a.format, second.as_slice())]) {
            out.push(mk("nested-inputTo", n.clone(), true, String::new()));
            nested_rel_bytes = Some(n);
        }
    }
    // tampered content / tampered store (positions chosen with the independent parser)
    if let Ok(p) = ifmt::parse(a.format, &valid) {
        if let Some(c) = p.containers.first() {
            let inside = |pos: usize| c.ranges.iter().any(|r| pos >= r.0 && pos < r.0 + r.1);
            // content: try positions from the end backwards until the stand-alone read is Ok with failures
            let mut done = false;
            // candidate positions: bytes outside the manifest container, from the end backwards, at most 80 tries
            let outside: Vec<usize> = (0..valid.len()).rev().filter(|p| !inside(*p)).collect();
            let stride = (outside.len() / 80).max(1);
            for pos in outside.iter().step_by(stride).take(80).copied() {
                let mut t = valid.clone();
                t[pos] ^= 0x01;
                let s = standalone(a.format, &t, true);
                if s.ok && !s.failures.is_empty() {
                    // an edit signed on top of the tampered asset: its own manifest is fine, the failure sits in
                    // the nested (parent) ingredient
                    if let Ok(e2) = defgen::sign_simple(a.format, &t, "edit of tampered", "es256", BuilderIntent::Edit, &[]) {
                        out.push(mk("chain-nested-failure", e2, true, format!("edit signed on top of a content-tampered parent (byte {pos} flipped)")));
                    }
                    out.push(mk("tampered-content", t, true, format!("byte {pos} of {} flipped", valid.len())));
                    done = true;
                    break;
                }
            }
            if !done {
                notes.push(format!("{}: no content byte whose flip still reads (tampered-content skipped)", a.name));
            }
            if !c.encoded {
                if let Some(tree) = jumbf::parse_store(&c.store) {
                    if let Some((s, e)) = jumbf::content_range(&tree, "c2pa.assertions/org.verif.ing") {
                        let spos = (s + e) / 2;
                        // map store offset to file offset
                        let mut acc = 0usize;
                        let mut fpos = None;
                        for (rs, rl) in &c.store_ranges {
                            if spos < acc + rl {
                                fpos = Some(rs + (spos - acc));
                                break;
                            }
                            acc += rl;
                        }
                        if let Some(fp) = fpos {
                            let mut t = valid.clone();
                            t[fp] ^= 0x01;
                            out.push(mk("tampered-store", t, true, format!("store byte {spos} (file byte {fp}) inside org.verif.ing flipped")));
                        }
                    }
                }
            }
        }
    }
    // version-1 claims (the only ingredients a version-1 parent accepts): a valid one, and an edit whose
    // nested (parent) manifest is damaged AFTER the edit was signed, so that the failure is a new one of the
    // nested ingredient (Reader::validation_status() lists it; the active manifest's own list does not)
    if matches!(a.name.as_str(), "tiny.jpg" | "tiny.png" | "tiny.gif" | "tiny.wav") {
        if let Ok(v1) = defgen::sign_simple_v(a.format, &a.bytes, &format!("v1 src {}", a.name), "es256", create(), &[], Some(1)) {
            out.push(mk("v1-signed", v1.clone(), true, String::new()));
            if let Ok(e2) = defgen::sign_simple_v(a.format, &v1, "v1 edit", "ps256", BuilderIntent::Edit, &[], Some(1)) {
                if let Ok(p) = ifmt::parse(a.format, &e2) {
                    if let Some(c) = p.containers.first().filter(|c| !c.encoded) {
                        // the first manifest of the store is the older (nested) one
                        if let Some((s, e)) = jumbf::parse_store(&c.store).and_then(|t| jumbf::content_range(&t, "c2pa.assertions/org.verif.ing")) {
                            let spos = (s + e) / 2;
                            let mut acc = 0usize;
                            for (rs, rl) in &c.store_ranges {
                                if spos < acc + rl {
                                    let fp = rs + (spos - acc);
                                    let mut t = e2.clone();
                                    t[fp] ^= 0x01;
                                    out.push(mk("v1-nested-store-tamper", t, true, format!("v1 edit; store byte {spos} (file byte {fp}) of the nested manifest's org.verif.ing flipped afterwards")));
                                    break;
                                }
                                acc += rl;
                            }
                        }
                    }
                }
            }
        } else {
            notes.push(format!("{}: cannot sign a version-1 claim", a.name));
        }
    }
    // remote-only: reference in XMP, nothing embedded
    {
        let c = ctx(true);
        if let Ok(mut b) = Builder::from_context(c).with_definition(json!({"title": "remote only"})) {
            b.set_intent(create());
            b.set_no_embed(true);
            b.set_remote_url("https://verif.invalid/remote/only.c2pa");
            let signer = signers::test_signer("ed25519");
            let mut s = Cursor::new(a.bytes.clone());
            let mut d = Cursor::new(Vec::new());
            if let Ok(Ok(_)) = report::catch_sdk(|| b.sign(signer.as_ref(), a.format, &mut s, &mut d)) {
                let bytes = d.into_inner();
                if bytes != a.bytes {
                    out.push(mk("remote-only", bytes, true, String::new()));
                }
            }
        }
    }
    // ingredient archives holding the valid subject and the depth-3 chain
    for (state, held) in [("archive", Some(valid.clone())), ("archive-chain3", chain3_bytes.clone()), ("archive-nested-inputTo", nested_rel_bytes.clone())] {
        let Some(valid) = held else { continue };
        let c = defgen::context(true, false, false, &json!({"verify": {"verify_trust": true, "remote_manifest_fetch": false}, "builder": {"generate_c2pa_archive": true}}));
        if let Ok(mut b) = Builder::from_context(c).with_definition(json!({"title": "archiver"})) {
            let mut cur = Cursor::new(valid.clone());
            let added = b.add_ingredient_from_stream(json!({"title": "archived", "relationship": "componentOf", "label": "arch_ing"}).to_string(), a.format, &mut cur).is_ok();
            if added {
                let mut ar = Cursor::new(Vec::new());
                match report::catch_sdk(|| b.write_ingredient_archive("arch_ing", &mut ar)) {
                    Ok(Ok(())) => {
                        let mut s = mk(state, ar.into_inner(), true, String::new());
                        s.format = "application/c2pa".into();
                        s.store = independent_store(a.format, &valid).map(|s| s.0);
                        s.reference = Some((f.clone(), valid.clone()));
                        out.push(s);
                    }
                    other => notes.push(format!("{}: write_ingredient_archive failed: {:?}", a.name, other.map(|r| r.map_err(|e| e.to_string())))),
                }
            }
        }
    }
    out
}

struct Res {
    class: String,
    violation: Option<(String, String)>,
    unjudged: Vec<String>,
    counts: BTreeMap<String, u64>,
    sample: Value,
}

fn run_case(s: &Subject, rel: &'static str, twice: bool, source: &assets::Asset) -> Res {
    let mut counts: BTreeMap<String, u64> = BTreeMap::new();
    let mut unjudged = Vec::new();
    let fam = ifmt::family(&source.format).unwrap_or("?");
    // "componentOf/v1": the parent is a version-1 claim, whose ingredient assertion stores the flat
    // validation_status list (what Reader::validation_status() gives for the ingredient alone)
    let (rel, v1) = match rel.strip_suffix("/v1") {
        Some(_) => ("componentOf", true),
        None => (rel, false),
    };
    let tag = format!("{fam}|{}|{rel}{}{}", s.state, if twice { "|twice" } else { "" }, if v1 { "|v1-parent" } else { "" });
    let sample = json!({"asset": s.asset, "format": s.format, "state": s.state, "relationship": rel, "v1_parent": v1, "twice": twice, "note": s.note});
    // cause-class signature: byte-level defects keep the container family, everything else is
    // (ingredient state, defect) — the relationship / format are swept, not causes
    let sig = |defect: &str| {
        if defect.starts_with("manifest-") {
            format!("{fam}|{}|{defect}", s.state)
        } else {
            format!("{}|{defect}", s.state)
        }
    };
    let fail = |sigd: &str, what: String, counts: BTreeMap<String, u64>, unjudged: Vec<String>| Res { class: format!("{tag}|{sigd}"), violation: Some((sig(sigd), what)), unjudged, counts, sample: sample.clone() };

    // reference: stand-alone read of the ingredient under the same settings
    let sa = match &s.reference {
        Some((f, b)) => standalone(f, b, s.trust),
        None => standalone(&s.format, &s.bytes, s.trust),
    };
    if sa.state == "Panic" {
        return fail("standalone-panic", format!("stand-alone read panicked: {:?}", sa.err), counts, unjudged);
    }
    // parent
    let c = ctx(s.trust);
    let mut b = match Builder::from_context(c).with_definition(if v1 {
        json!({"claim_version": 1, "title": "parent", "assertions": [{"label": "org.verif.parent", "data": {"p": 1}}]})
    } else {
        json!({"title": "parent", "assertions": [{"label": "org.verif.parent", "data": {"p": 1}}]})
    }) {
        Ok(b) => b,
        Err(e) => return fail("harness", format!("definition: {e}"), counts, unjudged),
    };
    b.set_intent(if rel == "parentOf" { BuilderIntent::Edit } else { create() });
    let n_add = if twice { 2 } else { 1 };
    for k in 0..n_add {
        let r = if k == 1 && rel != "inputTo" { "inputTo" } else { rel };
        let r = if k == 1 && rel == "inputTo" { "componentOf" } else { r };
        let mut cur = Cursor::new(s.bytes.clone());
        let j = json!({"title": format!("ING-{k}"), "relationship": r}).to_string();
        match report::catch_sdk(|| b.add_ingredient_from_stream(j, &s.format, &mut cur).map(|_| ())) {
            Ok(Ok(())) => {}
            Ok(Err(e)) => {
                let kind = report::err_kind(&e);
                if !sa.ok {
                    unjudged.push(format!("add-ingredient-error-when-standalone-errs:{}:{kind}", s.state));
                    return Res { class: format!("{tag}|add-error:{kind}(standalone {:?})", sa.err), violation: None, unjudged, counts, sample };
                }
                return fail(&format!("add-error:{kind}"), format!("add_ingredient_from_stream failed ({e:?}) although the stand-alone read succeeds with state {}", sa.state), counts, unjudged);
            }
            Err(p) => return fail("add-panic", format!("panic in add_ingredient_from_stream: {p}"), counts, unjudged),
        }
    }
    let signer = signers::test_signer("es256");
    let mut src = Cursor::new(source.bytes.clone());
    let mut dst = Cursor::new(Vec::new());
    let store = match report::catch_sdk(|| b.sign(signer.as_ref(), source.format, &mut src, &mut dst)) {
        Ok(Ok(st)) => st,
        Ok(Err(e)) => {
            let kind = report::err_kind(&e);
            if v1 && format!("{e:?}").contains("ingredient version too new") {
                // a version-1 claim cannot carry an ingredient whose claim is newer: documented refusal
                unjudged.push("v1-parent: ingredient claim is newer than the parent's (refused at sign)".into());
                return Res { class: format!("{tag}|v1-parent-refuses-newer-ingredient"), violation: None, unjudged, counts, sample };
            }
            return fail(&format!("sign-error:{kind}"), format!("signing the parent failed: {e:?} (ingredient {} stand-alone state {} error {:?}, failures {:?})", s.asset, sa.state, sa.err, sa.failures), counts, unjudged);
        }
        Err(p) => return fail("sign-panic", format!("panic while signing the parent: {p}"), counts, unjudged),
    };
    let out = dst.into_inner();
    // read the parent
    let (o, sf) = (out.clone(), source.format.to_string());
    let trust = s.trust;
    let rd = report::catch_sdk(move || Reader::from_context(ctx(trust)).with_stream(&sf, Cursor::new(o)).map(|r| (r.json(), format!("{:?}", r.validation_state()))));
    let (js, pstate) = match rd {
        Ok(Ok(x)) => x,
        Ok(Err(e)) => return fail(&format!("parent-read-error:{}", report::err_kind(&e)), format!("reading the parent failed: {e:?}"), counts, unjudged),
        Err(p) => return fail("parent-read-panic", format!("panic reading the parent: {p}"), counts, unjudged),
    };
    let v: Value = serde_json::from_str(&js).unwrap_or(Value::Null);
    let am = v["active_manifest"].as_str().unwrap_or("").to_string();
    let manifests = v["manifests"].as_object().cloned().unwrap_or_default();
    let ings: Vec<Value> = manifests.get(&am).and_then(|m| m.get("ingredients")).and_then(|i| i.as_array()).cloned().unwrap_or_default();
    let mine: Vec<&Value> = ings.iter().filter(|i| i.get("title").and_then(|t| t.as_str()).map(|t| t.starts_with("ING-")).unwrap_or(false)).collect();
    if mine.len() != n_add {
        return fail("ingredient-count", format!("{} ingredients added, {} reported", n_add, mine.len()), counts, unjudged);
    }
    // the output store, split by the harness's walker
    let Some(out_tree) = jumbf::parse_store(&store) else {
        return fail("output-store-unparseable", "the independent JUMBF walker rejects the output store".into(), counts, unjudged);
    };
    let out_m: BTreeMap<String, Vec<u8>> = jumbf::manifests(&out_tree).iter().filter_map(|m| m.label.clone().map(|l| (l, store[m.start..m.end()].to_vec()))).collect();
    *counts.entry("output_manifests".into()).or_insert(0) += out_m.len() as u64;

    let expect_manifests = !matches!(s.state, "unsigned" | "remote-only");
    if !expect_manifests {
        // (c)
        for i in &mine {
            if i.get("active_manifest").is_some() {
                return fail("unsigned-has-active-manifest", format!("{} ingredient reports active_manifest {:?}", s.state, i.get("active_manifest")), counts, unjudged);
            }
            let f = i.get("validation_results").and_then(|v| v.get("activeManifest")).map(|a| codes(a, "failure")).unwrap_or_default();
            let fs: Vec<String> = i.get("validation_status").and_then(|v| v.as_array()).map(|a| a.iter().filter_map(|e| e.get("code").and_then(|c| c.as_str()).map(|s| s.to_string())).collect()).unwrap_or_default();
            if s.state == "unsigned" && (!f.is_empty() || !fs.is_empty()) {
                return fail("unsigned-has-failures", format!("unsigned ingredient records failures {:?} {:?}", f, fs), counts, unjudged);
            }
            if s.state == "remote-only" {
                unjudged.push(format!("remote-only: stand-alone read is {:?}; recorded status {:?}", sa.err, fs));
            }
        }
        if out_m.len() != 1 {
            return fail("unsigned-adds-manifest", format!("output store has {} manifests", out_m.len()), counts, unjudged);
        }
        if pstate == "Invalid" && s.state == "unsigned" {
            return fail("parent-invalid", "parent with an unsigned ingredient reads Invalid".into(), counts, unjudged);
        }
        return Res { class: format!("{tag}|no-manifest-recorded|parent:{pstate}"), violation: None, unjudged, counts, sample };
    }
    if !sa.ok {
        unjudged.push(format!("{}: stand-alone read errs ({:?}); (a)/(b) not judged", s.state, sa.err));
        return Res { class: format!("{tag}|standalone-err:{:?}|parent:{pstate}", sa.err), violation: None, unjudged, counts, sample };
    }
    // (a) manifests carried byte-identically
    match s.store.as_ref().and_then(|st| jumbf::parse_store(st).map(|t| (st, t))) {
        Some((st, tree)) => {
            let ims = jumbf::manifests(&tree);
            for m in &ims {
                let Some(l) = &m.label else { continue };
                *counts.entry("ingredient_manifests_compared".into()).or_insert(0) += 1;
                match out_m.get(l) {
                    None => return fail("manifest-missing", format!("ingredient manifest {l} ({} of {}) is not in the output store (labels: {:?})", 1, ims.len(), out_m.keys().collect::<Vec<_>>()), counts, unjudged),
                    Some(b) if b.as_slice() != &st[m.start..m.end()] => {
                        let d = b.iter().zip(st[m.start..m.end()].iter()).position(|(x, y)| x != y);
                        return fail("manifest-bytes-differ", format!("manifest {l}: output copy has {} bytes, ingredient's own {} bytes, first difference at {:?}", b.len(), m.len, d), counts, unjudged);
                    }
                    _ => {}
                }
            }
            if out_m.len() != ims.len() + 1 {
                return fail("manifest-count", format!("ingredient store has {} manifests, output has {} (expected +1)", ims.len(), out_m.len()), counts, unjudged);
            }
        }
        None => unjudged.push(format!("(a) not judged: independent parser could not locate/parse the ingredient's store [{fam}]")),
    }
    // (b) recorded validation == stand-alone validation
    for i in &mine {
        let Some(al) = i.get("active_manifest").and_then(|a| a.as_str()) else {
            return fail("no-active-manifest", format!("signed ingredient (stand-alone state {}) records no active_manifest", sa.state), counts, unjudged);
        };
        if !out_m.contains_key(al) {
            return fail("dangling-active-manifest", format!("ingredient active_manifest {al} is not a manifest of the output store"), counts, unjudged);
        }
        if sa.active.as_deref() != Some(al) {
            return fail("active-manifest-label", format!("ingredient active_manifest {al}, stand-alone active label {:?}", sa.active), counts, unjudged);
        }
        if v1 {
            let mut fs: Vec<String> = i.get("validation_status").and_then(|v| v.as_array()).map(|a| a.iter().filter_map(|e| e.get("code").and_then(|c| c.as_str()).map(|s| s.to_string())).collect()).unwrap_or_default();
            fs.sort();
            *counts.entry("judged_v1_status".into()).or_insert(0) += 1;
            if !sa.all_errors.is_empty() && sa.all_errors != sa.failures {
                *counts.entry("judged_v1_status_with_nested_failures".into()).or_insert(0) += 1;
            }
            if fs != sa.all_errors {
                return fail("v1-status-codes", format!("version-1 parent records validation_status {:?}, stand-alone Reader::validation_status() {:?} (state {})", fs, sa.all_errors, sa.state), counts, unjudged);
            }
            continue;
        }
        let ram = i.get("validation_results").and_then(|v| v.get("activeManifest")).cloned().unwrap_or(Value::Null);
        let rf = codes(&ram, "failure");
        let rtrusted = codes(&ram, "success").iter().any(|c| c == "signingCredential.trusted");
        if rf != sa.failures {
            return fail("failure-codes", format!("recorded failure codes {:?}, stand-alone {:?} (state {})", rf, sa.failures, sa.state), counts, unjudged);
        }
        if rtrusted != sa.trusted {
            return fail("trusted-marker", format!("recorded trusted={rtrusted}, stand-alone trusted={}", sa.trusted), counts, unjudged);
        }
    }
    *counts.entry("judged_ab".into()).or_insert(0) += 1;
    Res { class: format!("{tag}|carried|standalone:{}:{}|parent:{pstate}", sa.state, sa.failures.first().cloned().unwrap_or_default()), violation: None, unjudged, counts, sample }
}

fn main() {
    let mut run = Run::from_args("C39", "exploration");
    report::quiet_panics();
    run.rule = "cases = every tiny writable format (+ small fixtures, + repository fixtures that already carry valid/invalid manifests) x ingredient state {unsigned, signed-valid, untrusted (no anchors), chain depth 3, tampered content, tampered store, remote-only, ingredient archive} x relationship {parentOf, componentOf, inputTo} (+ the same ingredient added twice); parent signed onto the raw asset of the same format and read back. Non-trivial = parent signed and read; distinct = (container family, state, relationship, outcome).".into();
    run.assumptions = vec![
        "the ingredient's own store is located by the harness's per-format parser (vmon::fmt) and split by its JUMBF walker".into(),
        "states whose stand-alone read returns an error (remote-only offline) are not judged for (a)/(b)".into(),
        "validation equality = failure-code multiset of the active manifest + presence of signingCredential.trusted".into(),
    ];
    // every tiny writable format the harness can synthesise (jpeg png gif wav webp avi tiff svg mp3 flac jxl
    // mp4 heic) + small fixtures; the bare manifest-store asset is not a media format
    let mut assets_v: Vec<assets::Asset> = vmon::embedkit::extended_tiny_assets().into_iter().filter(|a| a.format != "c2pa").collect();
    if run.quick() {
        // one or two layouts per format are enough for the quick tier
        let mut seen: BTreeMap<&'static str, usize> = BTreeMap::new();
        assets_v.retain(|a| {
            let n = seen.entry(a.format).or_insert(0);
            *n += 1;
            // (tiny_plaintext.gif: an unsigned file whose manifest lookup ends in an error — directed case)
            *n <= 2 || a.name == "tiny_plaintext.gif"
        });
    }
    assets_v.extend(assets::fixture_assets(run.tier.pick(70_000, 400_000)));
    let mut notes = Vec::new();
    let mut subjects: Vec<(Subject, usize)> = Vec::new();
    let per_asset: Vec<(Vec<Subject>, Vec<String>)> = par::par_map(assets_v.len(), |i| {
        let mut n = Vec::new();
        let s = make_subjects(&assets_v[i], &mut n);
        (s, n)
    });
    for (i, (ss, n)) in per_asset.into_iter().enumerate() {
        notes.extend(n);
        for s in ss {
            subjects.push((s, i));
        }
    }
    // repository fixtures that already carry manifests (valid, tampered, bad signature …)
    let jpg_src = assets_v.iter().position(|a| a.name == "tiny.jpg").unwrap_or(0);
    for name in ["C.jpg", "CA.jpg", "XCA.jpg", "E-sig-CA.jpg", "CIE-sig-CA.jpg", "CACA.jpg"] {
        if let Some(b) = assets::fixture(name) {
            if b.len() < run.tier.pick(200_000, 2_000_000) {
                let store = independent_store("jpg", &b).map(|s| s.0);
                subjects.push((Subject { asset: name.to_string(), format: "jpg".into(), state: "fixture-signed", bytes: b, store, trust: false, reference: None, note: name.to_string() }, jpg_src));
            }
        }
    }
    let mut work: Vec<(usize, &'static str, bool)> = Vec::new();
    for (si, (s, _)) in subjects.iter().enumerate() {
        for rel in ["parentOf", "componentOf", "inputTo"] {
            work.push((si, rel, false));
        }
        if matches!(s.state, "signed-valid" | "chain3" | "unsigned") {
            work.push((si, "componentOf", true));
        }
        if s.state.starts_with("v1-") || s.state == "fixture-signed" {
            work.push((si, "componentOf/v1", false));
        }
    }
    let results = par::par_map_watch(
        work.len(),
        300,
        |i| println!("INCONCLUSIVE: property=C39 watchdog: case {:?} exceeded 300 s", (&subjects[work[i].0].0.asset, subjects[work[i].0].0.state, work[i].1)),
        |i| {
            let (si, rel, twice) = work[i];
            run_case(&subjects[si].0, rel, twice, &assets_v[subjects[si].1])
        },
    );
    let mut unjudged: BTreeMap<String, u64> = BTreeMap::new();
    for r in &results {
        run.eval();
        run.nontrivial(r.class.clone());
        for (k, v) in &r.counts {
            run.count(k, *v);
        }
        for u in &r.unjudged {
            let key: String = u.chars().take(90).collect();
            *unjudged.entry(key).or_insert(0) += 1;
        }
        run.sample(if r.violation.is_some() { "violating" } else { "held" }, 3, r.sample.clone());
        if let Some((sig, what)) = &r.violation {
            run.violation(sig, what, r.sample.clone());
        }
    }
    let mut by_state: BTreeMap<String, u64> = BTreeMap::new();
    for (s, _) in &subjects {
        *by_state.entry(s.state.to_string()).or_insert(0) += 1;
    }
    run.set("subjects_by_state", json!(by_state));
    run.set("setup_notes", json!(notes));
    run.set("unjudged", json!(unjudged));
    run.engine("release", true, json!({"threads": par::workers()}));
    run.finish(40);
}
