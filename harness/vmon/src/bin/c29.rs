//! C29 — resource files are confined to the manifest directory.
//!
//! Every scenario is a fresh sandbox `<tmp>/sNNN/{root,outside}` built from an explicit node list
//! (dirs, files, symlinks: inside->inside, inside->outside, chained, dangling, loop, `root` itself a
//! link, a link to `/`).  Every outside file holds a unique sentinel.  One operation with one
//! identifier from the traversal grammar is run against the real SDK (`ResourceStore` with
//! `set_base_path`/`set_resource_root`, `Builder::set_base_path` + `add_resource`/resource refs +
//! `sign`, nested ingredient directories, legacy zip `with_archive`, `Reader::to_folder`).
//!
//! Oracle (written from the statement, no SDK code): file-system snapshot of the whole sandbox
//! before/after (path, type, size, mtime, sha256, link target, inode) — nothing whose real
//! location is outside the confinement root may be created/modified/deleted; bytes returned or
//! embedded never contain an outside sentinel; `exists()`/`path_for_id()` never answer true/Some
//! for an identifier whose real location (the harness's own `realpath -m`) is outside.
use c2pa::{Builder, BuilderIntent, Context, Ingredient, Reader, ResourceStore};
use serde_json::{json, Value};
use std::collections::BTreeMap;
use std::io::Cursor;
use std::path::{Path, PathBuf};
use vmon::fssnap::{self, ChangeKind, Snap};
use vmon::{assets, par, report, signers, Rng, Run};

// ------------------------------------------------------------------------------------------------
// scenario = tree + base configuration

#[derive(Clone, Debug)]
enum NodeKind {
    Dir,
    File(String),
    Link(String),
}

#[derive(Clone, Debug)]
struct Node {
    rel: String,
    kind: NodeKind,
}

#[derive(Clone, Debug)]
struct Scenario {
    nodes: Vec<Node>,
    /// base path handed to the SDK, relative to the sandbox (may carry a trailing slash)
    base_rel: String,
    /// `set_resource_root` (None: not called, containment root = base)
    root_rel: Option<String>,
    flags: Vec<String>,
}

const FIXED_LABEL: &str = "urn:c2pa:00000000-0000-4000-8000-00000000c029";

fn fixed_label_dir() -> String {
    FIXED_LABEL.replace(':', "_")
}

fn node_json(n: &Node) -> Value {
    match &n.kind {
        NodeKind::Dir => json!({"p": n.rel, "k": "dir"}),
        NodeKind::File(c) => json!({"p": n.rel, "k": "file", "c": c}),
        NodeKind::Link(t) => json!({"p": n.rel, "k": "link", "t": t}),
    }
}

fn scenario_json(s: &Scenario) -> Value {
    json!({"nodes": s.nodes.iter().map(node_json).collect::<Vec<_>>(), "base": s.base_rel, "resource_root": s.root_rel, "flags": s.flags})
}

fn scenario_from_json(v: &Value) -> Scenario {
    let nodes = v["nodes"]
        .as_array()
        .map(|a| {
            a.iter()
                .map(|n| Node {
                    rel: n["p"].as_str().unwrap_or("").to_string(),
                    kind: match n["k"].as_str().unwrap_or("") {
                        "dir" => NodeKind::Dir,
                        "file" => NodeKind::File(n["c"].as_str().unwrap_or("").to_string()),
                        _ => NodeKind::Link(n["t"].as_str().unwrap_or("").to_string()),
                    },
                })
                .collect()
        })
        .unwrap_or_default();
    Scenario {
        nodes,
        base_rel: v["base"].as_str().unwrap_or("root").to_string(),
        root_rel: v["resource_root"].as_str().map(|s| s.to_string()),
        flags: v["flags"].as_array().map(|a| a.iter().filter_map(|x| x.as_str().map(|s| s.to_string())).collect()).unwrap_or_default(),
    }
}

fn gen_scenario(rng: &mut Rng, force_links: bool) -> Scenario {
    let mut nodes: Vec<Node> = Vec::new();
    let mut flags: Vec<String> = Vec::new();
    let rootlink = rng.chance(1, 6);
    let r = if rootlink { "realroot" } else { "root" };
    let tok = |rng: &mut Rng| hex::encode(rng.bytes(12));
    let d = |nodes: &mut Vec<Node>, p: String| nodes.push(Node { rel: p, kind: NodeKind::Dir });
    let fi = |nodes: &mut Vec<Node>, rng: &mut Rng, p: String| {
        let c = format!("INSIDE-{}-{}", tok(rng), p);
        nodes.push(Node { rel: p, kind: NodeKind::File(c) })
    };
    let fo = |nodes: &mut Vec<Node>, rng: &mut Rng, p: String| {
        let c = format!("SENTINEL-{}-{}", tok(rng), p);
        nodes.push(Node { rel: p, kind: NodeKind::File(c) })
    };
    d(&mut nodes, r.to_string());
    fi(&mut nodes, rng, format!("{r}/a.jpg"));
    fi(&mut nodes, rng, format!("{r}/thumb.png"));
    d(&mut nodes, format!("{r}/res"));
    fi(&mut nodes, rng, format!("{r}/res/icon.png"));
    d(&mut nodes, format!("{r}/res/sub"));
    fi(&mut nodes, rng, format!("{r}/res/sub/deep.bin"));
    d(&mut nodes, format!("{r}/ing"));
    fi(&mut nodes, rng, format!("{r}/ing/ingthumb.jpg"));
    fi(&mut nodes, rng, format!("{r}/ing/prompt.txt"));
    d(&mut nodes, "outside".to_string());
    fo(&mut nodes, rng, "outside/secret.txt".to_string());
    fo(&mut nodes, rng, "outside/a.jpg".to_string());
    fo(&mut nodes, rng, "outside/thumb.png".to_string());
    fo(&mut nodes, rng, "outside/manifest_store.json".to_string());
    d(&mut nodes, "outside/dir".to_string());
    fo(&mut nodes, rng, "outside/dir/secret2.bin".to_string());
    fo(&mut nodes, rng, "outside/dir/icon.png".to_string());
    d(&mut nodes, "outside/dir/deep".to_string());
    fo(&mut nodes, rng, "outside/dir/deep/s3.bin".to_string());
    // a sibling of the root whose name merely *starts with* the root's name (string-prefix confusion)
    d(&mut nodes, format!("{r}_backup"));
    fo(&mut nodes, rng, format!("{r}_backup/secret.txt"));
    fo(&mut nodes, rng, format!("{r}_backup/a.jpg"));
    if rootlink {
        nodes.push(Node { rel: "root".into(), kind: NodeKind::Link("realroot".into()) });
        flags.push("rootlink".into());
    }
    let p = |rng: &mut Rng| force_links || rng.chance(3, 5);
    let link = |nodes: &mut Vec<Node>, flags: &mut Vec<String>, rel: String, target: String, flag: &str| {
        nodes.push(Node { rel, kind: NodeKind::Link(target) });
        if !flags.iter().any(|f| f == flag) {
            flags.push(flag.to_string());
        }
    };
    if p(rng) {
        let t = if rng.bool() { "a.jpg".to_string() } else { "$S/root/a.jpg".to_string() };
        link(&mut nodes, &mut flags, format!("{r}/lf_in.jpg"), t, "file-in");
    }
    if p(rng) {
        link(&mut nodes, &mut flags, format!("{r}/ld_in"), "res".into(), "dir-in");
    }
    if p(rng) {
        let t = if rng.bool() { "../outside/secret.txt".to_string() } else { "$S/outside/secret.txt".to_string() };
        link(&mut nodes, &mut flags, format!("{r}/lf_out.jpg"), t, "file-out");
    }
    if p(rng) {
        let t = match rng.below(3) {
            0 => "../outside/dir".to_string(),
            1 => "$S/outside/dir".to_string(),
            _ => "../outside/dir/".to_string(),
        };
        link(&mut nodes, &mut flags, format!("{r}/ld_out"), t, "dir-out");
    }
    if p(rng) {
        let t2 = match rng.below(3) {
            0 => "../outside/secret.txt".to_string(),
            1 => "lf_out.jpg".to_string(),
            _ => "../outside/dir".to_string(),
        };
        link(&mut nodes, &mut flags, format!("{r}/chain1.jpg"), "chain2".into(), "chain");
        link(&mut nodes, &mut flags, format!("{r}/chain2"), t2, "chain");
    }
    if p(rng) {
        link(&mut nodes, &mut flags, format!("{r}/dang_out.jpg"), "../outside/nothere.bin".into(), "dangling-out");
    }
    if p(rng) {
        link(&mut nodes, &mut flags, format!("{r}/dang_in.jpg"), "nothere_inside.bin".into(), "dangling-in");
    }
    if p(rng) {
        link(&mut nodes, &mut flags, format!("{r}/loop"), "loop".into(), "loop");
    }
    if p(rng) {
        link(&mut nodes, &mut flags, format!("{r}/res/up"), "..".into(), "up-in");
    }
    if p(rng) {
        link(&mut nodes, &mut flags, format!("{r}/res/upup"), "../..".into(), "up-out");
    }
    if p(rng) {
        link(&mut nodes, &mut flags, format!("{r}/ing/l_out"), "../../outside/dir".into(), "nested-dir-out");
    }
    if p(rng) {
        link(&mut nodes, &mut flags, format!("{r}/ing/lf_out.jpg"), "../../outside/secret.txt".into(), "nested-file-out");
    }
    if rng.chance(1, 4) {
        link(&mut nodes, &mut flags, format!("{r}/res/sub/l_fsroot"), "/".into(), "fsroot");
    }
    if p(rng) {
        link(&mut nodes, &mut flags, format!("{r}/l"), "../outside/dir".into(), "short-dir-out");
    }
    if p(rng) {
        link(&mut nodes, &mut flags, format!("{r}/lb_sib"), format!("../{r}_backup"), "sibling-prefix-dir-out");
        link(&mut nodes, &mut flags, format!("{r}/lbf_sib.jpg"), format!("../{r}_backup/secret.txt"), "sibling-prefix-file-out");
    }
    if rng.chance(1, 3) {
        link(&mut nodes, &mut flags, "outside/back".into(), "../root".into(), "outside-back");
    }
    // links that matter for Reader::to_folder(root): fixed file names and the label directory
    if rng.chance(1, 4) {
        link(&mut nodes, &mut flags, format!("{r}/{}", fixed_label_dir()), "../outside/dir".into(), "export-labeldir-out");
    }
    if rng.chance(1, 5) {
        link(&mut nodes, &mut flags, format!("{r}/manifest_store.json"), "../outside/manifest_store.json".into(), "export-fixedname-out");
    }
    if rng.chance(1, 8) {
        link(&mut nodes, &mut flags, format!("{r}/manifest_data.c2pa"), "../outside/newdata.c2pa".into(), "export-fixedname-dangling");
    }
    let (base_rel, root_rel): (String, Option<String>) = match rng.below(10) {
        0..=4 => ("root".into(), None),
        5 => ("root/".into(), None),
        6 => ("root".into(), Some("root".into())),
        7 => ("root/ing".into(), Some("root".into())),
        8 => ("root/res/sub".into(), Some("root".into())),
        _ => ("root/ing".into(), None),
    };
    Scenario { nodes, base_rel, root_rel, flags }
}

struct Built {
    sandbox: PathBuf,
    /// tokens `SENTINEL-<hex>` of all outside files
    sentinels: Vec<Vec<u8>>,
}

fn sub(s: &str, sandbox: &Path) -> String {
    s.replace("$S", &sandbox.to_string_lossy())
}

fn build(sandbox: &Path, scen: &Scenario) -> Built {
    fssnap::rm_rf(sandbox);
    std::fs::create_dir_all(sandbox).expect("sandbox");
    let mut sentinels = Vec::new();
    for n in &scen.nodes {
        let p = sandbox.join(&n.rel);
        match &n.kind {
            NodeKind::Dir => {
                let _ = std::fs::create_dir_all(&p);
            }
            NodeKind::File(c) => {
                let _ = std::fs::write(&p, c.as_bytes());
                if c.starts_with("SENTINEL-") {
                    sentinels.push(c.as_bytes()[..("SENTINEL-".len() + 24)].to_vec());
                }
            }
            NodeKind::Link(t) => {
                let _ = std::os::unix::fs::symlink(sub(t, sandbox), &p);
            }
        }
    }
    Built { sandbox: sandbox.to_path_buf(), sentinels }
}

fn contains(hay: &[u8], needle: &[u8]) -> bool {
    !needle.is_empty() && hay.len() >= needle.len() && hay.windows(needle.len()).any(|w| w == needle)
}

fn has_sentinel(b: &Built, bytes: &[u8]) -> bool {
    // cheap pre-filter
    if !contains(bytes, b"SENTINEL-") {
        return false;
    }
    b.sentinels.iter().any(|s| contains(bytes, s))
}

// ------------------------------------------------------------------------------------------------
// identifier grammar

fn depth_of(base_rel: &str) -> usize {
    base_rel.split('/').filter(|c| !c.is_empty()).count()
}

/// (identifier with `$S` placeholder, intent tag)
fn gen_id(rng: &mut Rng, base_rel: &str) -> (String, &'static str) {
    let d = depth_of(base_rel);
    let up = "../".repeat(d);
    let p = "../".repeat(d.saturating_sub(1));
    let (mut id, intent): (String, &'static str) = if rng.chance(3, 5) {
        match rng.below(4) {
            0 => {
                let c: Vec<String> = vec![
                    format!("{up}outside/secret.txt"),
                    format!("{up}outside/dir/secret2.bin"),
                    "$S/outside/secret.txt".to_string(),
                    format!("{}{}/outside/secret.txt", "../".repeat(d + 3 + rng.usize(12)), "$S"),
                    format!("{p}lf_out.jpg"),
                    format!("{p}ld_out/secret2.bin"),
                    format!("{p}ld_out/deep/s3.bin"),
                    format!("{p}ld_out"),
                    format!("{p}chain1.jpg"),
                    format!("{p}chain1.jpg/secret2.bin"),
                    format!("{p}chain2"),
                    format!("{p}res/upup/outside/secret.txt"),
                    format!("{p}res/up/../outside/secret.txt"),
                    format!("{p}ing/l_out/secret2.bin"),
                    format!("{p}ing/lf_out.jpg"),
                    format!("{p}res/sub/l_fsroot$S/outside/secret.txt"),
                    format!("{p}res/sub/l_fsroot/etc/passwd"),
                    format!("{p}ld_in/up/../outside/a.jpg"),
                    format!("{p}{}/secret2.bin", fixed_label_dir()),
                    format!("{p}manifest_store.json"),
                    "l_out/secret2.bin".to_string(),
                    format!("{p}lb_sib/secret.txt"),
                    format!("{p}lb_sib/a.jpg"),
                    format!("{p}lbf_sib.jpg"),
                    "lf_out.jpg".to_string(),
                    "ld_out/icon.png".to_string(),
                    format!("{p}l/secret2.bin"),
                ];
                (rng.pick(&c).clone(), "outside-existing")
            }
            1 => {
                let c: Vec<String> = vec![
                    format!("{up}outside/new.bin"),
                    format!("{up}new_sibling.bin"),
                    format!("{p}ld_out/new.bin"),
                    format!("{p}ld_out/newdir/new.bin"),
                    format!("{p}dang_out.jpg"),
                    format!("{p}chain1.jpg/new.bin"),
                    format!("{p}res/upup/new.bin"),
                    format!("{p}res/upup/outside/new.bin"),
                    format!("{p}res/up/../new.bin"),
                    format!("{p}ing/l_out/new.bin"),
                    "$S/outside/new.bin".to_string(),
                    format!("{p}manifest_data.c2pa"),
                    "l_out/new.bin".to_string(),
                    "ld_out/new.bin".to_string(),
                    "dang_out.jpg".to_string(),
                    format!("{p}l/new.bin"),
                ];
                (rng.pick(&c).clone(), "outside-new")
            }
            2 => {
                let c: Vec<String> = vec![
                    format!("{p}a.jpg"),
                    format!("{p}res/icon.png"),
                    format!("{p}lf_in.jpg"),
                    format!("{p}ld_in/icon.png"),
                    format!("{p}res/up/a.jpg"),
                    format!("{p}res/sub/../icon.png"),
                    format!("./{p}thumb.png"),
                    format!("{p}ld_out/../../root/a.jpg"),
                    format!("{up}root/a.jpg"),
                    format!("{up}outside/back/a.jpg"),
                    "$S/root/a.jpg".to_string(),
                    "ingthumb.jpg".to_string(),
                    "deep.bin".to_string(),
                    "a.jpg".to_string(),
                    format!("{p}ing/../thumb.png"),
                ];
                (rng.pick(&c).clone(), "inside-existing")
            }
            _ => {
                let c: Vec<String> = vec![
                    "new.bin".to_string(),
                    "newdir/new.bin".to_string(),
                    format!("{p}ld_in/new.bin"),
                    format!("{p}dang_in.jpg"),
                    format!("{p}res/up/new.bin"),
                    format!("{p}loop"),
                    format!("{p}loop/x"),
                    format!("{p}res"),
                    format!("{p}res/"),
                    format!("{p}a.jpg/"),
                    format!("{p}a.jpg/x"),
                    "".to_string(),
                    ".".to_string(),
                    "..".to_string(),
                    "/".to_string(),
                    "...".to_string(),
                    "~/x".to_string(),
                ];
                (rng.pick(&c).clone(), "inside-new-or-odd")
            }
        }
    } else {
        let pool: Vec<String> = vec![
            "..", ".", "", "root", "outside", "res", "sub", "ing", "a.jpg", "thumb.png", "icon.png", "secret.txt", "secret2.bin", "dir", "deep", "lf_in.jpg", "ld_in", "lf_out.jpg", "ld_out",
            "chain1.jpg", "chain2", "dang_out.jpg", "dang_in.jpg", "loop", "up", "upup", "l_out", "l_fsroot", "back", "new.bin", "%2e%2e", "..%2f", "\u{2024}\u{2024}", "\u{FF0E}\u{FF0E}", "..\\", "\\",
            "$S", "etc", "passwd", "tmp", "C:", "con", " ",
        ]
        .into_iter()
        .map(|s| s.to_string())
        .collect();
        let k = 1 + rng.usize(6);
        let comps: Vec<String> = (0..k).map(|_| rng.pick(&pool).clone()).collect();
        (comps.join("/"), "random")
    };
    // decorations
    let n_dec = match rng.below(10) {
        0..=4 => 0,
        5..=7 => 1,
        _ => 2,
    };
    for _ in 0..n_dec {
        let slashes: Vec<usize> = id.match_indices('/').map(|(i, _)| i).collect();
        match rng.below(16) {
            0 => {
                if let Some(&i) = slashes.get(rng.usize(slashes.len().max(1))) {
                    id.replace_range(i..i + 1, "/./");
                }
            }
            1 => {
                if let Some(&i) = slashes.get(rng.usize(slashes.len().max(1))) {
                    id.replace_range(i..i + 1, "//");
                }
            }
            2 => id.push('/'),
            3 => id = id.replace('/', "\\"),
            4 => {
                if let Some(&i) = slashes.get(rng.usize(slashes.len().max(1))) {
                    id.replace_range(i..i + 1, "\\");
                }
            }
            5 => id = id.replace("..", *rng.pick(&["%2e%2e", "%2E%2E", "%252e%252e", ".%2e"])),
            6 => id = id.replace('/', *rng.pick(&["%2f", "%2F", "%5c"])),
            7 => id = id.replace("..", *rng.pick(&["\u{2024}\u{2024}", "\u{2025}", "\u{FF0E}\u{FF0E}", ".\u{200B}."])),
            8 => id = id.replace('/', *rng.pick(&["\u{2215}", "\u{FF0F}", "\u{2044}"])),
            9 => id = format!("{}{}", rng.pick(&["x/../", "res/../", "./", "a.jpg/../", "nonexistent/../"]), id),
            10 => id = format!("{}{}", "./".repeat(2100), id),
            11 => id = format!("{}/../{}", "a".repeat(300), id),
            12 => id.push_str(*rng.pick(&["\0", "\0.jpg", " ", ".", "%00"])),
            13 => id = format!("/{id}"),
            14 => id = format!("{}{}", rng.pick(&[" ", "file://", "file:///", "self#jumbf=", "C:/", "//?/"]), id),
            _ => id = id.to_uppercase(),
        }
    }
    (id, intent)
}

fn id_flags(id: &str) -> String {
    let mut f: Vec<&str> = Vec::new();
    let comps: Vec<&str> = id.split('/').collect();
    if id.starts_with('/') || id.starts_with("$S") {
        f.push("abs");
    }
    if comps.iter().any(|c| *c == "..") {
        f.push("dotdot");
    }
    if comps.iter().any(|c| *c == ".") {
        f.push("dot");
    }
    if id.contains("//") {
        f.push("dblslash");
    }
    if id.contains('\\') {
        f.push("backslash");
    }
    if id.contains('%') {
        f.push("pct");
    }
    if !id.is_ascii() {
        f.push("unicode");
    }
    if id.len() > 255 {
        f.push("long");
    }
    if id.len() > 1 && id.ends_with('/') {
        f.push("trailslash");
    }
    if id.contains('\0') {
        f.push("nul");
    }
    if id.is_empty() {
        f.push("empty");
    }
    for l in ["lf_out", "ld_out", "chain", "dang_out", "upup", "l_out", "l_fsroot", "urn_c2pa", "manifest_"] {
        if id.contains(l) {
            f.push("outlink-name");
            break;
        }
    }
    for l in ["lf_in", "ld_in", "dang_in", "loop", "/up/", "back"] {
        if id.contains(l) {
            f.push("inlink-name");
            break;
        }
    }
    if f.is_empty() {
        f.push("plain");
    }
    f.join("+")
}

// ------------------------------------------------------------------------------------------------
// one operation

#[derive(Clone, Debug)]
struct OpCase {
    op: String,
    /// identifiers / arguments, `$S` = sandbox path
    args: Vec<String>,
}

fn op_json(o: &OpCase) -> Value {
    json!({"op": o.op, "args": o.args})
}

#[derive(Default)]
struct OpResult {
    class: String,
    nontrivial: bool,
    /// (sig, what)
    violations: Vec<(String, String)>,
    unjudged: Option<String>,
    outcome: String,
    /// outside state was damaged: the tree must be rebuilt before the next op
    dirty: bool,
    counters: Vec<(&'static str, u64)>,
}

fn group_of(op: &str) -> &'static str {
    match op {
        "add" | "add_with" | "builder.add_resource" => "store-write",
        "get" | "write_stream" | "builder.sign-thumb" | "builder.sign-ingredient" => "store-read",
        "exists" | "path_for_id" => "store-probe",
        "archive" => "archive",
        _ => "export",
    }
}

struct Shared {
    jpeg: Vec<u8>,
    settings: String,
    /// signed stores used by the to_folder cases: (name, format, bytes)
    stores: Vec<(String, String, Vec<u8>)>,
}

fn ctx(sh: &Shared) -> Context {
    Context::new().with_settings(sh.settings.as_str()).expect("settings")
}

fn minimal_def() -> Value {
    json!({"title": "c29", "format": "image/jpeg", "assertions": [{"label": "c2pa.actions", "data": {"actions": [{"action": "c2pa.created", "digitalSourceType": "http://c2pa.org/digitalsourcetype/empty"}]}}]})
}

/// raw zip writer (stored entries, names written verbatim)
fn make_zip(entries: &[(String, Vec<u8>)]) -> Vec<u8> {
    let mut out: Vec<u8> = Vec::new();
    let mut central: Vec<u8> = Vec::new();
    for (name, data) in entries {
        let off = out.len() as u32;
        let crc = crc32fast::hash(data);
        let nb = name.as_bytes();
        let mut h = Vec::new();
        h.extend_from_slice(&0x04034b50u32.to_le_bytes());
        h.extend_from_slice(&20u16.to_le_bytes()); // version
        h.extend_from_slice(&0x0800u16.to_le_bytes()); // utf-8 names
        h.extend_from_slice(&0u16.to_le_bytes()); // stored
        h.extend_from_slice(&0u16.to_le_bytes());
        h.extend_from_slice(&0x21u16.to_le_bytes());
        h.extend_from_slice(&crc.to_le_bytes());
        h.extend_from_slice(&(data.len() as u32).to_le_bytes());
        h.extend_from_slice(&(data.len() as u32).to_le_bytes());
        h.extend_from_slice(&(nb.len() as u16).to_le_bytes());
        h.extend_from_slice(&0u16.to_le_bytes());
        out.extend_from_slice(&h);
        out.extend_from_slice(nb);
        out.extend_from_slice(data);
        central.extend_from_slice(&0x02014b50u32.to_le_bytes());
        central.extend_from_slice(&20u16.to_le_bytes());
        central.extend_from_slice(&h[4..30]);
        central.extend_from_slice(&0u16.to_le_bytes()); // comment len
        central.extend_from_slice(&0u16.to_le_bytes()); // disk
        central.extend_from_slice(&0u16.to_le_bytes()); // int attrs
        central.extend_from_slice(&0u32.to_le_bytes()); // ext attrs
        central.extend_from_slice(&off.to_le_bytes());
        central.extend_from_slice(nb);
    }
    let cd_off = out.len() as u32;
    out.extend_from_slice(&central);
    out.extend_from_slice(&0x06054b50u32.to_le_bytes());
    out.extend_from_slice(&0u16.to_le_bytes());
    out.extend_from_slice(&0u16.to_le_bytes());
    out.extend_from_slice(&(entries.len() as u16).to_le_bytes());
    out.extend_from_slice(&(entries.len() as u16).to_le_bytes());
    out.extend_from_slice(&(central.len() as u32).to_le_bytes());
    out.extend_from_slice(&cd_off.to_le_bytes());
    out.extend_from_slice(&0u16.to_le_bytes());
    out
}

fn replace_all(hay: &[u8], from: &[u8], to: &[u8]) -> (Vec<u8>, usize) {
    let mut out = Vec::with_capacity(hay.len());
    let mut i = 0;
    let mut n = 0;
    while i < hay.len() {
        if i + from.len() <= hay.len() && &hay[i..i + from.len()] == from {
            out.extend_from_slice(to);
            i += from.len();
            n += 1;
        } else {
            out.push(hay[i]);
            i += 1;
        }
    }
    (out, n)
}

/// pads/truncates a hostile string to exactly `n` bytes (only ASCII fillers, never cuts a char)
fn fit(s: &str, n: usize, rng: &mut Rng) -> Option<String> {
    if s.len() > n {
        return None;
    }
    let mut out = s.to_string();
    let fill = *rng.pick(&["x", "/.", "./"]);
    match fill {
        "x" => {
            while out.len() < n {
                out.push('x');
            }
        }
        "/." => {
            while out.len() + 2 <= n {
                out.push_str("/.");
            }
            while out.len() < n {
                out.push('x');
            }
        }
        _ => {
            let mut pre = String::new();
            while pre.len() + out.len() + 2 <= n {
                pre.push_str("./");
            }
            out = format!("{pre}{out}");
            while out.len() < n {
                out.push('x');
            }
        }
    }
    Some(out)
}

fn mech_of(r: &fssnap::Resolved, flags: &str) -> String {
    match &r.escape {
        Some(e) => e.name().to_string(),
        None => format!("noescape:{flags}"),
    }
}

fn run_op(b: &Built, scen: &Scenario, oc: &OpCase, sh: &Shared, before: &Snap) -> (OpResult, Snap) {
    let sandbox = &b.sandbox;
    let mut res = OpResult::default();
    let op = oc.op.as_str();
    let group = group_of(op);
    let arg = |i: usize| -> String { oc.args.get(i).map(|s| sub(s, sandbox)).unwrap_or_default() };
    // configuration of this op: builder-level ops always use root / root/ing
    let builder_level = op.starts_with("builder.") || op == "archive";
    let (base_rel, root_rel): (String, Option<String>) = if op == "builder.sign-ingredient" {
        ("root/ing".into(), Some("root".into()))
    } else if builder_level {
        ("root".into(), None)
    } else if op == "to_folder" {
        (arg(1).trim_start_matches(&format!("{}/", sandbox.display())).to_string(), None)
    } else {
        (scen.base_rel.clone(), scen.root_rel.clone())
    };
    let base = PathBuf::from(format!("{}/{}", sandbox.display(), base_rel));
    let confine_src = sandbox.join(root_rel.clone().unwrap_or_else(|| base_rel.trim_end_matches('/').to_string()));
    let confine = fssnap::resolve(&confine_src).path;
    let id = arg(0);
    let flags = id_flags(oc.args.first().map(|s| s.as_str()).unwrap_or(""));
    // where does the OS say base/id lives?
    let joined = if id.starts_with('/') { PathBuf::from(&id) } else { PathBuf::from(format!("{}/{}", base.display().to_string().trim_end_matches('/'), id)) };
    let mut loc = fssnap::resolve_in(&joined, Some(&confine));
    let loc_outside = loc.undefined.is_none() && !loc.path.starts_with(&confine);
    let loc_class = if loc.undefined.is_some() {
        format!("undefined:{}", loc.undefined.unwrap_or(""))
    } else if loc_outside {
        format!("outside-{}:{}", if loc.exists { "existing" } else { "new" }, loc.escape.as_ref().map(|e| e.name()).unwrap_or("?"))
    } else if loc.returned {
        format!("inside-{}:left-and-returned", if loc.exists { "existing" } else { "new" })
    } else {
        format!("inside-{}{}", if loc.exists { "existing" } else { "new" }, if loc.symlinks_traversed > 0 { ":via-link" } else { "" })
    };
    let mut store = ResourceStore::new();
    store.set_base_path(base.clone());
    if let Some(rr) = &root_rel {
        store.set_resource_root(sandbox.join(rr));
    }
    let data = format!("ADDED-{}", oc.args.get(9).cloned().unwrap_or_else(|| "data".into())).into_bytes();
    let viol = |res: &mut OpResult, mech: String, effect: &str, what: String| {
        res.violations.push((format!("{group}|{mech}|{effect}"), what));
    };
    let mut returned_bytes: Option<Vec<u8>> = None;
    let mut exported: Vec<u8> = Vec::new();
    let outcome: String;
    res.nontrivial = true;
    match op {
        "add" => {
            let r = report::catch_sdk(|| store.add(id.clone(), data.clone()).map(|_| ()));
            outcome = match r {
                Ok(Ok(())) => "ok".into(),
                Ok(Err(e)) => format!("err:{}", report::err_kind(&e)),
                Err(p) => {
                    viol(&mut res, mech_of(&loc, &flags), "panic", format!("panic: {p}"));
                    "panic".into()
                }
            };
        }
        "add_with" => {
            let fmt = arg(1);
            let r = report::catch_sdk(|| store.add_with(&id, &fmt, data.clone()));
            outcome = match r {
                Ok(Ok(rr)) => {
                    res.counters.push(("add_with_ids", 1));
                    // the identifier was chosen by the SDK: locate what it designates (signature/class only)
                    let j2 = PathBuf::from(format!("{}/{}", base.display().to_string().trim_end_matches('/'), rr.identifier));
                    loc = fssnap::resolve_in(&j2, Some(&confine));
                    "ok".into()
                }
                Ok(Err(e)) => format!("err:{}", report::err_kind(&e)),
                Err(p) => {
                    viol(&mut res, mech_of(&loc, &flags), "panic", format!("panic: {p}"));
                    "panic".into()
                }
            };
        }
        "get" => {
            let r = report::catch_sdk(|| store.get(&id).map(|c| c.into_owned()));
            outcome = match r {
                Ok(Ok(v)) => {
                    returned_bytes = Some(v);
                    "ok".into()
                }
                Ok(Err(e)) => format!("err:{}", report::err_kind(&e)),
                Err(p) => {
                    viol(&mut res, mech_of(&loc, &flags), "panic", format!("panic: {p}"));
                    "panic".into()
                }
            };
        }
        "write_stream" => {
            let mut cur = Cursor::new(Vec::new());
            let r = report::catch_sdk(|| store.write_stream(&id, &mut cur));
            outcome = match r {
                Ok(Ok(_)) => "ok".into(),
                Ok(Err(e)) => format!("err:{}", report::err_kind(&e)),
                Err(p) => {
                    viol(&mut res, mech_of(&loc, &flags), "panic", format!("panic: {p}"));
                    "panic".into()
                }
            };
            // whatever reached the stream counts, even on error
            let v = cur.into_inner();
            if outcome == "ok" || !v.is_empty() {
                returned_bytes = Some(v);
            }
        }
        "exists" => {
            let r = report::catch_sdk(|| store.exists(&id));
            outcome = match r {
                Ok(true) => {
                    if loc.undefined.is_some() {
                        res.unjudged = Some("exists=true on an identifier the harness cannot resolve".into());
                    } else if loc_outside {
                        viol(&mut res, mech_of(&loc, &flags), "exists", format!("exists({id:?}) = true but its real location is {} (outside {})", loc.path.display(), confine.display()));
                    }
                    "true".into()
                }
                Ok(false) => "false".into(),
                Err(p) => {
                    viol(&mut res, mech_of(&loc, &flags), "panic", format!("panic: {p}"));
                    "panic".into()
                }
            };
        }
        "path_for_id" => {
            let r = report::catch_sdk(|| store.path_for_id(&id));
            outcome = match r {
                Ok(Some(p)) => {
                    let pl = fssnap::resolve_in(&p, Some(&confine));
                    if pl.undefined.is_some() || loc.undefined.is_some() {
                        res.unjudged = Some(format!("path_for_id=Some on an identifier the harness cannot resolve ({})", pl.undefined.or(loc.undefined).unwrap_or("")));
                    } else if !pl.path.starts_with(&confine) {
                        let mech = pl.escape.as_ref().map(|e| e.name().to_string()).unwrap_or_else(|| mech_of(&loc, &flags));
                        viol(
                            &mut res,
                            mech,
                            if pl.exists { "path-existing" } else { "path-new" },
                            format!("path_for_id({id:?}) = Some({}) whose real location is {} (outside {})", p.display(), pl.path.display(), confine.display()),
                        );
                    }
                    "some".into()
                }
                Ok(None) => "none".into(),
                Err(p) => {
                    viol(&mut res, mech_of(&loc, &flags), "panic", format!("panic: {p}"));
                    "panic".into()
                }
            };
        }
        "builder.add_resource" => {
            let r = report::catch_sdk(|| -> c2pa::Result<()> {
                let mut bld = Builder::from_context(ctx(sh)).with_definition(minimal_def())?;
                bld.set_base_path(base.clone());
                bld.add_resource(&id, Cursor::new(data.clone()))?;
                Ok(())
            });
            outcome = match r {
                Ok(Ok(())) => "ok".into(),
                Ok(Err(e)) => format!("err:{}", report::err_kind(&e)),
                Err(p) => {
                    viol(&mut res, mech_of(&loc, &flags), "panic", format!("panic: {p}"));
                    "panic".into()
                }
            };
        }
        "builder.sign-thumb" => {
            let r = report::catch_sdk(|| -> c2pa::Result<Vec<u8>> {
                let mut def = minimal_def();
                def["thumbnail"] = json!({"format": "image/jpeg", "identifier": id});
                let mut bld = Builder::from_context(ctx(sh)).with_definition(def)?;
                bld.set_base_path(base.clone());
                let signer = signers::test_signer("ed25519");
                let mut src = Cursor::new(sh.jpeg.clone());
                let mut dst = Cursor::new(Vec::new());
                bld.sign(signer.as_ref(), "image/jpeg", &mut src, &mut dst)?;
                Ok(dst.into_inner())
            });
            outcome = match r {
                Ok(Ok(v)) => {
                    exported = v;
                    "signed".into()
                }
                Ok(Err(e)) => format!("err:{}", report::err_kind(&e)),
                Err(p) => {
                    viol(&mut res, mech_of(&loc, &flags), "panic", format!("panic: {p}"));
                    "panic".into()
                }
            };
        }
        "builder.sign-ingredient" => {
            let which = arg(1);
            let r = report::catch_sdk(|| -> c2pa::Result<Vec<u8>> {
                let mut ij = json!({"title": "ing", "format": "image/jpeg", "relationship": "componentOf", "instance_id": "xmp.iid:c29"});
                if which == "data" {
                    ij["data"] = json!({"format": "text/plain", "identifier": id});
                } else if which == "manifest_data" {
                    ij["manifest_data"] = json!({"format": "application/c2pa", "identifier": id});
                } else {
                    ij["thumbnail"] = json!({"format": "image/jpeg", "identifier": id});
                }
                let mut ing = Ingredient::from_json(&ij.to_string())?;
                ing.resources_mut().set_base_path(base.clone());
                let mut def = minimal_def();
                def["assertions"] = json!([{"label": "c2pa.actions", "data": {"actions": [{"action": "c2pa.created", "digitalSourceType": "http://c2pa.org/digitalsourcetype/empty"}, {"action": "c2pa.placed"}]}}]);
                let mut bld = Builder::from_context(ctx(sh)).with_definition(def)?;
                bld.set_base_path(sandbox.join("root"));
                bld.add_ingredient(ing);
                let signer = signers::test_signer("ed25519");
                let mut src = Cursor::new(sh.jpeg.clone());
                let mut dst = Cursor::new(Vec::new());
                bld.sign(signer.as_ref(), "image/jpeg", &mut src, &mut dst)?;
                Ok(dst.into_inner())
            });
            outcome = match r {
                Ok(Ok(v)) => {
                    exported = v;
                    "signed".into()
                }
                Ok(Err(e)) => format!("err:{}", report::err_kind(&e)),
                Err(p) => {
                    viol(&mut res, mech_of(&loc, &flags), "panic", format!("panic: {p}"));
                    "panic".into()
                }
            };
        }
        "archive" => {
            // args: 0 = hostile name, 1 = where it is used, 2 = "sign"|"nosign"
            let place = arg(1);
            let r = report::catch_sdk(|| -> c2pa::Result<(String, Vec<u8>)> {
                let mut def = minimal_def();
                def["instance_id"] = json!("xmp:iid:c29");
                def["ingredients"] = json!([{"title": "i", "format": "image/jpeg", "relationship": "componentOf", "instance_id": "xmp.iid:c29-i"}]);
                def["no_embed"] = json!(false);
                def["timestamp_manifest_labels"] = json!([]);
                def["base_path"] = json!(format!("{}/outside", sandbox.display()));
                def["resources"] = json!({"base_path": format!("{}/outside", sandbox.display()), "resources": {}});
                let mut entries: Vec<(String, Vec<u8>)> = vec![("version.txt".into(), b"1".to_vec())];
                let payload = data.clone();
                match place.as_str() {
                    "resource-entry" => {
                        def["thumbnail"] = json!({"format": "image/jpeg", "identifier": id});
                        entries.push((format!("resources/{id}"), payload));
                    }
                    "resource-entry-raw" => entries.push((id.clone(), payload)),
                    "manifest-entry" => entries.push((format!("manifests/{id}"), payload)),
                    "ingredient-entry" => {
                        def["ingredients"][0]["thumbnail"] = json!({"format": "image/jpeg", "identifier": id});
                        entries.push((format!("ingredients/0/{id}"), payload));
                    }
                    "thumb-ref-only" => {
                        def["thumbnail"] = json!({"format": "image/jpeg", "identifier": id});
                    }
                    _ => {
                        def["ingredients"][0]["thumbnail"] = json!({"format": "image/jpeg", "identifier": id});
                    }
                }
                entries.insert(1, ("manifest.json".into(), def.to_string().into_bytes()));
                let zip = make_zip(&entries);
                let mut bld = Builder::from_context(ctx(sh)).with_archive(Cursor::new(zip))?;
                if arg(2) != "sign" {
                    return Ok(("imported".into(), Vec::new()));
                }
                bld.set_base_path(base.clone());
                bld.set_intent(BuilderIntent::Edit);
                let signer = signers::test_signer("ed25519");
                let mut src = Cursor::new(sh.jpeg.clone());
                let mut dst = Cursor::new(Vec::new());
                match bld.sign(signer.as_ref(), "image/jpeg", &mut src, &mut dst) {
                    Ok(_) => Ok(("imported+signed".into(), dst.into_inner())),
                    Err(e) => Ok((format!("imported+sign-err:{}", report::err_kind(&e)), Vec::new())),
                }
            });
            outcome = match r {
                Ok(Ok((o, v))) => {
                    exported = v;
                    o
                }
                Ok(Err(e)) => format!("import-err:{}", report::err_kind(&e)),
                Err(p) => {
                    viol(&mut res, mech_of(&loc, &flags), "panic", format!("panic: {p}"));
                    "panic".into()
                }
            };
        }
        "to_folder" => {
            // args: 0 = replacement ("" = none), 1 = target dir, 2 = store index, 3 = what is patched
            let si: usize = arg(2).parse().unwrap_or(0);
            let (_, fmt, bytes) = &sh.stores[si % sh.stores.len()];
            let what = arg(3);
            let target = PathBuf::from(arg(1));
            let r = report::catch_sdk(|| -> c2pa::Result<String> {
                let mut data = bytes.clone();
                let mut patched = 0;
                if !id.is_empty() {
                    let from: Vec<u8> = match what.as_str() {
                        "manifest-label" => FIXED_LABEL.as_bytes().to_vec(),
                        "thumb-label" => b"c2pa.thumbnail.claim".to_vec(),
                        "ing-thumb-label" => b"c2pa.thumbnail.ingredient".to_vec(),
                        "databox-label" => b"c2pa.data".to_vec(),
                        _ => b"c2pa.assertions".to_vec(),
                    };
                    if from.len() == id.len() {
                        let (d, n) = replace_all(&data, &from, id.as_bytes());
                        data = d;
                        patched = n;
                    }
                }
                let reader = Reader::from_context(ctx(sh)).with_stream(fmt, Cursor::new(data))?;
                reader.to_folder(&target)?;
                Ok(format!("exported(patched={})", if patched > 0 { "yes" } else { "no" }))
            });
            outcome = match r {
                Ok(Ok(o)) => o,
                Ok(Err(e)) => format!("err:{}", report::err_kind(&e)),
                Err(p) => {
                    viol(&mut res, "export".into(), "panic", format!("panic: {p}"));
                    "panic".into()
                }
            };
        }
        _ => {
            outcome = "unknown-op".into();
            res.nontrivial = false;
        }
    }
    // ---- oracles common to all ops
    if let Some(v) = &returned_bytes {
        if has_sentinel(b, v) {
            viol(&mut res, mech_of(&loc, &flags), "read", format!("{op}({id:?}) returned the bytes of an outside file (sentinel found); real location {}", loc.path.display()));
        } else if loc_outside && loc.exists {
            viol(&mut res, mech_of(&loc, &flags), "read", format!("{op}({id:?}) returned {} bytes of {} which is outside {}", v.len(), loc.path.display(), confine.display()));
        }
    }
    if !exported.is_empty() && has_sentinel(b, &exported) {
        viol(&mut res, mech_of(&loc, &flags), "read", format!("{op}({id:?}): the signed output embeds the bytes of an outside file (sentinel found)"));
    }
    let after = fssnap::snapshot(sandbox);
    let changes = fssnap::diff(before, &after);
    let mut outside_changes: Vec<String> = Vec::new();
    let mut inside_changes = 0u64;
    for c in &changes {
        let abs = if c.path.as_os_str().is_empty() { sandbox.clone() } else { sandbox.join(&c.path) };
        if abs.starts_with(&confine) {
            inside_changes += 1;
            continue;
        }
        // the sandbox directory itself and `root`'s ancestors are not "inside", anything changed there is outside
        if c.change == ChangeKind::Touched && c.before == Some(fssnap::Kind::Dir) {
            continue;
        }
        // to_folder creates its target with create_dir_all: new ancestor directories of the target are legitimate
        if op == "to_folder" && c.change == ChangeKind::Created && c.after == Some(fssnap::Kind::Dir) && confine.starts_with(&abs) {
            continue;
        }
        outside_changes.push(format!("{}:{}", c.change.name(), c.path.display()));
    }
    res.counters.push(("inside_changes", inside_changes));
    if !outside_changes.is_empty() {
        res.dirty = true;
        // which mechanism let the write out?  for to_folder/archive: the link below the root that leads to the changed entry
        let mut by_mech: BTreeMap<String, Vec<String>> = BTreeMap::new();
        if op == "to_folder" || op == "archive" {
            for oc2 in &outside_changes {
                let mut it = oc2.splitn(2, ':');
                let kind = it.next().unwrap_or("");
                let p = sandbox.join(it.next().unwrap_or(""));
                let mut m = format!("noescape:{flags}");
                for n in &scen.nodes {
                    if let NodeKind::Link(_) = n.kind {
                        let lp = sandbox.join(&n.rel);
                        let under_root = lp.parent().map(|pp| fssnap::resolve(pp).path.starts_with(&confine)).unwrap_or(false);
                        if !under_root {
                            continue;
                        }
                        let lr = fssnap::resolve(&lp);
                        if p == lr.path {
                            m = if kind == "created" { "symlink-dangling".into() } else { "symlink-file".into() };
                        } else if p.starts_with(&lr.path) && !lr.path.starts_with(&confine) {
                            m = "symlink-dir".into();
                        }
                    }
                }
                by_mech.entry(m).or_default().push(oc2.clone());
            }
        } else {
            by_mech.insert(mech_of(&loc, &flags), outside_changes.clone());
        }
        for (mech, chs) in by_mech {
            viol(&mut res, mech, "write", format!("{op}({id:?}) with base {} changed entries outside {}: {}", base.display(), confine.display(), chs.join(", ")));
        }
    }
    if op == "to_folder" {
        res.class = format!("{op}|{}|{}|{}|{}", arg(3), if id.is_empty() { "unpatched".into() } else { id_flags(&id) }, target_class(scen, &arg(1), sandbox), outcome);
    } else if op == "archive" {
        res.class = format!("{op}|{}|{}|{}", arg(1), flags, outcome);
    } else {
        res.class = format!("{op}|{}|{}|{}|{}", flags, loc_class, cfg_class(&base_rel, &root_rel, scen), outcome);
    }
    res.outcome = outcome;
    (res, after)
}

fn cfg_class(base_rel: &str, root_rel: &Option<String>, scen: &Scenario) -> String {
    format!("base={}{}{}", base_rel, root_rel.as_ref().map(|r| format!(",rr={r}")).unwrap_or_default(), if scen.flags.iter().any(|f| f == "rootlink") { ",rootlink" } else { "" })
}

fn target_class(scen: &Scenario, target: &str, sandbox: &Path) -> String {
    let rel = target.trim_start_matches(&format!("{}/", sandbox.display())).to_string();
    let mut f = vec![format!("target={rel}")];
    for fl in ["export-labeldir-out", "export-fixedname-out", "export-fixedname-dangling", "rootlink"] {
        if scen.flags.iter().any(|x| x == fl) && (rel == "root" || fl == "rootlink") {
            f.push(fl.to_string());
        }
    }
    f.join(",")
}

fn gen_op(rng: &mut Rng, scen: &Scenario, sh: &Shared) -> OpCase {
    let data_tag = hex::encode(rng.bytes(6));
    let mk = |op: &str, mut args: Vec<String>| {
        while args.len() < 9 {
            args.push(String::new());
        }
        args.push(data_tag.clone());
        OpCase { op: op.to_string(), args }
    };
    match rng.below(100) {
        0..=13 => mk("add", vec![gen_id(rng, &scen.base_rel).0]),
        14..=19 => {
            // add_with neutralises '/' and ':' itself; keys are names (optionally decorated ids)
            let key = if rng.bool() {
                rng.pick(&["lf_out", "dang_out", "chain1", "lf_in", "dang_in", "a", "new", "ld_out", "chain2", "loop", "..", ".", "", "manifest_store", "lf_out.jpg"]).to_string()
            } else {
                gen_id(rng, &scen.base_rel).0
            };
            let fmt = rng.pick(&["image/jpeg", "jpg", "png", "", "application/json", "c2pa", "ocsp", "json"]).to_string();
            mk("add_with", vec![key, fmt])
        }
        20..=33 => mk("get", vec![gen_id(rng, &scen.base_rel).0]),
        34..=45 => mk("exists", vec![gen_id(rng, &scen.base_rel).0]),
        46..=55 => mk("write_stream", vec![gen_id(rng, &scen.base_rel).0]),
        56..=67 => mk("path_for_id", vec![gen_id(rng, &scen.base_rel).0]),
        68..=73 => mk("builder.add_resource", vec![gen_id(rng, "root").0]),
        74..=80 => mk("builder.sign-thumb", vec![gen_id(rng, "root").0]),
        81..=87 => mk("builder.sign-ingredient", vec![gen_id(rng, "root/ing").0, rng.pick(&["thumbnail", "data", "manifest_data"]).to_string()]),
        88..=92 => {
            let place = rng.pick(&["resource-entry", "resource-entry-raw", "manifest-entry", "ingredient-entry", "thumb-ref-only", "ing-ref-only"]).to_string();
            let id = if place == "resource-entry-raw" { format!("{}{}", rng.pick(&["resources/", "manifests/", "ingredients/", "ingredients/0/", "resources/../", ""]), gen_id(rng, "root").0) } else { gen_id(rng, "root").0 };
            mk("archive", vec![id, place, if rng.chance(2, 3) { "sign".into() } else { "nosign".into() }])
        }
        _ => {
            let si = rng.usize(sh.stores.len());
            let target = rng.pick(&["$S/root", "$S/root", "$S/root/export", "$S/root/ld_in/export", "$S/root/res/up", "$S/root/"]).to_string();
            let what = rng.pick(&["manifest-label", "thumb-label", "ing-thumb-label", "databox-label", "assertions-box"]).to_string();
            let n = match what.as_str() {
                "manifest-label" => FIXED_LABEL.len(),
                "thumb-label" => "c2pa.thumbnail.claim".len(),
                "ing-thumb-label" => "c2pa.thumbnail.ingredient".len(),
                "databox-label" => "c2pa.data".len(),
                _ => "c2pa.assertions".len(),
            };
            let rep = if rng.chance(2, 5) {
                String::new()
            } else {
                let hostile: Vec<String> = vec![
                    "../../outside/dir/x".into(),
                    "../x".into(),
                    "..".into(),
                    "/tmp/x".into(),
                    "..\\..\\x".into(),
                    "ld_out".into(),
                    "ld_out/x".into(),
                    "lf_out.jpg".into(),
                    "dang_out.jpg".into(),
                    "chain1.jpg".into(),
                    "res/upup/x".into(),
                    "res/up/../x".into(),
                    "%2e%2e/x".into(),
                    "\u{2025}/x".into(),
                    "a:b:../c".into(),
                    "x/../../y".into(),
                    ".".into(),
                    "x//y".into(),
                    "loop/x".into(),
                    "../../l/x".into(),
                    "../../../l/x".into(),
                    "l/x".into(),
                ];
                let h = rng.pick(&hostile).clone();
                fit(&h, n, rng).unwrap_or_default()
            };
            mk("to_folder", vec![rep, target, si.to_string(), what])
        }
    }
}

/// Directed cases: one per suspected cause class, run on every invocation.
fn directed(sh: &Shared) -> Vec<(Scenario, OpCase)> {
    let mut rng = Rng::new(29, "c29-directed");
    let mut scen = gen_scenario(&mut rng, true);
    scen.base_rel = "root".into();
    scen.root_rel = None;
    // keep `root` a real directory in the directed scenario
    if scen.flags.iter().any(|f| f == "rootlink") {
        for _ in 0..50 {
            scen = gen_scenario(&mut rng, true);
            scen.base_rel = "root".into();
            scen.root_rel = None;
            if !scen.flags.iter().any(|f| f == "rootlink") {
                break;
            }
        }
    }
    let has = |scen: &Scenario, rel: &str| scen.nodes.iter().any(|n| n.rel == rel);
    if !has(&scen, &format!("root/{}", fixed_label_dir())) {
        scen.nodes.push(Node { rel: format!("root/{}", fixed_label_dir()), kind: NodeKind::Link("../outside/dir".into()) });
        scen.flags.push("export-labeldir-out".into());
    }
    if !has(&scen, "root/manifest_store.json") {
        scen.nodes.push(Node { rel: "root/manifest_store.json".into(), kind: NodeKind::Link("../outside/manifest_store.json".into()) });
        scen.flags.push("export-fixedname-out".into());
    }
    let mk = |op: &str, args: &[&str]| {
        let mut a: Vec<String> = args.iter().map(|s| s.to_string()).collect();
        while a.len() < 9 {
            a.push(String::new());
        }
        a.push("directed".into());
        OpCase { op: op.into(), args: a }
    };
    let mut out = Vec::new();
    let ids = [
        "ld_out/new.bin", "ld_out/secret2.bin", "lf_out.jpg", "dang_out.jpg", "chain1.jpg", "res/upup/outside/new.bin", "ld_out/newdir/new.bin", "../outside/secret.txt", "$S/outside/secret.txt", "..\\outside\\secret.txt",
        "res/up/../outside/secret.txt", "res/up/../new.bin", "a.jpg", "res/icon.png", "lf_in.jpg", "new.bin", "%2e%2e/outside/secret.txt", "res/../../outside/new.bin", "x/../../outside/secret.txt", "l/new.bin",
    ];
    for op in ["add", "get", "exists", "write_stream", "path_for_id", "builder.add_resource", "builder.sign-thumb"] {
        for id in ids {
            out.push((scen.clone(), mk(op, &[id])));
        }
    }
    for (k, f) in [("lf_out", "image/jpeg"), ("dang_out", "jpg"), ("chain1", "image/jpeg"), ("a", "jpg"), ("ld_out", "")] {
        out.push((scen.clone(), mk("add_with", &[k, f])));
    }
    for id in ["l_out/secret2.bin", "lf_out.jpg", "../lf_out.jpg", "../../outside/secret.txt", "../thumb.png", "ingthumb.jpg", "../ld_out/secret2.bin"] {
        for w in ["thumbnail", "data"] {
            out.push((scen.clone(), mk("builder.sign-ingredient", &[id, w])));
        }
    }
    for (id, place) in [("../../outside/new.bin", "resource-entry"), ("ld_out/new.bin", "resource-entry"), ("thumb.jpg", "resource-entry"), ("../x", "manifest-entry"), ("lf_out.jpg", "thumb-ref-only"), ("../outside/secret.txt", "ing-ref-only"), ("$S/outside/new.bin", "resource-entry-raw")] {
        out.push((scen.clone(), mk("archive", &[id, place, "sign"])));
    }
    // to_folder: one scenario per way a pre-existing link in the target can lead out
    let strip = |scen: &Scenario| {
        let mut s2 = scen.clone();
        let names = [format!("root/{}", fixed_label_dir()), "root/manifest_store.json".to_string(), "root/manifest_data.c2pa".to_string()];
        s2.nodes.retain(|n| !names.contains(&n.rel));
        s2.flags.retain(|f| !f.starts_with("export-"));
        s2
    };
    let plain_scen = strip(&scen);
    let mut s_dir = plain_scen.clone();
    s_dir.nodes.push(Node { rel: format!("root/{}", fixed_label_dir()), kind: NodeKind::Link("../outside/dir".into()) });
    s_dir.flags.push("export-labeldir-out".into());
    let mut s_file = plain_scen.clone();
    s_file.nodes.push(Node { rel: "root/manifest_store.json".into(), kind: NodeKind::Link("../outside/manifest_store.json".into()) });
    s_file.flags.push("export-fixedname-out".into());
    let mut s_dang = plain_scen.clone();
    s_dang.nodes.push(Node { rel: "root/manifest_data.c2pa".into(), kind: NodeKind::Link("../outside/newdata.c2pa".into()) });
    s_dang.flags.push("export-fixedname-dangling".into());
    for si in 0..sh.stores.len() {
        for sc in [&plain_scen, &s_dir, &s_file, &s_dang] {
            for t in ["$S/root", "$S/root/export"] {
                out.push((sc.clone(), mk("to_folder", &["", t, &si.to_string(), "manifest-label"])));
            }
        }
    }
    out
}

fn prepare_stores(sh: &mut Shared) -> Vec<String> {
    let mut notes = Vec::new();
    let signer = signers::test_signer("ed25519");
    let thumb = b"THUMB-BYTES-c29".to_vec();
    for (name, claim_version) in [("v2-thumb-ingredient", 2u8), ("v1-databox", 1u8)] {
        let mut def = minimal_def();
        def["label"] = json!(FIXED_LABEL);
        def["thumbnail"] = json!({"format": "image/jpeg", "identifier": "thumb.jpg"});
        if claim_version == 1 {
            def["claim_version"] = json!(1);
            def["label"] = json!(format!("contentauth:urn:uuid:{}", &FIXED_LABEL["urn:c2pa:".len()..]));
        }
        def["assertions"] = json!([{"label": "c2pa.actions", "data": {"actions": [{"action": "c2pa.created", "digitalSourceType": "http://c2pa.org/digitalsourcetype/empty"}, {"action": "c2pa.placed"}]}}]);
        let r = report::catch_sdk(|| -> c2pa::Result<Vec<u8>> {
            let mut bld = Builder::from_context(ctx(sh)).with_definition(def.clone())?;
            bld.add_resource("thumb.jpg", Cursor::new(thumb.clone()))?;
            let ij = json!({"title": "ing", "format": "image/jpeg", "relationship": "componentOf", "instance_id": "xmp.iid:c29",
                "thumbnail": {"format": "image/jpeg", "identifier": "ing.jpg"}, "data": {"format": "text/plain", "identifier": "prompt.txt"}});
            let mut ing = Ingredient::from_json(&ij.to_string())?;
            ing.resources_mut().add("ing.jpg", b"ING-THUMB-c29".to_vec())?;
            ing.resources_mut().add("prompt.txt", b"PROMPT-c29".to_vec())?;
            bld.add_ingredient(ing);
            let mut src = Cursor::new(sh.jpeg.clone());
            let mut dst = Cursor::new(Vec::new());
            bld.sign(signer.as_ref(), "image/jpeg", &mut src, &mut dst)?;
            Ok(dst.into_inner())
        });
        match r {
            Ok(Ok(v)) => {
                // normalise the v1 label to the fixed one as well (same length not required: v1 label is longer)
                sh.stores.push((name.to_string(), "image/jpeg".to_string(), v));
            }
            Ok(Err(e)) => notes.push(format!("store {name}: sign failed: {e}")),
            Err(p) => notes.push(format!("store {name}: panic {p}")),
        }
    }
    notes
}

struct CaseOut {
    scen: Scenario,
    op: OpCase,
    res: OpResult,
}

fn run_scenario(tmp: &Path, idx: usize, scen: &Scenario, ops: &[OpCase], sh: &Shared) -> Vec<CaseOut> {
    let sandbox = tmp.join(format!("s{idx:06}"));
    let mut built = build(&sandbox, scen);
    let mut snap = fssnap::snapshot(&sandbox);
    let mut out = Vec::new();
    for oc in ops {
        let (res, after) = run_op(&built, scen, oc, sh, &snap);
        if res.dirty {
            built = build(&sandbox, scen);
            snap = fssnap::snapshot(&sandbox);
        } else {
            snap = after;
        }
        out.push(CaseOut { scen: scen.clone(), op: oc.clone(), res });
    }
    fssnap::rm_rf(&sandbox);
    out
}

fn main() {
    let mut run = Run::from_args("C29", "exploration");
    report::quiet_panics();
    run.rule = "case = (random tree of dirs/files/symlinks incl. inside->outside, chained, dangling, loop, link to /, root itself a link; base/resource_root configuration) x (operation) x (identifier from the traversal grammar: targeted routes to inside/outside existing/new locations + random component strings, decorated with ./ // trailing slash, backslashes, %-encoding, unicode look-alikes, very long, NUL, absolute). Non-trivial = the SDK call ran against the tree; distinct = (op, identifier flags, real-location class computed by the harness, base configuration, outcome).".into();
    run.assumptions = vec![
        "real location = the harness's own POSIX path walk (symlinks resolved component by component, `..` after link resolution, lexical continuation past the first missing component)".into(),
        "identifiers whose location is undefined for the OS (loop, name too long, NUL, non-directory used as directory) are only judged by the snapshot/sentinel oracles".into(),
        "changes inside the confinement root are never judged; over-blocking (refusing an inside file) is not a violation of this property".into(),
        "to_folder: the manifest root is the export target; archive import: nothing on disk may change at all outside root and nothing in the process cwd".into(),
        "path_for_id returning Some for a not-yet-existing location outside the root is judged (effect path-new): the caller is handed a path that lives outside and Some/None then discloses whether the outside file exists".into(),
    ];
    let tmp_parent = vmon::evidence::verif_root().join(".build/tmp");
    let tmp = tmp_parent.join(format!("c29-{}", std::process::id()));
    fssnap::rm_rf(&tmp);
    std::fs::create_dir_all(tmp.join("cwd/inner")).expect("tmp dir");
    std::env::set_current_dir(tmp.join("cwd/inner")).expect("chdir");

    let jpeg = assets::tiny_assets().into_iter().find(|a| a.name == "tiny.jpg").expect("tiny.jpg").bytes;
    let mut sh = Shared { jpeg, settings: json!({"builder": {"thumbnail": {"enabled": false}}, "verify": {"verify_after_sign": false}}).to_string(), stores: Vec::new() };
    for n in prepare_stores(&mut sh) {
        run.inconclusive(format!("to_folder store preparation: {n}"));
    }
    if sh.stores.is_empty() {
        run.inconclusive("no signed store available for the to_folder cases");
        sh.stores.push(("none".into(), "image/jpeg".into(), sh.jpeg.clone()));
    }

    if let Some(p) = run.replay.clone() {
        let v: Value = serde_json::from_slice(&std::fs::read(&p).expect("replay file")).expect("json");
        let w = &v["witness"];
        let scen = scenario_from_json(&w["scenario"]);
        let oc = OpCase { op: w["op"]["op"].as_str().unwrap_or("").to_string(), args: w["op"]["args"].as_array().map(|a| a.iter().map(|x| x.as_str().unwrap_or("").to_string()).collect()).unwrap_or_default() };
        let outs = run_scenario(&tmp, 0, &scen, &[oc], &sh);
        for o in &outs {
            println!("replay: class={} violations={:?}", o.res.class, o.res.violations);
        }
        let bad = outs.iter().any(|o| !o.res.violations.is_empty());
        let _ = std::env::set_current_dir("/");
        fssnap::rm_rf(&tmp);
        std::process::exit(if bad { 1 } else { 0 });
    }

    // workload: directed cases + random scenarios
    let mut jobs: Vec<(Scenario, Vec<OpCase>)> = Vec::new();
    for (s, o) in directed(&sh) {
        jobs.push((s, vec![o]));
    }
    let n_directed = jobs.len();
    let n_scen = run.tier.pick(600usize, 12_000usize);
    let ops_per = 40usize;
    let mut rng = Rng::new(run.seed, "c29");
    for _ in 0..n_scen {
        let mut r = rng.fork(1);
        let scen = gen_scenario(&mut r, false);
        let ops: Vec<OpCase> = (0..ops_per).map(|_| gen_op(&mut r, &scen, &sh)).collect();
        jobs.push((scen, ops));
    }
    let results = par::par_map(jobs.len(), |i| run_scenario(&tmp, i, &jobs[i].0, &jobs[i].1, &sh));

    let mut unjudged: BTreeMap<String, u64> = BTreeMap::new();
    let mut tree_flags: BTreeMap<String, u64> = BTreeMap::new();
    for (s, _) in &jobs {
        for f in &s.flags {
            *tree_flags.entry(f.clone()).or_insert(0) += 1;
        }
    }
    for outs in &results {
        for o in outs {
            run.eval();
            run.count(&format!("op:{}", o.op.op), 1);
            run.count(&format!("outcome:{}:{}", o.op.op, o.res.outcome.split(':').next().unwrap_or("")), 1);
            if o.op.op == "to_folder" || o.op.op == "archive" {
                run.count(&format!("detail:{}:{}:{}", o.op.op, o.op.args.get(if o.op.op == "archive" { 1 } else { 3 }).cloned().unwrap_or_default(), o.res.outcome), 1);
            }
            for (k, n) in &o.res.counters {
                run.count(k, *n);
            }
            let case = json!({"scenario": scenario_json(&o.scen), "op": op_json(&o.op)});
            if let Some(u) = &o.res.unjudged {
                *unjudged.entry(u.clone()).or_insert(0) += 1;
                run.sample("unjudged", 2, json!({"why": u, "op": op_json(&o.op), "base": o.scen.base_rel}));
            }
            if o.res.nontrivial {
                run.nontrivial(o.res.class.clone());
                run.sample(&format!("{}:{}", o.op.op, o.res.outcome.split(':').next().unwrap_or("")), 1, json!({"op": op_json(&o.op), "base": o.scen.base_rel, "resource_root": o.scen.root_rel, "tree_flags": o.scen.flags, "class": o.res.class}));
            }
            for (sig, what) in &o.res.violations {
                run.violation(sig, what, case.clone());
            }
        }
    }
    // global oracle: nothing may have appeared in the process cwd or next to the sandboxes
    let _ = std::env::set_current_dir("/");
    let mut stray: Vec<String> = Vec::new();
    if let Ok(rd) = std::fs::read_dir(tmp.join("cwd/inner")) {
        for e in rd.flatten() {
            stray.push(format!("cwd/inner/{}", e.file_name().to_string_lossy()));
        }
    }
    if let Ok(rd) = std::fs::read_dir(tmp.join("cwd")) {
        for e in rd.flatten() {
            if e.file_name() != "inner" {
                stray.push(format!("cwd/{}", e.file_name().to_string_lossy()));
            }
        }
    }
    if let Ok(rd) = std::fs::read_dir(&tmp) {
        for e in rd.flatten() {
            let n = e.file_name().to_string_lossy().to_string();
            if n != "cwd" {
                stray.push(n);
            }
        }
    }
    run.count("stray_entries_in_cwd_or_tmp", stray.len() as u64);
    if !stray.is_empty() {
        run.violation("any|cwd-relative|write", &format!("entries appeared in the process cwd / next to the sandboxes: {stray:?}"), json!({"stray": stray}));
    }
    fssnap::rm_rf(&tmp);
    let _ = std::fs::remove_dir(&tmp_parent);
    run.set("directed_cases", json!(n_directed));
    run.set("random_scenarios", json!(n_scen));
    run.set("ops_per_scenario", json!(ops_per));
    run.set("unjudged", json!(unjudged));
    run.set("tree_flags", json!(tree_flags));
    run.set("to_folder_stores", json!(sh.stores.iter().map(|s| json!({"name": s.0, "bytes": s.2.len()})).collect::<Vec<_>>()));
    run.engine("release", true, json!({"threads": par::workers()}));
    run.engine("strace", false, json!({"note": "not wired; the snapshot + sentinel oracles are the primary engine"}));
    run.finish(60);
}
