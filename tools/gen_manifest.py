#!/usr/bin/env python3
"""Generates /verif/MANIFEST.json from the table in tools/checks.json (one entry per claimed property)."""
import json, os, subprocess
ROOT = os.path.dirname(os.path.dirname(os.path.abspath(__file__)))
props = [json.loads(l) for l in open(os.path.join(ROOT, "properties.jsonl"))]
table = json.load(open(os.path.join(ROOT, "tools", "checks.json")))
claimed = {c["id"]: c for c in table["checks"]}
na_reasons = table.get("not_applicable", {})
checks, na = [], []
for p in props:
    pid = p["id"]
    if pid in claimed:
        c = claimed[pid]
        entry = {
            "property_id": pid,
            "quick_cmd": f"./check {pid} --tier quick",
            "thorough_cmd": f"./check {pid} --tier thorough",
            "evidence_file": f"/verif/evidence/{pid}.json",
            "replay_cmd_template": f"./check {pid} --replay {{path}}",
            "engine": c.get("engine", "release"),
            "level_claimed": {"category": c["level"], "text": c["text"], "design_ref": f"DESIGN.md §2 {pid}"},
            "level_note": c["note"],
            "technique": c["technique"],
        }
        checks.append(entry)
    else:
        na.append({"property_id": pid, "reason": na_reasons.get(pid, "no check registered yet: monitor not built/validated in this tree (runtime monitoring applies in principle, see DESIGN.md §2)")})
hooks = table["hooks"]
m = {
    "version": 1,
    "setup_cmd": "./setup.sh",
    "hooks": hooks,
    "engines": table.get("engines", []),
    "checks": checks,
    "notes": table.get("notes", ""),
    "not_applicable": na,
}
json.dump(m, open(os.path.join(ROOT, "MANIFEST.json"), "w"), indent=1)
print(f"{len(checks)} checks, {len(na)} not_applicable")
