//! C06 — certificate profile violations make the manifest invalid; conforming certificates are
//! never flagged.
//!
//! Ground truth is by construction: every generated end-entity certificate is the conforming
//! template (v3, not a CA, issued by a separate CA, sha256+/Ed25519 signature, P-256/P-384/P-521/
//! RSA>=2048/Ed25519 key, no unique IDs, KU=digitalSignature, EKU=emailProtection, AKI present,
//! valid now) with exactly one named deviation (a "rule") — or a named harmless variation (a
//! "control").  The certificate is embedded in a real manifest through the direct-COSE signer (the
//! normal path refuses such certificates at signing time; that refusal is recorded, not judged) and
//! the asset is read back through the public Reader in two trust configurations.
//!
//! Oracle (from the statement): rule  => state not in {Valid, Trusted} and at least one failure code
//! `signingCredential.*`; control => no `signingCredential.*` failure code.  The oracle never looks
//! at which check inside the SDK fired.
use c2pa::Context;
use serde_json::json;
use std::sync::Arc;
use vmon::cose_direct::{sign_asset, DirectCoseSigner};
use vmon::pki::{self, ku, oids, Cert, CertSpec, Ext, Key, KeyKind, Md, Name, SigAlg, DAY};
use vmon::{assets, par, report, Run};

#[derive(Clone, Debug, PartialEq)]
enum Truth {
    /// violates exactly this rule of the statement
    Violates(&'static str),
    /// conforming
    Control,
    /// generated and reported, not judged (statement does not decide it); the string says why
    Unjudged(&'static str),
}

#[derive(Clone)]
struct Case {
    /// cause-class name of the deviation, e.g. "ku-no-digital-signature:nonRepudiation-only"
    name: String,
    truth: Truth,
    ee_key: KeyKind,
    ca_key: KeyKind,
    /// edits the conforming EE spec
    edit: Arc<dyn Fn(&mut CertSpec) + Send + Sync>,
    self_signed: bool,
    /// chain sent in x5chain after the EE (true = include the CA)
    send_ca: bool,
    /// the deviation needs this CA key type (do not rotate)
    fix_ca: bool,
}

fn case(name: &str, truth: Truth, f: impl Fn(&mut CertSpec) + Send + Sync + 'static) -> Case {
    Case {
        name: name.to_string(),
        truth,
        ee_key: KeyKind::Ed25519,
        ca_key: KeyKind::P256,
        edit: Arc::new(f),
        self_signed: false,
        send_ca: true,
        fix_ca: false,
    }
}

impl Case {
    fn with_ca(mut self, k: KeyKind) -> Case {
        self.ca_key = k;
        self.fix_ca = true;
        self
    }
    /// cause class used in signatures: the name without a parenthesised variant suffix
    fn cause(name: &str) -> String {
        name.split('(').next().unwrap_or(name).to_string()
    }
}

const UNKNOWN_OID: &str = "1.3.6.1.4.1.57264.99.1";

fn rules() -> Vec<Case> {
    use Truth::*;
    let mut v = Vec::new();
    // --- version ---------------------------------------------------------------------------
    v.push(case("version:v1-field-absent-no-extensions", Violates("not-v3"), |s| {
        s.version = None;
        s.extensions = None;
    }));
    v.push(case("version:v1-explicit-0-no-extensions", Violates("not-v3"), |s| {
        s.version = Some(0);
        s.extensions = None;
    }));
    v.push(case("version:v1-field-absent-with-extensions", Violates("not-v3"), |s| {
        s.version = None;
    }));
    v.push(case("version:v2-with-extensions", Violates("not-v3"), |s| {
        s.version = Some(1);
    }));
    // --- CA certificate used as signer -------------------------------------------------------
    v.push(case("ca:basicConstraints-CA-TRUE", Violates("ca-certificate"), |s| {
        s.set_ext(Ext::BasicConstraints { critical: true, ca: true, path_len: None });
    }));
    v.push(case("ca:CA-TRUE-with-keyCertSign", Violates("ca-certificate"), |s| {
        s.set_ext(Ext::BasicConstraints { critical: true, ca: true, path_len: Some(0) });
        s.set_ext(Ext::key_usage(&[ku::DIGITAL_SIGNATURE, ku::KEY_CERT_SIGN]));
    }));
    // --- self-signed ---------------------------------------------------------------------------
    let mut c = case("self-signed:ca-true", Violates("self-signed"), |s| {
        s.set_ext(Ext::BasicConstraints { critical: true, ca: true, path_len: None });
        s.set_ext(Ext::key_usage(&[ku::DIGITAL_SIGNATURE, ku::KEY_CERT_SIGN]));
    });
    c.self_signed = true;
    v.push(c);
    let mut c = case("self-signed:non-ca", Violates("self-signed"), |_s| {});
    c.self_signed = true;
    v.push(c);
    let mut c = case("self-signed:non-ca(no-basicConstraints)", Violates("self-signed"), |s| {
        s.without_bc();
    });
    c.self_signed = true;
    v.push(c);
    // --- signature algorithm of the certificate ---------------------------------------------
    let mut c = case("sigalg:md5WithRSA", Violates("signature-algorithm"), |s| {
        s.sig_alg = SigAlg::RsaPkcs1(Md::Md5);
    });
    v.push(c.with_ca(KeyKind::Rsa2048));
    let mut c = case("sigalg:sha1WithRSA", Violates("signature-algorithm"), |s| {
        s.sig_alg = SigAlg::RsaPkcs1(Md::Sha1);
    });
    v.push(c.with_ca(KeyKind::Rsa2048));
    v.push(case("sigalg:ecdsa-with-SHA1", Violates("signature-algorithm"), |s| {
        s.sig_alg = SigAlg::Ecdsa(Md::Sha1);
    }));
    let mut c = case("sigalg:rsapss-sha1", Violates("signature-algorithm"), |s| {
        s.sig_alg = SigAlg::RsaPss(Md::Sha1);
    });
    v.push(c.with_ca(KeyKind::Rsa2048));
    // --- key: curve / RSA size ---------------------------------------------------------------
    let mut c = case("curve:secp256k1", Violates("curve"), |_s| {});
    c.ee_key = KeyKind::Secp256k1;
    v.push(c);
    let mut c = case("curve:brainpoolP256r1", Violates("curve"), |_s| {});
    c.ee_key = KeyKind::BrainpoolP256r1;
    v.push(c);
    let mut c = case("rsa:1024-bit", Violates("rsa-key-size"), |_s| {});
    c.ee_key = KeyKind::Rsa1024;
    v.push(c);
    let mut c = case("rsa:2047-bit", Violates("rsa-key-size"), |_s| {});
    c.ee_key = KeyKind::Rsa2047;
    v.push(c);
    // --- unique IDs ----------------------------------------------------------------------------
    v.push(case("uid:issuerUniqueID", Violates("unique-id"), |s| {
        s.issuer_uid = Some(vec![0xA5, 0x5A, 0x01]);
    }));
    v.push(case("uid:subjectUniqueID", Violates("unique-id"), |s| {
        s.subject_uid = Some(vec![0x11, 0x22]);
    }));
    // --- key usage -----------------------------------------------------------------------------
    v.push(case("ku:absent", Violates("key-usage"), |s| {
        s.without_ku();
    }));
    v.push(case("ku:keyEncipherment-only", Violates("key-usage"), |s| {
        s.set_ext(Ext::key_usage(&[ku::KEY_ENCIPHERMENT]));
    }));
    v.push(case("ku:nonRepudiation-only", Violates("key-usage"), |s| {
        s.set_ext(Ext::key_usage(&[ku::NON_REPUDIATION]));
    }));
    v.push(case("ku:keyCertSign-only-non-ca", Violates("key-usage"), |s| {
        s.set_ext(Ext::key_usage(&[ku::KEY_CERT_SIGN]));
    }));
    v.push(case("ku:cRLSign-only", Violates("key-usage"), |s| {
        s.set_ext(Ext::key_usage(&[ku::CRL_SIGN]));
    }));
    v.push(case("ku:digitalSignature+keyCertSign-non-ca", Violates("key-usage"), |s| {
        s.set_ext(Ext::key_usage(&[ku::DIGITAL_SIGNATURE, ku::KEY_CERT_SIGN]));
    }));
    // --- extended key usage --------------------------------------------------------------------
    v.push(case("eku:absent", Violates("eku"), |s| {
        s.without_eku();
    }));
    v.push(case("eku:anyExtendedKeyUsage-only", Violates("eku"), |s| {
        s.set_ext(Ext::eku(&[oids::EKU_ANY]));
    }));
    v.push(case("eku:anyExtendedKeyUsage+emailProtection", Violates("eku"), |s| {
        s.set_ext(Ext::eku(&[oids::EKU_EMAIL_PROTECTION, oids::EKU_ANY]));
    }));
    v.push(case("eku:serverAuth-only", Violates("eku"), |s| {
        s.set_ext(Ext::eku(&[oids::EKU_SERVER_AUTH]));
    }));
    v.push(case("eku:unlisted-custom-oid-only", Violates("eku"), |s| {
        s.set_ext(Ext::eku(&["1.3.6.1.4.1.57264.99.7"]));
    }));
    v.push(case("eku:OCSPSigning+timeStamping", Violates("eku"), |s| {
        s.set_ext(Ext::eku(&[oids::EKU_OCSP_SIGNING, oids::EKU_TIME_STAMPING]));
    }));
    v.push(case("eku:timeStamping+emailProtection", Violates("eku"), |s| {
        s.set_ext(Ext::eku(&[oids::EKU_TIME_STAMPING, oids::EKU_EMAIL_PROTECTION]));
    }));
    v.push(case("eku:OCSPSigning+emailProtection", Violates("eku"), |s| {
        s.set_ext(Ext::eku(&[oids::EKU_EMAIL_PROTECTION, oids::EKU_OCSP_SIGNING]));
    }));
    v.push(case("eku:timeStamping+documentSigning", Violates("eku"), |s| {
        s.set_ext(Ext::eku(&[oids::EKU_TIME_STAMPING, oids::EKU_DOCUMENT_SIGNING]));
    }));
    v.push(case("eku:timeStamping+serverAuth", Violates("eku"), |s| {
        s.set_ext(Ext::eku(&[oids::EKU_SERVER_AUTH, oids::EKU_TIME_STAMPING]));
    }));
    v.push(case(
        "eku:timeStamping-only",
        Unjudged("a TSA-only certificate signing a manifest: the statement's 'disallowed EKU' does not say whether purpose matters"),
        |s| {
            s.set_ext(Ext::Eku { critical: true, oids: vec![oids::EKU_TIME_STAMPING.into()] });
        },
    ));
    v.push(case("eku:OCSPSigning-only", Unjudged("an OCSP-only certificate signing a manifest: as above"), |s| {
        s.set_ext(Ext::eku(&[oids::EKU_OCSP_SIGNING]));
    }));
    // --- critical extensions ---------------------------------------------------------------------
    v.push(case("critical-ext:unknown-oid", Violates("unhandled-critical-extension"), |s| {
        s.push_ext(Ext::Raw { oid: UNKNOWN_OID.into(), critical: true, value: pki::der::utf8("x") });
    }));
    v.push(case("critical-ext:unknown-oid-first", Violates("unhandled-critical-extension"), |s| {
        let mut e = vec![Ext::Raw { oid: UNKNOWN_OID.into(), critical: true, value: pki::der::null() }];
        e.extend(s.extensions.take().unwrap_or_default());
        s.extensions = Some(e);
    }));
    // --- AKI -----------------------------------------------------------------------------------
    v.push(case("aki:absent", Violates("missing-aki"), |s| {
        s.without_aki();
    }));
    // --- validity at signing time (no time-stamp: signing time = now) -----------------------------
    v.push(case("validity:not-yet-valid", Violates("not-valid-at-signing-time"), |s| {
        s.not_before = pki::now_unix() + 2 * DAY;
        s.not_after = pki::now_unix() + 300 * DAY;
    }));
    v.push(case("validity:expired", Violates("not-valid-at-signing-time"), |s| {
        s.not_before = pki::now_unix() - 300 * DAY;
        s.not_after = pki::now_unix() - 2 * DAY;
    }));
    v.push(case("validity:expired-long-ago-generalizedtime-future-style", Violates("not-valid-at-signing-time"), |s| {
        s.not_before = 946_684_800; // 2000-01-01
        s.not_after = 978_307_200; // 2001-01-01
    }));
    v
}

fn controls() -> Vec<Case> {
    use Truth::Control;
    let mut v = Vec::new();
    v.push(case("ctl:template", Control, |_s| {}));
    v.push(case("ctl:eku-documentSigning", Control, |s| {
        s.set_ext(Ext::eku(&[oids::EKU_DOCUMENT_SIGNING]));
    }));
    v.push(case("ctl:eku-emailProtection+documentSigning", Control, |s| {
        s.set_ext(Ext::eku(&[oids::EKU_EMAIL_PROTECTION, oids::EKU_DOCUMENT_SIGNING]));
    }));
    v.push(case("ctl:eku-emailProtection+clientAuth", Control, |s| {
        s.set_ext(Ext::eku(&[oids::EKU_CLIENT_AUTH, oids::EKU_EMAIL_PROTECTION]));
    }));
    v.push(case("ctl:no-basicConstraints", Control, |s| {
        s.without_bc();
    }));
    v.push(case("ctl:basicConstraints-not-critical", Control, |s| {
        s.set_ext(Ext::BasicConstraints { critical: false, ca: false, path_len: None });
    }));
    v.push(case("ctl:ku-digitalSignature+nonRepudiation", Control, |s| {
        s.set_ext(Ext::key_usage(&[ku::DIGITAL_SIGNATURE, ku::NON_REPUDIATION]));
    }));
    v.push(case("ctl:ku-not-critical", Control, |s| {
        s.set_ext(Ext::KeyUsage { critical: false, bits: vec![ku::DIGITAL_SIGNATURE] });
    }));
    v.push(case("ctl:no-ski", Control, |s| {
        s.remove_ext(|e| matches!(e, Ext::Ski(_)));
    }));
    v.push(case("ctl:unknown-noncritical-extension", Control, |s| {
        s.push_ext(Ext::Raw { oid: UNKNOWN_OID.into(), critical: false, value: pki::der::utf8("x") });
    }));
    v.push(case("ctl:eku-critical", Control, |s| {
        s.set_ext(Ext::Eku { critical: true, oids: vec![oids::EKU_EMAIL_PROTECTION.into()] });
    }));
    v.push(case("ctl:long-serial-20-bytes", Control, |s| {
        s.serial = vec![0x7f; 20];
    }));
    v.push(case("ctl:validity-generalizedtime-2050+", Control, |s| {
        s.not_after = 2_556_144_000; // 2051-01-01
    }));
    // certificate signature algorithms the profile allows
    for (nm, ca, alg) in [
        ("ctl:sigalg-sha384WithRSA", KeyKind::Rsa2048, SigAlg::RsaPkcs1(Md::Sha384)),
        ("ctl:sigalg-sha512WithRSA", KeyKind::Rsa2048, SigAlg::RsaPkcs1(Md::Sha512)),
        ("ctl:sigalg-rsapss-sha256", KeyKind::Rsa2048, SigAlg::RsaPss(Md::Sha256)),
        ("ctl:sigalg-rsapss-sha384", KeyKind::Rsa2048, SigAlg::RsaPss(Md::Sha384)),
        ("ctl:sigalg-rsapss-sha512", KeyKind::Rsa2048, SigAlg::RsaPss(Md::Sha512)),
        ("ctl:sigalg-ecdsa-sha384-p384", KeyKind::P384, SigAlg::Ecdsa(Md::Sha384)),
        ("ctl:sigalg-ecdsa-sha512-p521", KeyKind::P521, SigAlg::Ecdsa(Md::Sha512)),
        ("ctl:sigalg-ecdsa-sha512-p256", KeyKind::P256, SigAlg::Ecdsa(Md::Sha512)),
        ("ctl:sigalg-ed25519", KeyKind::Ed25519, SigAlg::Ed25519),
    ] {
        let a = alg.clone();
        let mut c = case(nm, Control, move |s| {
            s.sig_alg = a.clone();
        });
        v.push(c.with_ca(ca));
    }
    v
}

const EE_KEYS: &[KeyKind] = &[KeyKind::Ed25519, KeyKind::P256, KeyKind::P384, KeyKind::Rsa2048];
const EE_KEYS_MORE: &[KeyKind] = &[KeyKind::P521, KeyKind::Rsa3072];

struct Built {
    ee: Cert,
    ca: Option<Cert>,
    root_pem: String,
}

fn build(c: &Case) -> (Built, Arc<Key>) {
    let ee_key = Key::pooled(c.ee_key, 100);
    let mut spec = CertSpec::ee(&format!("c06 {}", c.name));
    (c.edit)(&mut spec);
    if c.self_signed {
        let ee = pki::issue(&spec, &ee_key, None);
        let root_pem = ee.pem();
        return (Built { ee, ca: None, root_pem }, ee_key);
    }
    let ca_key = Key::pooled(c.ca_key, 0);
    let ca = pki::issue(&CertSpec::ca(&format!("c06 CA {}", c.ca_key.name()), None), &ca_key, None);
    let ee = pki::issue(&spec, &ee_key, Some((&ca, &ca_key)));
    let root_pem = ca.pem();
    (Built { ee, ca: Some(ca), root_pem }, ee_key)
}

struct Obs {
    name: String,
    truth: Truth,
    keys: String,
    sign_err: Option<String>,
    /// (mode, state, error, failure codes, all codes)
    reads: Vec<(String, String, Option<String>, Vec<String>, Vec<String>)>,
    normal_path: String,
    ee_pem: String,
    chain_pem: String,
    cli_parses: Option<bool>,
    root_pem: String,
    signed: Vec<u8>,
}

fn normal_path_outcome(b: &Built, ee_key: &Key, asset: &assets::Asset) -> String {
    // the documented signing path: certificate chain + private key → create_signer → Builder::sign
    let mut chain = b.ee.pem();
    if let Some(ca) = &b.ca {
        chain.push_str(&ca.pem());
    }
    let alg = vmon::cose_direct::CoseAlg::for_key(ee_key.kind).signing_alg();
    let signer = match c2pa::create_signer::from_keys(chain.as_bytes(), &ee_key.private_pem(), alg, None) {
        Ok(s) => s,
        Err(e) => return format!("create_signer:{}", report::err_kind(&e)),
    };
    let r = report::catch_sdk(|| {
        let settings = json!({"verify": {"verify_trust": false}, "builder": {"thumbnail": {"enabled": false}}});
        let ctx = Context::new().with_settings(settings.to_string().as_str()).unwrap();
        let mut bld = c2pa::Builder::from_context(ctx)
            .with_definition(json!({"title": "verif", "assertions": [{"label": "org.verif.test", "data": {"k": 1}}]}))
            .unwrap();
        bld.set_intent(c2pa::BuilderIntent::Edit);
        let mut src = std::io::Cursor::new(asset.bytes.clone());
        let mut dst = std::io::Cursor::new(Vec::new());
        bld.sign(signer.as_ref(), asset.format, &mut src, &mut dst).map(|_| ())
    });
    match r {
        Ok(Ok(())) => "signed".into(),
        Ok(Err(e)) => format!("refused:{}", report::err_kind(&e)),
        Err(p) => format!("panic:{p}"),
    }
}

fn run_case(c: &Case, asset: &assets::Asset, with_normal_path: bool) -> Obs {
    let (b, ee_key) = build(c);
    let mut chain = vec![b.ee.der.clone()];
    if c.send_ca {
        if let Some(ca) = &b.ca {
            chain.push(ca.der.clone());
        }
    }
    let chain_pem = pki::pem_bundle(&chain);
    let signer = DirectCoseSigner::new(ee_key.clone(), chain);
    let mut obs = Obs {
        name: c.name.clone(),
        truth: c.truth.clone(),
        keys: format!("ee={},ca={}", c.ee_key.name(), if c.self_signed { "self" } else { c.ca_key.name() }),
        sign_err: None,
        reads: Vec::new(),
        normal_path: String::new(),
        ee_pem: b.ee.pem(),
        chain_pem,
        cli_parses: None,
        root_pem: b.root_pem.clone(),
        signed: Vec::new(),
    };
    let signed = match report::catch_sdk(|| sign_asset(&signer, asset.format, &asset.bytes)) {
        Ok(Ok(s)) => s,
        Ok(Err(e)) => {
            obs.sign_err = Some(e);
            return obs;
        }
        Err(p) => {
            obs.sign_err = Some(format!("panic:{p}"));
            return obs;
        }
    };
    for (mode, settings) in [
        ("profile-only", json!({"verify": {"verify_trust": false}})),
        ("with-trust", json!({"verify": {"verify_trust": true}, "trust": {"trust_anchors": b.root_pem}})),
    ] {
        let ctx = Context::new().with_settings(settings.to_string().as_str()).expect("settings");
        let o = report::read_bytes_catch(ctx, asset.format, &signed);
        let all: Vec<String> = o.codes.iter().filter(|c| c.0 == "active").map(|c| format!("{}:{}", c.1, c.2)).collect();
        obs.reads.push((mode.to_string(), o.state.clone(), o.error.clone(), o.failure_codes(), all));
    }
    if with_normal_path {
        obs.normal_path = normal_path_outcome(&b, &ee_key, asset);
    }
    obs.signed = signed;
    obs
}

fn main() {
    let mut run = Run::from_args("C06", "exploration");
    report::quiet_panics();
    run.rule = "one case = (named single deviation from the conforming end-entity template | named harmless variation) x EE key type x CA key type; \
                embedded via the direct-COSE signer into a tiny PNG and read back with verify_trust off and on (CA as trust anchor). \
                A case is non-trivial when the asset was signed and the Reader produced a validation state; classes = deviation x key types x mode x outcome"
        .into();
    run.assumptions = vec![
        "ground truth is the generator's label: the template is conforming and each rule case changes exactly one thing (v1 without extensions necessarily also lacks KU/EKU/AKI)".into(),
        "signing time = now: no time-stamp is embedded (with-TSA variants are not generated yet)".into(),
        "a control is judged only on 'no signingCredential.* failure'; a control that fails for another reason is reported as inconclusive (harness problem), not as a C06 violation".into(),
        "KU cases follow C2PA 2.x §14.5.1: digitalSignature must be asserted, keyCertSign only with CA:TRUE".into(),
    ];
    match pki::openssl_cli_version() {
        Ok(v) => run.set("openssl_cli", json!(v)),
        Err(e) => run.inconclusive(format!("openssl cli unavailable for the parse sanity check: {e}")),
    }

    if let Some(p) = run.replay.clone() {
        std::process::exit(replay(&p));
    }
    let asset = assets::tiny_assets().into_iter().find(|a| a.format == "png").expect("tiny png");

    // ---- case list ---------------------------------------------------------------------------
    let mut cases: Vec<Case> = Vec::new();
    let ca_rot = [KeyKind::P256, KeyKind::Rsa2048, KeyKind::P384, KeyKind::Ed25519];
    let thorough = !run.quick();
    for (i, base) in rules().into_iter().chain(controls()).enumerate() {
        let fixed_ee = base.ee_key != KeyKind::Ed25519;
        let fixed_ca = base.fix_ca;
        let mut ee_kinds: Vec<KeyKind> = if fixed_ee { vec![base.ee_key] } else { EE_KEYS.to_vec() };
        if thorough && !fixed_ee {
            ee_kinds.extend_from_slice(EE_KEYS_MORE);
        }
        for (j, ek) in ee_kinds.iter().enumerate() {
            let ca_kinds: Vec<KeyKind> = if fixed_ca {
                vec![base.ca_key]
            } else if thorough {
                ca_rot.to_vec()
            } else {
                vec![ca_rot[(i + j) % ca_rot.len()]]
            };
            for ck in ca_kinds {
                let mut c = base.clone();
                c.ee_key = *ek;
                c.ca_key = ck;
                cases.push(c);
            }
        }
    }
    // a control per (EE key, CA key) pair, all pairs, in both tiers
    for ek in EE_KEYS.iter().chain(EE_KEYS_MORE) {
        for ck in [KeyKind::P256, KeyKind::P384, KeyKind::P521, KeyKind::Rsa2048, KeyKind::Rsa3072, KeyKind::Ed25519] {
            let mut c = case("ctl:template", Truth::Control, |_s| {});
            c.ee_key = *ek;
            c.ca_key = ck;
            cases.push(c);
        }
    }
    // EE without the CA in x5chain (profile checks concern the EE only)
    for mut c in [rules().remove(4), controls().remove(0)] {
        c.send_ca = false;
        c.name = format!("{}(ca-not-in-x5chain)", c.name);
        cases.push(c);
    }
    run.set("cases", json!(cases.len()));

    // pre-generate the pooled keys once (RSA generation is slow) so that workers do not race on them
    {
        let mut kinds: Vec<(KeyKind, usize)> = Vec::new();
        for c in &cases {
            kinds.push((c.ee_key, 100));
            kinds.push((c.ca_key, 0));
        }
        kinds.sort();
        kinds.dedup();
        par::par_map(kinds.len(), |i| {
            Key::pooled(kinds[i].0, kinds[i].1);
        });
    }

    let debug = std::env::var("C06_DEBUG").is_ok();
    let results = par::par_map(cases.len(), |i| {
        let mut o = run_case(&cases[i], &asset, true);
        // sanity: the independent tool parses what we generated (sampled: it forks a process)
        if i % 7 == 0 {
            o.cli_parses = pki::openssl_x509_text(&pki_der_of(&o.ee_pem)).ok().map(|_| true).or(Some(false));
        }
        o
    });

    for o in results {
        run.eval();
        if let Some(p) = o.cli_parses {
            run.count(if p { "openssl_cli_parsed_ee" } else { "openssl_cli_rejected_ee" }, 1);
        }
        let kind = match &o.truth {
            Truth::Violates(r) => format!("rule:{r}"),
            Truth::Control => "control".to_string(),
            Truth::Unjudged(_) => "unjudged".to_string(),
        };
        if debug {
            println!("{:60} {:24} {:?} normal={} signerr={:?}", o.name, o.keys, o.reads.iter().map(|r| (r.1.clone(), r.3.clone())).collect::<Vec<_>>(), o.normal_path, o.sign_err);
        }
        if let Some(e) = &o.sign_err {
            // could not even embed: nothing observed about validation
            run.count("embed_failed", 1);
            if e.starts_with("panic:") {
                run.violation(&format!("panic-embedding|{}", o.name), "SDK panicked while embedding a direct-COSE signature", json!({"case": o.name, "keys": o.keys, "error": e, "ee": o.ee_pem}));
            } else {
                run.inconclusive(format!("case {} [{}]: could not embed: {}", o.name, o.keys, e));
            }
            continue;
        }
        run.count(&format!("normal_path:{}", o.normal_path.split(':').next().unwrap_or("")), 1);
        match (&o.truth, o.normal_path.as_str()) {
            (Truth::Violates(_), "signed") => run.count("normal_path_signed_with_violating_cert", 1),
            (Truth::Control, s) if s != "signed" => run.count("normal_path_refused_control", 1),
            _ => {}
        }
        let is_rule = matches!(o.truth, Truth::Violates(_));
        let cause = Case::cause(&o.name);
        for (mode, state, error, failures, all) in &o.reads {
            // any signingCredential.* failure counts for a violating certificate (the statement asks for
            // "a signingCredential failure code"); for a control only the profile codes count — an
            // `untrusted` verdict is a trust decision (C05), not one of "these checks"
            let cred_fail: Vec<&String> = failures
                .iter()
                .filter(|f| f.starts_with("signingCredential.") && (is_rule || f.as_str() != "signingCredential.untrusted"))
                .collect();
            let accepted = state == "Valid" || state == "Trusted";
            let witness = json!({
                "case": o.name, "truth": format!("{:?}", o.truth), "keys": o.keys, "mode": mode,
                "state": state, "error": error, "failure_codes": failures, "codes": all,
                "normal_signing_path": o.normal_path,
                "x5chain_pem": o.chain_pem,
                "trust_anchor_pem": o.root_pem,
            });
            // violation witnesses also carry the signed asset so that `--replay` can re-read it
            let with_asset = |w: &serde_json::Value| {
                use base64::Engine;
                let mut w = w.clone();
                w["signed_asset_png_b64"] = json!(base64::engine::general_purpose::STANDARD.encode(&o.signed));
                w
            };
            if state == "Panic" {
                run.violation(&format!("panic-reading|{cause}"), "SDK panicked while validating", with_asset(&witness));
                continue;
            }
            if state == "Err" {
                // Reader refused the whole asset: for a violating certificate that is a rejection
                // without a code — the statement asks for a code, but an Err is not 'Valid'; report separately
                run.count("reader_err", 1);
            }
            let outcome = format!("{}{}", state, if cred_fail.is_empty() { "" } else { "+credfail" });
            match &o.truth {
                Truth::Violates(rule) => {
                    run.nontrivial(format!("{kind}|{}|{}|{mode}|{outcome}", o.name, o.keys));
                    run.sample(&format!("rule:{rule}"), 1, witness.clone());
                    if accepted {
                        run.violation(
                            &format!("accepted|{cause}"),
                            &format!("certificate violating '{rule}' ({}) read as {state}", o.name),
                            with_asset(&witness),
                        );
                    } else if cred_fail.is_empty() {
                        run.violation(
                            &format!("no-credential-code|{cause}"),
                            &format!("certificate violating '{rule}' ({}) rejected ({state}) but without any signingCredential.* failure code", o.name),
                            with_asset(&witness),
                        );
                    }
                }
                Truth::Control => {
                    if !cred_fail.is_empty() {
                        run.nontrivial(format!("{kind}|{}|{}|{mode}|{outcome}", o.name, o.keys));
                        run.violation(
                            &format!("control-flagged|{cause}"),
                            &format!("conforming certificate ({}) flagged with {:?}", o.name, cred_fail),
                            with_asset(&witness),
                        );
                    } else if !accepted {
                        run.inconclusive(format!(
                            "control {} [{}] {mode}: state {state} error {error:?} failures {failures:?} (not a credential failure: harness or unrelated problem)",
                            o.name, o.keys
                        ));
                    } else {
                        let want = if mode == "with-trust" { "Trusted" } else { "Valid" };
                        if state != want {
                            run.count("control_state_unexpected", 1);
                        }
                        run.nontrivial(format!("{kind}|{}|{}|{mode}|{outcome}", o.name, o.keys));
                        run.sample("control", 2, witness);
                    }
                }
                Truth::Unjudged(why) => {
                    run.count(&format!("unjudged:{}:{outcome}", o.name), 1);
                    run.sample("unjudged", 2, json!({"why": why, "observed": witness}));
                }
            }
        }
    }
    let min = if run.quick() { 150 } else { 400 };
    run.finish(min);
}

/// Re-reads the signed asset of a witness in the witness's mode and re-applies the oracle.
fn replay(path: &std::path::Path) -> i32 {
    use base64::Engine;
    let v: serde_json::Value = serde_json::from_slice(&std::fs::read(path).expect("replay file")).expect("json");
    let w = &v["witness"];
    let asset = base64::engine::general_purpose::STANDARD
        .decode(w["signed_asset_png_b64"].as_str().expect("witness has no signed asset"))
        .expect("b64");
    let settings = if w["mode"] == "with-trust" {
        json!({"verify": {"verify_trust": true}, "trust": {"trust_anchors": w["trust_anchor_pem"]}})
    } else {
        json!({"verify": {"verify_trust": false}})
    };
    let ctx = Context::new().with_settings(settings.to_string().as_str()).expect("settings");
    let o = report::read_bytes_catch(ctx, "png", &asset);
    let is_rule = w["truth"].as_str().unwrap_or("").starts_with("Violates");
    let fails = o.failure_codes();
    let cred: Vec<&String> = fails
        .iter()
        .filter(|f| f.starts_with("signingCredential.") && (is_rule || f.as_str() != "signingCredential.untrusted"))
        .collect();
    println!("replay: case={} truth={} mode={}", w["case"], w["truth"], w["mode"]);
    println!("replay: observed state={} failures={:?}", o.state, fails);
    let bad = if is_rule { o.accepted() || cred.is_empty() } else { !cred.is_empty() };
    println!("replay: {}", if bad { "oracle fires (reproduced)" } else { "oracle satisfied" });
    if bad {
        1
    } else {
        0
    }
}

fn pki_der_of(pem: &str) -> Vec<u8> {
    use base64::Engine;
    let b64: String = pem.lines().filter(|l| !l.starts_with("-----")).collect();
    base64::engine::general_purpose::STANDARD.decode(b64).unwrap_or_default()
}
