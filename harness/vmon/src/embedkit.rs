//! Shared workload for the embedding-layer monitors (C07 C08 C09 C12): extra tiny assets written by
//! our own encoders (hostile BMFF layouts, HEIF iloc, fragmented MP4, BigTIFF, multi-page TIFF, AVI
//! with AVIX, WebP, JXL container, FLAC, sidecar), asset "states" (clean / already signed / with XMP),
//! store generators and thin wrappers around the SDK entry points.
use crate::assets::{self, Asset, Mp4Layout};
use crate::fmt::bmff::C2PA_UUID;
use crate::{jumbf, report, signers, Rng};
use c2pa::{Builder, Context};
use std::io::Cursor;

// ------------------------------------------------------------------------------------------
// SDK wrappers (every call is panic-contained)

pub type SdkResult<T> = Result<T, String>;

fn kind_of(e: &c2pa::Error) -> String {
    report::err_kind(e)
}

/// `save_jumbf_to_memory` (via_stream=false) or `save_jumbf_to_stream`.
pub fn save(fmt: &str, asset: &[u8], store: &[u8], via_stream: bool) -> SdkResult<Vec<u8>> {
    let r = report::catch_sdk(|| {
        if via_stream {
            let mut inp = Cursor::new(asset.to_vec());
            let mut out = Cursor::new(Vec::new());
            c2pa::jumbf_io::save_jumbf_to_stream(fmt, &mut inp, &mut out, store).map(|_| out.into_inner())
        } else {
            c2pa::jumbf_io::save_jumbf_to_memory(fmt, asset, store)
        }
    });
    match r {
        Ok(Ok(v)) => Ok(v),
        Ok(Err(e)) => Err(kind_of(&e)),
        Err(p) => Err(format!("PANIC {p}")),
    }
}

pub fn load(fmt: &str, asset: &[u8], via_stream: bool) -> SdkResult<Vec<u8>> {
    let r = report::catch_sdk(|| {
        if via_stream {
            let mut inp = Cursor::new(asset.to_vec());
            c2pa::jumbf_io::load_jumbf_from_stream(fmt, &mut inp)
        } else {
            c2pa::jumbf_io::load_jumbf_from_memory(fmt, asset)
        }
    });
    match r {
        Ok(Ok(v)) => Ok(v),
        Ok(Err(e)) => Err(kind_of(&e)),
        Err(p) => Err(format!("PANIC {p}")),
    }
}

pub fn remove(fmt: &str, asset: &[u8]) -> SdkResult<Vec<u8>> {
    let r = report::catch_sdk(|| {
        let mut inp = Cursor::new(asset.to_vec());
        let mut out = Cursor::new(Vec::new());
        c2pa::verif_hooks::remove_jumbf_from_stream(fmt, &mut inp, &mut out).map(|_| out.into_inner())
    });
    match r {
        Ok(Ok(v)) => Ok(v),
        Ok(Err(e)) => Err(kind_of(&e)),
        Err(p) => Err(format!("PANIC {p}")),
    }
}

/// (offset, len, kind) regions from the handler.
pub fn locations(fmt: &str, asset: &[u8]) -> SdkResult<Vec<(usize, usize, String)>> {
    let r = report::catch_sdk(|| {
        let mut inp = Cursor::new(asset.to_vec());
        c2pa::verif_hooks::object_locations(fmt, &mut inp)
    });
    match r {
        Ok(Ok(v)) => Ok(v),
        Ok(Err(e)) => Err(kind_of(&e)),
        Err(p) => Err(format!("PANIC {p}")),
    }
}

#[allow(clippy::type_complexity)]
pub fn box_map(fmt: &str, asset: &[u8]) -> SdkResult<Option<Vec<(Vec<String>, u64, u64, bool)>>> {
    let r = report::catch_sdk(|| {
        let mut inp = Cursor::new(asset.to_vec());
        c2pa::verif_hooks::box_map(fmt, &mut inp)
    });
    match r {
        Ok(Ok(v)) => Ok(v),
        Ok(Err(e)) => Err(kind_of(&e)),
        Err(p) => Err(format!("PANIC {p}")),
    }
}

pub fn is_panic(e: &str) -> bool {
    e.starts_with("PANIC")
}

// ------------------------------------------------------------------------------------------
// stores

pub const DUMMY_MIN: usize = 50;

/// A store of exactly `len` bytes: a JUMBF superbox labelled c2pa (random filler) when `len` allows,
/// otherwise raw pseudo-random bytes.  `fill`: 0 = random, 1 = all zero, 2 = all 0xFF.
pub fn make_store(len: usize, seed: u64, fill: u8) -> (Vec<u8>, &'static str) {
    let mut rng = Rng::new(seed, "store");
    let mut f = |n: usize| match fill {
        1 => vec![0u8; n],
        2 => vec![0xFFu8; n],
        _ => rng.bytes(n),
    };
    match jumbf::dummy_store(len, &mut f) {
        Some(s) => (s, "jumbf"),
        None => (f(len), "raw"),
    }
}

pub fn raw_store(len: usize, seed: u64) -> Vec<u8> {
    Rng::new(seed, "rawstore").bytes(len)
}

/// Families whose container recognises the manifest by looking *into* the store (JUMBF description
/// box), so that a store that is not a JUMBF superbox cannot round-trip by construction.
pub fn needs_jumbf_store(family: &str) -> bool {
    matches!(family, "jpeg" | "jxl")
}

pub fn size_class(len: usize) -> &'static str {
    match len {
        0..=4 => "1-4",
        5..=49 => "5-49",
        50..=254 => "50-254",
        255..=256 => "255/256",
        257..=65000 => "257-65000",
        65001..=65534 => "65001-65534",
        65535..=65536 => "65535/65536",
        65537..=130000 => "65537-130000",
        _ => ">130000",
    }
}

/// The store lengths of the C07/C08 workload (see DESIGN C07 W).
pub fn boundary_sizes(quick: bool) -> Vec<usize> {
    let mut v: Vec<usize> = (1..=40).collect();
    v.extend([50, 51, 52, 53, 63, 64, 65, 99, 100, 101, 253, 254, 255, 256, 257, 258, 509, 510, 511, 512, 765, 766, 1000, 1001, 1002, 1003]);
    // JPEG APP11: the SDK splits at 64000; the format limit is 65535-2-16 = 65517 payload bytes
    for k in 1..=(if quick { 2 } else { 3 }) {
        for d in [-2i64, -1, 0, 1, 2] {
            v.push((64000 * k + d) as usize);
            v.push((65517 * k + d) as usize);
        }
    }
    v.extend([65533, 65534, 65535, 65536, 65537, 65538, 200_000]);
    if !quick {
        v.extend([131_070, 131_071, 131_072, 199_999, 200_001, 262_144]);
    }
    v.sort();
    v.dedup();
    v
}

// ------------------------------------------------------------------------------------------
// own encoders for additional tiny assets

fn bx(typ: &[u8; 4], payload: &[u8]) -> Vec<u8> {
    let mut v = ((payload.len() + 8) as u32).to_be_bytes().to_vec();
    v.extend_from_slice(typ);
    v.extend_from_slice(payload);
    v
}
fn fbx(typ: &[u8; 4], version: u8, flags: u32, payload: &[u8]) -> Vec<u8> {
    let mut p = vec![version, (flags >> 16) as u8, (flags >> 8) as u8, flags as u8];
    p.extend_from_slice(payload);
    bx(typ, &p)
}

/// A C2PA `uuid` box (purpose "manifest") written by the harness.
pub fn c2pa_uuid_box(store: &[u8]) -> Vec<u8> {
    let mut p = C2PA_UUID.to_vec();
    p.extend_from_slice(&[0, 0, 0, 0]);
    p.extend_from_slice(b"manifest\0");
    p.extend_from_slice(&0u64.to_be_bytes());
    p.extend_from_slice(store);
    bx(b"uuid", &p)
}

/// Inserts `extra` as a new top-level box after the top-level box number `after` (0-based) of an
/// MP4 built by `tiny_mp4`, fixing the single chunk offset when the media data moves.
pub fn mp4_insert_box(mp4: &[u8], after: usize, extra: &[u8]) -> Vec<u8> {
    let tops = crate::fmt::bmff::top_boxes(mp4).expect("tiny mp4 parses");
    let at = tops[after].end();
    let fields = crate::fmt::bmff::offset_fields(mp4).expect("offset fields");
    let mut out = mp4[..at].to_vec();
    out.extend_from_slice(extra);
    out.extend_from_slice(&mp4[at..]);
    let mut done: std::collections::BTreeSet<usize> = Default::default();
    for f in fields {
        // iloc with a base offset: the base carries the absolute part, extents stay relative
        let (pos, width, old) = match f.extra_mask.first() {
            Some((bp, bw)) => {
                let mut x = 0u64;
                for b in &mp4[*bp..*bp + *bw] {
                    x = (x << 8) | *b as u64;
                }
                (*bp, *bw, x)
            }
            None => (f.pos, f.width, f.value),
        };
        if !done.insert(pos) {
            continue;
        }
        let newpos = if pos >= at { pos + extra.len() } else { pos };
        let newval = if f.value as usize >= at { old + extra.len() as u64 } else { old };
        let b = newval.to_be_bytes();
        out[newpos..newpos + width].copy_from_slice(&b[8 - width..]);
    }
    out
}

/// HEIF-like file: ftyp, meta(hdlr, pitm, iloc, [idat]), mdat.  `variant`:
///  0: iloc v0, offset_size 4, base_offset_size 0 (extent_offset absolute), two items
///  1: iloc v1, base_offset_size 4 absolute base + relative extent offsets, construction_method 0
///  2: iloc v1, one item with construction_method 1 (idat-relative: must never be shifted) + one with 0
///  3: iloc v2 (32-bit item ids), offset_size 8, base_offset_size 8
pub fn tiny_heif(variant: u8, mdat_first: bool) -> Vec<u8> {
    let ftyp = {
        let mut p = b"heic".to_vec();
        p.extend_from_slice(&0u32.to_be_bytes());
        p.extend_from_slice(b"mif1heic");
        bx(b"ftyp", &p)
    };
    let item_a: Vec<u8> = (0..40u32).map(|i| (i * 7 + 1) as u8).collect();
    let item_b: Vec<u8> = (0..23u32).map(|i| (i * 11 + 3) as u8).collect();
    let mut md = item_a.clone();
    md.extend_from_slice(&item_b);
    let mdat = bx(b"mdat", &md);
    let build_meta = |mdat_payload: u64| -> Vec<u8> {
        let mut hdlr = vec![0u8; 4];
        hdlr.extend_from_slice(b"pict");
        hdlr.extend_from_slice(&[0u8; 12]);
        hdlr.push(0);
        let hdlr = fbx(b"hdlr", 0, 0, &hdlr);
        let pitm = fbx(b"pitm", 0, 0, &1u16.to_be_bytes());
        let a_off = mdat_payload;
        let b_off = mdat_payload + item_a.len() as u64;
        let mut extra = Vec::new();
        let iloc = match variant {
            0 => {
                let mut p = vec![0x44, 0x00];
                p.extend_from_slice(&2u16.to_be_bytes());
                for (id, off, len) in [(1u16, a_off, item_a.len()), (2, b_off, item_b.len())] {
                    p.extend_from_slice(&id.to_be_bytes());
                    p.extend_from_slice(&0u16.to_be_bytes()); // data_reference_index
                    p.extend_from_slice(&1u16.to_be_bytes()); // extent_count
                    p.extend_from_slice(&(off as u32).to_be_bytes());
                    p.extend_from_slice(&(len as u32).to_be_bytes());
                }
                fbx(b"iloc", 0, 0, &p)
            }
            1 => {
                let mut p = vec![0x44, 0x40];
                p.extend_from_slice(&1u16.to_be_bytes());
                p.extend_from_slice(&1u16.to_be_bytes()); // item id
                p.extend_from_slice(&0u16.to_be_bytes()); // construction_method 0
                p.extend_from_slice(&0u16.to_be_bytes());
                p.extend_from_slice(&(a_off as u32).to_be_bytes()); // base offset
                p.extend_from_slice(&2u16.to_be_bytes());
                p.extend_from_slice(&0u32.to_be_bytes());
                p.extend_from_slice(&(item_a.len() as u32).to_be_bytes());
                p.extend_from_slice(&(item_a.len() as u32).to_be_bytes());
                p.extend_from_slice(&(item_b.len() as u32).to_be_bytes());
                fbx(b"iloc", 1, 0, &p)
            }
            2 => {
                let idat_payload: Vec<u8> = (0..12u8).map(|i| 200 + i).collect();
                extra = bx(b"idat", &idat_payload);
                let mut p = vec![0x44, 0x00];
                p.extend_from_slice(&2u16.to_be_bytes());
                // item 1: idat-relative
                p.extend_from_slice(&1u16.to_be_bytes());
                p.extend_from_slice(&1u16.to_be_bytes()); // construction_method 1
                p.extend_from_slice(&0u16.to_be_bytes());
                p.extend_from_slice(&1u16.to_be_bytes());
                p.extend_from_slice(&4u32.to_be_bytes());
                p.extend_from_slice(&8u32.to_be_bytes());
                // item 2: file offset
                p.extend_from_slice(&2u16.to_be_bytes());
                p.extend_from_slice(&0u16.to_be_bytes());
                p.extend_from_slice(&0u16.to_be_bytes());
                p.extend_from_slice(&1u16.to_be_bytes());
                p.extend_from_slice(&(b_off as u32).to_be_bytes());
                p.extend_from_slice(&(item_b.len() as u32).to_be_bytes());
                fbx(b"iloc", 1, 0, &p)
            }
            _ => {
                let mut p = vec![0x84, 0x80];
                p.extend_from_slice(&1u32.to_be_bytes());
                p.extend_from_slice(&7u32.to_be_bytes()); // item id
                p.extend_from_slice(&0u16.to_be_bytes());
                p.extend_from_slice(&0u16.to_be_bytes());
                p.extend_from_slice(&a_off.to_be_bytes()); // base
                p.extend_from_slice(&1u16.to_be_bytes());
                p.extend_from_slice(&(item_a.len() as u64).to_be_bytes()); // extent offset (relative to base)
                p.extend_from_slice(&(item_b.len() as u32).to_be_bytes());
                fbx(b"iloc", 2, 0, &p)
            }
        };
        let mut m = hdlr;
        m.extend(pitm);
        m.extend(iloc);
        m.extend(extra);
        fbx(b"meta", 0, 0, &m)
    };
    let meta_len = build_meta(0).len();
    let mut v = ftyp.clone();
    if mdat_first {
        let off = (ftyp.len() + 8) as u64;
        v.extend(mdat);
        v.extend(build_meta(off));
    } else {
        let off = (ftyp.len() + meta_len + 8) as u64;
        v.extend(build_meta(off));
        v.extend(mdat);
    }
    v
}

/// Fragmented MP4: ftyp moov(mvhd, mvex) moof(mfhd, traf(tfhd with explicit base_data_offset, trun))
/// mdat mfra(tfra, mfro).
pub fn tiny_fragmented_mp4() -> Vec<u8> {
    let ftyp = {
        let mut p = b"iso5".to_vec();
        p.extend_from_slice(&0u32.to_be_bytes());
        p.extend_from_slice(b"iso5dash");
        bx(b"ftyp", &p)
    };
    let mut mvhd = vec![0u8; 96];
    mvhd[8..12].copy_from_slice(&1000u32.to_be_bytes());
    mvhd[92..96].copy_from_slice(&2u32.to_be_bytes());
    let mvhd = fbx(b"mvhd", 0, 0, &mvhd);
    let mut trex = 1u32.to_be_bytes().to_vec();
    trex.extend_from_slice(&[0u8; 16]);
    let mvex = bx(b"mvex", &fbx(b"trex", 0, 0, &trex));
    let mut moov = mvhd;
    moov.extend(mvex);
    let moov = bx(b"moov", &moov);
    let sample: Vec<u8> = (0..48u32).map(|i| (i * 5 + 9) as u8).collect();
    let moof_start = (ftyp.len() + moov.len()) as u64;
    let build_moof = |moof_len: u64| -> Vec<u8> {
        let mfhd = fbx(b"mfhd", 0, 0, &1u32.to_be_bytes());
        let mut tfhd = 1u32.to_be_bytes().to_vec();
        tfhd.extend_from_slice(&moof_start.to_be_bytes()); // base_data_offset = start of moof
        let tfhd = fbx(b"tfhd", 0, 0x000001, &tfhd);
        let mut trun = 1u32.to_be_bytes().to_vec();
        trun.extend_from_slice(&((moof_len + 8) as u32).to_be_bytes()); // data_offset relative to base
        trun.extend_from_slice(&(sample.len() as u32).to_be_bytes());
        let trun = fbx(b"trun", 0, 0x000201, &trun);
        let mut traf = tfhd;
        traf.extend(trun);
        let traf = bx(b"traf", &traf);
        let mut m = mfhd;
        m.extend(traf);
        bx(b"moof", &m)
    };
    let moof_len = build_moof(0).len() as u64;
    let moof = build_moof(moof_len);
    let mdat = bx(b"mdat", &sample);
    let mut tfra = 1u32.to_be_bytes().to_vec();
    tfra.extend_from_slice(&0u32.to_be_bytes());
    tfra.extend_from_slice(&1u32.to_be_bytes());
    tfra.extend_from_slice(&0u32.to_be_bytes()); // time
    tfra.extend_from_slice(&(moof_start as u32).to_be_bytes()); // moof_offset
    tfra.extend_from_slice(&[1, 1, 1]);
    let tfra = fbx(b"tfra", 0, 0, &tfra);
    let mfro_len = 16u32;
    let mfra_len = 8 + tfra.len() as u32 + mfro_len;
    let mfro = fbx(b"mfro", 0, 0, &mfra_len.to_be_bytes());
    let mut mfra = tfra;
    mfra.extend(mfro);
    let mfra = bx(b"mfra", &mfra);
    let mut v = ftyp;
    v.extend(moov);
    v.extend(moof);
    v.extend(mdat);
    v.extend(mfra);
    v
}

/// JPEG XL container with a fake codestream box (the SDK never decodes the codestream).
pub fn tiny_jxl(extra_boxes: bool) -> Vec<u8> {
    tiny_jxl_ex(extra_boxes, false)
}

/// `foreign_jumb`: additionally carries a JUMBF superbox that is *not* a C2PA manifest store
/// (description type JSON content, label "verif.foreign") in front of the codestream.
pub fn tiny_jxl_ex(extra_boxes: bool, foreign_jumb: bool) -> Vec<u8> {
    let mut v = crate::fmt::jxl::MAGIC.to_vec();
    let mut p = b"jxl ".to_vec();
    p.extend_from_slice(&0u32.to_be_bytes());
    p.extend_from_slice(b"jxl ");
    v.extend(bx(b"ftyp", &p));
    if extra_boxes {
        v.extend(bx(b"Exif", &[0, 0, 0, 0, b'I', b'I', 42, 0, 8, 0, 0, 0, 0, 0]));
    }
    if foreign_jumb {
        // jumd: 16-byte content type UUID (JSON content type), toggles 0x03, label
        let mut jumd = vec![0x6A, 0x73, 0x6F, 0x6E, 0x00, 0x11, 0x00, 0x10, 0x80, 0x00, 0x00, 0xAA, 0x00, 0x38, 0x9B, 0x71, 0x03];
        jumd.extend_from_slice(b"verif.foreign\0");
        let mut payload = bx(b"jumd", &jumd);
        payload.extend(bx(b"json", br#"{"not":"c2pa"}"#));
        v.extend(bx(b"jumb", &payload));
    }
    let mut cs = vec![0xFF, 0x0A];
    cs.extend((0..61u8).map(|i| i.wrapping_mul(13)));
    v.extend(bx(b"jxlc", &cs));
    v
}

/// Native FLAC: fLaC, STREAMINFO, optional PADDING block, fake frame bytes.
pub fn tiny_flac(padding: bool) -> Vec<u8> {
    let mut v = b"fLaC".to_vec();
    let mut si = vec![0u8; 34];
    si[0..2].copy_from_slice(&4096u16.to_be_bytes());
    si[2..4].copy_from_slice(&4096u16.to_be_bytes());
    si[10] = 0x0A;
    si[11] = 0xC4;
    si[12] = 0x42;
    si[13] = 0xF0;
    v.push(if padding { 0x00 } else { 0x80 });
    v.extend_from_slice(&[0, 0, 34]);
    v.extend(si);
    if padding {
        v.push(0x81);
        v.extend_from_slice(&[0, 0, 9]);
        v.extend_from_slice(&[0u8; 9]);
    }
    v.extend_from_slice(&[0xFF, 0xF8, 0xC9, 0x18, 0x00, 0xC2]);
    v.extend((0..57u8).map(|i| i.wrapping_mul(3)));
    v
}

fn riff_chunk(id: &[u8; 4], data: &[u8]) -> Vec<u8> {
    let mut v = id.to_vec();
    v.extend_from_slice(&(data.len() as u32).to_le_bytes());
    v.extend_from_slice(data);
    if data.len() % 2 == 1 {
        v.push(0);
    }
    v
}

/// Lossless WebP skeleton (VP8L chunk with `n` payload bytes; odd n exercises padding).
pub fn tiny_webp(n: usize) -> Vec<u8> {
    let mut d = vec![0x2F, 0x00, 0x00, 0x00, 0x00];
    d.extend((0..n.saturating_sub(5)).map(|i| (i * 17 % 251) as u8));
    let mut body = b"WEBP".to_vec();
    body.extend(riff_chunk(b"VP8L", &d));
    let mut v = b"RIFF".to_vec();
    v.extend_from_slice(&(body.len() as u32).to_le_bytes());
    v.extend(body);
    v
}

/// AVI skeleton: RIFF AVI (LIST hdrl(avih), LIST movi(00dc odd-sized, 01wb), idx1) [+ RIFF AVIX(LIST movi)].
pub fn tiny_avi(avix: bool) -> Vec<u8> {
    tiny_avi_n(if avix { 1 } else { 0 })
}

/// Same with `n_avix` extra top-level `RIFF AVIX` chunks (OpenDML files have many).
pub fn tiny_avi_n(n_avix: usize) -> Vec<u8> {
    let mut hdrl = b"hdrl".to_vec();
    hdrl.extend(riff_chunk(b"avih", &[0u8; 56]));
    let mut movi = b"movi".to_vec();
    movi.extend(riff_chunk(b"00dc", &(0..21u8).collect::<Vec<u8>>()));
    movi.extend(riff_chunk(b"01wb", &(0..16u8).map(|i| i * 3).collect::<Vec<u8>>()));
    let mut body = b"AVI ".to_vec();
    body.extend(riff_chunk(b"LIST", &hdrl));
    body.extend(riff_chunk(b"LIST", &movi));
    body.extend(riff_chunk(b"idx1", &[0u8; 32]));
    let mut v = b"RIFF".to_vec();
    v.extend_from_slice(&(body.len() as u32).to_le_bytes());
    v.extend(body);
    for k in 0..n_avix {
        let mut movi2 = b"movi".to_vec();
        movi2.extend(riff_chunk(b"00dc", &(0..(30 + 3 * k as u8)).map(|i| 255 - i - k as u8).collect::<Vec<u8>>()));
        let mut body2 = b"AVIX".to_vec();
        body2.extend(riff_chunk(b"LIST", &movi2));
        v.extend_from_slice(b"RIFF");
        v.extend_from_slice(&(body2.len() as u32).to_le_bytes());
        v.extend(body2);
    }
    v
}

/// TIFF writer: `big` = BigTIFF, `le` byte order, `pages` IFDs each with one strip of `n` bytes and an
/// out-of-line ASCII tag; page 0 optionally has a SubIFD with its own strip.
pub fn tiny_tiff_ex(big: bool, le: bool, pages: usize, n: usize, subifd: bool) -> Vec<u8> {
    let w16 = |v: &mut Vec<u8>, x: u16| v.extend_from_slice(&if le { x.to_le_bytes() } else { x.to_be_bytes() });
    let w32 = |v: &mut Vec<u8>, x: u32| v.extend_from_slice(&if le { x.to_le_bytes() } else { x.to_be_bytes() });
    let w64 = |v: &mut Vec<u8>, x: u64| v.extend_from_slice(&if le { x.to_le_bytes() } else { x.to_be_bytes() });
    let word = |v: &mut Vec<u8>, x: u64| {
        if big {
            w64(v, x)
        } else {
            w32(v, x as u32)
        }
    };
    let mut v: Vec<u8> = if le { b"II".to_vec() } else { b"MM".to_vec() };
    if big {
        w16(&mut v, 43);
        w16(&mut v, 8);
        w16(&mut v, 0);
        w64(&mut v, 0); // patched later
    } else {
        w16(&mut v, 42);
        w32(&mut v, 0);
    }
    let first_ptr_pos = if big { 8 } else { 4 };
    let mut prev_next_pos = first_ptr_pos;
    let patch = |v: &mut Vec<u8>, pos: usize, x: u64| {
        let mut t = Vec::new();
        if big {
            t.extend_from_slice(&if le { x.to_le_bytes() } else { x.to_be_bytes() });
        } else {
            t.extend_from_slice(&if le { (x as u32).to_le_bytes() } else { (x as u32).to_be_bytes() });
        }
        v[pos..pos + t.len()].copy_from_slice(&t);
    };
    // entry writer: (tag, type, count, value-or-offset)
    let entry = |v: &mut Vec<u8>, tag: u16, typ: u16, count: u64, val: u64| {
        w16(v, tag);
        w16(v, typ);
        if big {
            w64(v, count);
        } else {
            w32(v, count as u32);
        }
        // inline values are left-justified
        let sz = match typ {
            3 => 2,
            4 | 13 => 4,
            16 | 18 => 8,
            _ => 1,
        } as u64;
        let wordsz = if big { 8 } else { 4 };
        if count * sz <= wordsz && typ == 3 {
            let mut t = Vec::new();
            w16(&mut t, val as u16);
            t.resize(wordsz as usize, 0);
            v.extend(t);
        } else if count * sz <= wordsz && typ == 4 && big {
            let mut t = Vec::new();
            w32(&mut t, val as u32);
            t.resize(8, 0);
            v.extend(t);
        } else {
            word(v, val);
        }
    };
    for pg in 0..pages {
        if v.len() % 2 == 1 {
            v.push(0);
        }
        let strip: Vec<u8> = (0..n).map(|i| ((i * 13 + pg * 5) % 256) as u8).collect();
        let strip_off = v.len() as u64;
        v.extend_from_slice(&strip);
        if v.len() % 2 == 1 {
            v.push(0);
        }
        let desc = format!("verif page {pg} description\0");
        let desc_off = v.len() as u64;
        v.extend_from_slice(desc.as_bytes());
        if v.len() % 2 == 1 {
            v.push(0);
        }
        let mut sub_off = 0u64;
        if subifd && pg == 0 {
            let sstrip: Vec<u8> = (0..9u8).map(|i| 100 + i).collect();
            let sstrip_off = v.len() as u64;
            v.extend_from_slice(&sstrip);
            v.push(0);
            sub_off = v.len() as u64;
            let ents: Vec<(u16, u16, u64, u64)> = vec![(256, 3, 1, 9), (257, 3, 1, 1), (258, 3, 1, 8), (259, 3, 1, 1), (262, 3, 1, 1), (273, 4, 1, sstrip_off), (277, 3, 1, 1), (278, 3, 1, 1), (279, 4, 1, 9)];
            if big {
                w64(&mut v, ents.len() as u64);
            } else {
                w16(&mut v, ents.len() as u16);
            }
            for (t, ty, c, val) in ents {
                entry(&mut v, t, ty, c, val);
            }
            word(&mut v, 0);
        }
        let ifd_off = v.len() as u64;
        patch(&mut v, prev_next_pos, ifd_off);
        let mut ents: Vec<(u16, u16, u64, u64)> = vec![
            (256, 3, 1, n as u64),
            (257, 3, 1, 1),
            (258, 3, 1, 8),
            (259, 3, 1, 1),
            (262, 3, 1, 1),
            (270, 2, desc.len() as u64, desc_off),
            (273, 4, 1, strip_off),
            (277, 3, 1, 1),
            (278, 3, 1, 1),
            (279, 4, 1, n as u64),
        ];
        if sub_off != 0 {
            ents.push((0x014A, 4, 1, sub_off));
        }
        if big {
            w64(&mut v, ents.len() as u64);
        } else {
            w16(&mut v, ents.len() as u16);
        }
        for (t, ty, c, val) in ents {
            entry(&mut v, t, ty, c, val);
        }
        prev_next_pos = v.len();
        word(&mut v, 0);
    }
    v
}

/// All GIF extension kinds: comment, plain text, application (NETSCAPE2.0 + an unknown one),
/// graphic control, two images (one with local colour table), trailing bytes optional.
pub fn rich_gif(plain_text: bool, trailing: &[u8]) -> Vec<u8> {
    let mut v = b"GIF89a".to_vec();
    v.extend_from_slice(&[2, 0, 2, 0, 0x80, 0, 0]);
    v.extend_from_slice(&[0, 0, 0, 255, 255, 255]);
    v.extend_from_slice(&[0x21, 0xFF, 11]);
    v.extend_from_slice(b"NETSCAPE2.0");
    v.extend_from_slice(&[3, 1, 0, 0, 0]);
    v.extend_from_slice(&[0x21, 0xFE, 5]);
    v.extend_from_slice(b"verif");
    v.extend_from_slice(&[3, b'a', b'b', b'c', 0]);
    if plain_text {
        v.extend_from_slice(&[0x21, 0x01, 12, 0, 0, 0, 0, 2, 0, 2, 0, 1, 1, 0, 1, 2, b'h', b'i', 0]);
    }
    v.extend_from_slice(&[0x21, 0xFF, 11]);
    v.extend_from_slice(b"VERIFAPP1.0");
    v.extend_from_slice(&[2, 9, 9, 0]);
    v.extend_from_slice(&[0x21, 0xF9, 4, 0, 5, 0, 0, 0]);
    v.extend_from_slice(&[0x2C, 0, 0, 0, 0, 1, 0, 1, 0, 0]);
    v.extend_from_slice(&[2, 2, 0x44, 0x01, 0]);
    v.extend_from_slice(&[0x21, 0xF9, 4, 0, 5, 0, 0, 0]);
    v.extend_from_slice(&[0x2C, 1, 0, 1, 0, 1, 0, 1, 0, 0x80]);
    v.extend_from_slice(&[10, 20, 30, 40, 50, 60]);
    v.extend_from_slice(&[2, 2, 0x44, 0x01, 0]);
    v.push(0x3B);
    v.extend_from_slice(trailing);
    v
}

/// Two concatenated JPEG images (MPF-style multi-picture without the index): SOI…EOI SOI…EOI.
pub fn multi_jpeg() -> Vec<u8> {
    let mut v = assets::tiny_jpeg(None, false, &[]);
    v.extend(assets::tiny_jpeg(None, true, &[]));
    v
}

/// JPEG with a foreign (non-C2PA) JUMBF box in APP11 and a COM segment.
pub fn jpeg_with_foreign_app11() -> Vec<u8> {
    let base = assets::tiny_jpeg(None, false, &[]);
    // insert after APP0 (offset 2 + 18)
    let mut jumd = vec![0u8; 16];
    jumd[..4].copy_from_slice(b"exif");
    jumd.push(0x03);
    jumd.extend_from_slice(b"other\0");
    let mut sup = jumbf::make_box(b"jumd", &jumd);
    sup.extend(jumbf::make_box(b"bidb", b"foreign payload"));
    let sup = jumbf::make_box(b"jumb", &sup);
    let mut seg = b"JP".to_vec();
    seg.extend_from_slice(&[0x00, 0x07]);
    seg.extend_from_slice(&1u32.to_be_bytes());
    seg.extend_from_slice(&sup);
    let mut v = base[..20].to_vec();
    v.extend_from_slice(&[0xFF, 0xEB]);
    v.extend_from_slice(&((seg.len() + 2) as u16).to_be_bytes());
    v.extend(seg);
    v.extend_from_slice(&[0xFF, 0xFE, 0, 7]);
    v.extend_from_slice(b"verif");
    v.extend_from_slice(&base[20..]);
    v
}

/// PNG with an unknown ancillary chunk before and after IDAT.
pub fn png_with_unknown_chunks() -> Vec<u8> {
    let base = assets::tiny_png(true, &[]);
    // chunks: sig(8) IHDR(25) tEXt … ; append a private chunk before IEND (last 12 bytes)
    let mut v = base[..base.len() - 12].to_vec();
    let typ = b"vrFy";
    let data = b"private chunk data";
    v.extend_from_slice(&(data.len() as u32).to_be_bytes());
    v.extend_from_slice(typ);
    v.extend_from_slice(data);
    v.extend_from_slice(&crate::fmt::crc32(&[typ, data]).to_be_bytes());
    v.extend_from_slice(&base[base.len() - 12..]);
    v
}

/// The extended tiny asset set: `assets::tiny_assets()` + the generators above.
pub fn extended_tiny_assets() -> Vec<Asset> {
    let mut v = assets::tiny_assets();
    let mut add = |name: &str, format: &'static str, bytes: Vec<u8>| v.push(Asset { name: name.to_string(), format, bytes });
    add("tiny_trailing.jpg", "jpg", assets::tiny_jpeg(None, false, b"TRAILING-BYTES"));
    add("tiny_multi.jpg", "jpg", multi_jpeg());
    add("tiny_foreign_app11.jpg", "jpg", jpeg_with_foreign_app11());
    add("tiny_trailing.png", "png", assets::tiny_png(false, b"after-iend"));
    add("tiny_private.png", "png", png_with_unknown_chunks());
    add("tiny_rich.gif", "gif", rich_gif(false, &[]));
    add("tiny_plaintext.gif", "gif", rich_gif(true, &[]));
    add("tiny_trailing.gif", "gif", assets::tiny_gif(false, b"\0\0trail"));
    add("tiny_even.wav", "wav", assets::tiny_wav(32, false));
    add("tiny_odd.webp", "webp", tiny_webp(27));
    add("tiny_even.webp", "webp", tiny_webp(28));
    add("tiny.avi", "avi", tiny_avi(false));
    add("tiny_avix.avi", "avi", tiny_avi(true));
    add("tiny_avix3.avi", "avi", tiny_avi_n(3));
    add("tiny_even.tif", "tif", assets::tiny_tiff(36));
    add("tiny_be.tif", "tif", tiny_tiff_ex(false, false, 1, 21, false));
    add("tiny_multipage.tif", "tif", tiny_tiff_ex(false, true, 3, 17, true));
    add("tiny_big.tif", "tif", tiny_tiff_ex(true, true, 2, 19, false));
    add("tiny_noid3.mp3", "mp3", assets::tiny_mp3(2, false));
    add("tiny.flac", "flac", tiny_flac(false));
    add("tiny_padding.flac", "flac", tiny_flac(true));
    add("tiny.jxl", "jxl", tiny_jxl(false));
    add("tiny_exif.jxl", "jxl", tiny_jxl(true));
    add("tiny_foreign_jumb.jxl", "jxl", tiny_jxl_ex(false, true));
    add("tiny_co64_large.mp4", "mp4", assets::tiny_mp4(Mp4Layout::MoovFirst, 40, true, true));
    add("tiny_mdatfirst_stco.mp4", "mp4", assets::tiny_mp4(Mp4Layout::MdatFirst, 40, false, false));
    for variant in 0..4u8 {
        add(&format!("tiny_iloc{variant}.heic"), "heic", tiny_heif(variant, false));
    }
    add("tiny_iloc0_mdatfirst.heic", "heic", tiny_heif(0, true));
    add("tiny_fragmented.mp4", "mp4", tiny_fragmented_mp4());
    add("tiny.c2pa", "c2pa", make_store(120, 99, 0).0);
    v
}

/// Hostile BMFF layouts with a harness-written C2PA box *behind* media data / offset tables.
pub fn hostile_bmff_assets() -> Vec<Asset> {
    let store = make_store(90, 7, 0).0;
    let cb = c2pa_uuid_box(&store);
    let mut v = Vec::new();
    let mut add = |name: &str, format: &'static str, bytes: Vec<u8>| v.push(Asset { name: name.to_string(), format, bytes });
    for (co64, tag) in [(false, "stco"), (true, "co64")] {
        let a = assets::tiny_mp4(Mp4Layout::MoovFirst, 48, co64, false);
        // ftyp moov mdat uuid
        add(&format!("ftyp-moov-mdat-uuid_{tag}.mp4"), "mp4", mp4_insert_box(&a, 2, &cb));
        // ftyp moov uuid mdat
        add(&format!("ftyp-moov-uuid-mdat_{tag}.mp4"), "mp4", mp4_insert_box(&a, 1, &cb));
        let b = assets::tiny_mp4(Mp4Layout::MdatFirst, 48, co64, false);
        // ftyp mdat moov uuid
        add(&format!("ftyp-mdat-moov-uuid_{tag}.mp4"), "mp4", mp4_insert_box(&b, 2, &cb));
        // ftyp mdat uuid moov
        add(&format!("ftyp-mdat-uuid-moov_{tag}.mp4"), "mp4", mp4_insert_box(&b, 1, &cb));
        // ftyp uuid mdat moov (canonical position)
        add(&format!("ftyp-uuid-mdat-moov_{tag}.mp4"), "mp4", mp4_insert_box(&b, 0, &cb));
    }
    let h = tiny_heif(0, true);
    add("ftyp-mdat-meta-uuid_iloc.heic", "heic", mp4_insert_box(&h, 2, &cb));
    add("ftyp-mdat-uuid-meta_iloc.heic", "heic", mp4_insert_box(&h, 1, &cb));
    let h1 = tiny_heif(1, false);
    add("ftyp-meta-mdat-uuid_iloc-base.heic", "heic", mp4_insert_box(&h1, 2, &cb));
    let f = tiny_fragmented_mp4();
    add("ftyp-moov-moof-mdat-mfra-uuid_frag.mp4", "mp4", mp4_insert_box(&f, 4, &cb));
    add("ftyp-moov-uuid-moof-mdat-mfra_frag.mp4", "mp4", mp4_insert_box(&f, 1, &cb));
    v
}

// ------------------------------------------------------------------------------------------
// asset states

#[derive(Clone, Debug)]
pub struct Subject {
    pub name: String,
    pub format: &'static str,
    /// "clean" | "signed" | "xmp" | "layout" (harness-written C2PA box)
    pub state: &'static str,
    pub origin: &'static str,
    pub bytes: Vec<u8>,
}

fn sign_settings() -> String {
    serde_json::json!({"builder": {"thumbnail": {"enabled": false}}, "verify": {"verify_trust": false}}).to_string()
}

/// Signs `a` with the Builder (Ed25519 fixture key); `remote_only` = XMP provenance reference and no
/// embedded manifest.  None when the SDK refuses (format without remote-ref support …).
pub fn builder_state(a: &Asset, remote_only: bool) -> Option<Vec<u8>> {
    let r = report::catch_sdk(|| {
        let ctx = Context::new().with_settings(sign_settings().as_str()).ok()?;
        let mut b = Builder::from_context(ctx).with_definition(serde_json::json!({"title": "verif", "assertions": [{"label": "org.verif.test", "data": {"k": 1}}]})).ok()?;
        b.set_intent(c2pa::BuilderIntent::Edit);
        if remote_only {
            b.set_remote_url("https://verif.invalid/manifest.c2pa");
            b.set_no_embed(true);
        }
        let signer = signers::test_signer("ed25519");
        let mut src = Cursor::new(a.bytes.clone());
        let mut dst = Cursor::new(Vec::new());
        b.sign(signer.as_ref(), a.format, &mut src, &mut dst).ok()?;
        Some(dst.into_inner())
    });
    r.ok().flatten().filter(|o| !o.is_empty())
}

/// MP3 whose ID3v2.3 tag carries a manifest store in a GEOB frame with the *deprecated* MIME type
/// `application/x-c2pa-manifest-store` and a foreign description, written by the harness (files
/// produced by older SDK versions look like this): replace/remove must treat it as the manifest.
pub fn legacy_geob_mp3(store: &[u8]) -> Vec<u8> {
    let mut body = vec![0u8]; // text encoding: ISO-8859-1
    body.extend_from_slice(b"application/x-c2pa-manifest-store\0");
    body.extend_from_slice(b"c2pa\0");
    body.extend_from_slice(b"legacy c2pa store\0");
    body.extend_from_slice(store);
    let mut frame = b"GEOB".to_vec();
    frame.extend_from_slice(&(body.len() as u32).to_be_bytes());
    frame.extend_from_slice(&[0, 0]);
    frame.extend_from_slice(&body);
    // a second, foreign frame so that the tag is not "only C2PA"
    let mut t = b"TIT2".to_vec();
    let text = b"\0verif legacy";
    t.extend_from_slice(&(text.len() as u32).to_be_bytes());
    t.extend_from_slice(&[0, 0]);
    t.extend_from_slice(text);
    frame.extend_from_slice(&t);
    let sz = frame.len() as u32;
    let mut v = b"ID3\x03\x00\x00".to_vec();
    v.extend_from_slice(&[((sz >> 21) & 0x7F) as u8, ((sz >> 14) & 0x7F) as u8, ((sz >> 7) & 0x7F) as u8, (sz & 0x7F) as u8]);
    v.extend(frame);
    v.extend(crate::assets::tiny_mp3(2, false));
    v
}

/// clean + (signed, xmp where the SDK can produce them) for every asset.
pub fn subjects(assets: &[Asset], origin: &'static str, states: bool) -> Vec<Subject> {
    let per: Vec<Vec<Subject>> = crate::par::par_map(assets.len(), |i| {
        let a = &assets[i];
        let mut v = vec![Subject { name: a.name.clone(), format: a.format, state: "clean", origin, bytes: a.bytes.clone() }];
        if states {
            if let Some(b) = builder_state(a, false) {
                v.push(Subject { name: a.name.clone(), format: a.format, state: "signed", origin, bytes: b });
            }
            if let Some(b) = builder_state(a, true) {
                if b != a.bytes {
                    v.push(Subject { name: a.name.clone(), format: a.format, state: "xmp", origin, bytes: b });
                }
            }
            if a.name == "tiny.mp3" {
                let mut fill = |n: usize| vec![0x5Au8; n];
                if let Some(st) = crate::jumbf::dummy_store(300, &mut fill) {
                    v.push(Subject { name: "tiny_legacy_geob.mp3".into(), format: "mp3", state: "legacy-geob", origin, bytes: legacy_geob_mp3(&st) });
                }
            }
        }
        v
    });
    per.into_iter().flatten().collect()
}

/// Difference positions of two equally long byte strings as maximal runs (start, len).
pub fn diff_runs(a: &[u8], b: &[u8]) -> Vec<(usize, usize)> {
    let mut out = Vec::new();
    let n = a.len().min(b.len());
    let mut i = 0;
    while i < n {
        if a[i] != b[i] {
            let s = i;
            while i < n && a[i] != b[i] {
                i += 1;
            }
            out.push((s, i - s));
        } else {
            i += 1;
        }
    }
    out
}
